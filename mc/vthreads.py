"""E4 - preemption-bounded deterministic scheduling of REAL threads (baton passing).

Every controlled thread owns a private real binary semaphore (``go``, a raw ``_thread`` lock).  Exactly one controlled
thread holds the *baton* and runs; all the others are parked on their ``go``.  At a *point* the running thread publishes
what it is about to do - an ``enabled()`` predicate and an optional virtual deadline - and the scheduling decision is
taken right there (by the baton holder, so the ``Ctx`` and the ``World`` are never used concurrently):

    canonical order = [current thread (if still enabled), the others by creation index]
    label "first"   : which thread runs first                                              (free)
    label "preempt" : index != 0 while the current thread is still enabled = PREEMPTION    (costed)
    label "switch"  : the current thread is blocked / has exited, index != 0 = not the canonical successor
                      (free by default, costed with ``Scheduler(costed_switches=True)``)

If the decision is "keep running" nothing else happens; otherwise the chosen thread's ``go`` is released and the caller
parks on its own.  When nobody is enabled the virtual clock jumps to the earliest deadline; no deadline => the run ends
with status 'deadlock'.  The thread that called ``Scheduler.run()`` only waits for the baton to come back (run over) and
is the hang watchdog: no scheduling step for ``hang_timeout`` real seconds => ``HarnessHang`` (an INTERNAL harness
error, never a violation; the process is then *tainted* because a stuck thread cannot be killed).

Points are: acquire / release of ``CLock`` / ``CRLock`` (re-entrant acquisitions are not points); ``CEvent.set / clear /
is_set / wait``; ``CCondition.wait / notify / notify_all``; ``CThread.start / join``; thread exit; every ``select()`` of
an event loop built with ``Scheduler.loop_factory`` (a blocking select is enabled when the world reports a ready fd, the
loop's self-pipe is REALLY readable - polled with a zero timeout - or the ready queue is not empty; its timeout is a
virtual deadline); ``loop.call_soon_threadsafe`` of such a loop (a point of the CALLING thread); anything a harness
marks with ``Scheduler.point(label)`` (e.g. from a World send/recv policy: FakeSocket I/O as a point).
A point is placed BEFORE the operation it announces.

The controlled primitives are installed by replacing the ``threading`` NAME inside the modules that create the
library's synchronisation objects (``install()`` / ``uninstall()`` / ``installed()``); classes that were DEFINED as
subclasses of the real ``threading.Thread`` (NetworkServerThread) get their base class swapped for the same duration.
Locks created elsewhere (logging, import system, asyncio internals) stay real: no point lies inside a region that
holds them.  ``time.perf_counter`` / ``time.monotonic`` are pointed at the virtual clock once per execution by
``Scheduler.run()`` and restored by ``Scheduler.abort()``.

What this engine does NOT explore: a switch between two bytecodes of library code with no point in between
(data races on unsynchronised Python state).

API summary:

    sched = Scheduler(ctx, world=None, horizon=4000, hang_timeout=20.0, costed_switches=False)
    with installed(sched):                      # swaps the threading name, restores it even on error, unwinds threads
        obj = LibraryObject(...)                # primitives created from now on are controlled
        sched.spawn(lambda: obj.call_a(), "a")  # a real thread, parked until scheduled
        sched.spawn(lambda: obj.call_b(), "b")
        status = sched.run()                    # 'ok' | 'deadlock' | 'horizon'   (raises HarnessHang on a hang)
        sched.threads[i].result / .exc / .done / .parked_kind ; sched.steps ; sched.now() ; sched.trace (keep_trace=True)
        sched.spawn(cleanup, "cleanup"); sched.run(explore=False)   # deterministic continuation (no choices)
    # leaving the block calls sched.abort(): every thread still parked is unwound (one at a time) and joined
"""
from __future__ import annotations

import asyncio
import contextlib
import importlib
import _thread
import selectors
import threading as _real_threading
import time
import types
from typing import Any, Callable

from .core import Ctx, HorizonHit
from .world import VSelector, World
from . import vloop as _vloop

__all__ = [
    "Scheduler", "VThread", "CLock", "CRLock", "CEvent", "CCondition", "CThread", "HarnessHang", "HarnessError",
    "install", "uninstall", "installed", "make_shim", "DEFAULT_MODULES", "CoopLoop", "tainted",
]

_REAL_GET_IDENT = _real_threading.get_ident

# modules whose ``threading`` name is replaced: (module, attribute)
DEFAULT_MODULES: tuple[tuple[str, str], ...] = (
    ("easynetwork.lowlevel._lock", "threading"),
    ("easynetwork.servers._base", "_threading"),
    ("easynetwork.servers.threads_helper", "_threading"),
    ("easynetwork.clients.tcp", "threading"),
    ("easynetwork.clients.udp", "threading"),
    ("concurrent.futures._base", "threading"),
)


class HarnessHang(BaseException):
    """A controlled thread did not reach a point within the watchdog delay: INTERNAL error, never a violation."""


class HarnessError(BaseException):
    """The harness was used in a way the engine cannot schedule (e.g. an uncontrolled thread would block)."""


class _Abort(BaseException):
    """Raised inside controlled threads to unwind an abandoned execution."""


_TAINTED: list[str] = []


def tainted() -> list[str]:
    """Non-empty once a thread of an earlier execution could not be unwound: later results are unreliable."""
    return _TAINTED


_ACTIVE: "Scheduler | None" = None


def _sched() -> "Scheduler | None":
    return _ACTIVE


# ---------------------------------------------------------------------------------------------------------
# threads


class VThread:
    """One controlled thread."""

    def __init__(self, sched: "Scheduler", index: int, fn: Callable[[], Any], name: str) -> None:
        self.sched = sched
        self.index = index
        self.fn = fn
        self.name = name
        self.go = _thread.allocate_lock()  # binary semaphore (strict alternation with the scheduler)
        self.go.acquire()
        self.started = False  # real thread created
        self.done = False
        self.result: Any = None
        self.exc: BaseException | None = None
        self.aborted = False
        # published at a point
        self.parked_kind: str | None = "start"
        self.enabled: Callable[[], bool] | None = None  # None = always enabled
        self.deadline: float | None = None
        self.timed_out = False
        self.points = 0
        self.real: _real_threading.Thread | None = None
        self.ident: int | None = None
        self.t_start: int | None = None  # scheduler step at which the body started / ended
        self.t_end: int | None = None

    def is_enabled(self) -> bool:
        if self.done:
            return False
        if self.enabled is None:
            return True
        if self.deadline is not None and self.sched.clock() >= self.deadline:
            return True
        return bool(self.enabled())

    def __repr__(self) -> str:
        return f"<VThread {self.index}:{self.name} {'done' if self.done else self.parked_kind}>"

    # -- real thread body ---------------------------------------------------------------------------------
    def _bootstrap(self) -> None:
        sched = self.sched
        self.ident = _REAL_GET_IDENT()
        sched.by_ident[self.ident] = self
        self.go.acquire()
        try:
            if sched.aborting:
                raise _Abort()
            self.parked_kind = None
            self.t_start = sched.steps
            self.result = self.fn()
        except _Abort:
            self.aborted = True
        except BaseException as exc:  # noqa: BLE001 - recorded, the harness decides
            self.exc = exc
        finally:
            self.t_end = sched.steps
            self.done = True
            self.parked_kind = "exit"
            sched.by_ident.pop(self.ident, None)
            sched._leave(self)


class Scheduler:
    def __init__(self, ctx: Ctx, world: World | None = None, *, horizon: int = 4000, hang_timeout: float = 20.0,
                 fairness: int = 400, free_switch_choice: bool = True, costed_switches: bool = False) -> None:
        self.ctx = ctx
        self.world = world
        self.horizon = horizon
        self.hang_timeout = hang_timeout
        self.fairness = fairness
        self.free_switch_choice = free_switch_choice
        self.threads: list[VThread] = []
        self.by_ident: dict[int, VThread] = {}
        self._main = _thread.allocate_lock()  # the baton comes back to run() through this binary semaphore
        self._main.acquire()
        self.status: str | None = None
        self.fatal: BaseException | None = None
        self.costed_switches = costed_switches
        self.current: VThread | None = None
        self.steps = 0
        self.aborting = False
        self.explore = True
        self._clock = 0.0
        self.trace: list[tuple[int, str]] = []  # (thread index, point kind) in execution order
        self.keep_trace = False
        self.preemptions = 0
        self.free_switches = 0
        self.fair_yields = 0
        self.clock_jumps = 0
        self.loops: list["CoopLoop"] = []
        self._streak = 0
        self._clock_installed = False

    # -- time ---------------------------------------------------------------------------------------------
    def clock(self) -> float:
        return self.world.clock if self.world is not None else self._clock

    now = clock

    def _set_clock(self, t: float) -> None:
        if self.world is not None:
            self.world.clock = t
        else:
            self._clock = t

    def install_clock(self) -> None:
        """time.perf_counter / time.monotonic = the virtual clock, ONCE per execution (scheduler side)."""
        if not self._clock_installed:
            time.perf_counter = self.clock  # type: ignore[assignment]
            time.monotonic = self.clock  # type: ignore[assignment]
            self._clock_installed = True

    def restore_clock(self) -> None:
        if self._clock_installed:
            World.restore_clock()
            self._clock_installed = False

    # -- threads ------------------------------------------------------------------------------------------
    def spawn(self, fn: Callable[[], Any], name: str = "") -> VThread:
        th = VThread(self, len(self.threads), fn, name or f"t{len(self.threads)}")
        self.threads.append(th)
        th.real = _real_threading.Thread(target=th._bootstrap, name=f"vthread-{th.name}", daemon=True)
        th.started = True
        th.real.start()
        return th

    def current_thread(self) -> VThread | None:
        return self.by_ident.get(_REAL_GET_IDENT())

    # -- points (called from controlled threads) -----------------------------------------------------------
    def point(self, kind: str, enabled: Callable[[], bool] | None = None, deadline: float | None = None) -> bool:
        """Scheduling point of the calling controlled thread.  Returns True when resumed because the deadline was
        reached while ``enabled()`` was still false.  A call from an uncontrolled thread (the scheduler thread while it
        builds the objects, or a thread being unwound) is a no-op when it would not block.

        The scheduling decision is taken by the thread that holds the baton (exactly one thread runs at a time, so the
        ``Ctx`` is never used concurrently); a real hand-off only happens when another thread is picked."""
        th = self.current_thread()
        if th is None or self.aborting:
            if enabled is None or enabled():
                return False  # lets finally-blocks of an unwinding thread proceed when they can
            if th is not None:
                raise _Abort()
            raise HarnessError(f"uncontrolled thread would block at {kind!r}")
        th.parked_kind = kind
        th.enabled = enabled
        th.deadline = deadline
        th.points += 1
        nxt = self._decide()
        if nxt is not th:
            if nxt is None:
                self._main.release()  # the run is over (deadlock / horizon / fatal): give the baton back to run()
            else:
                nxt.go.release()
            th.go.acquire()
            if self.aborting:
                th.enabled = None
                th.deadline = None
                if enabled is None or enabled():
                    return False
                raise _Abort()
        timed_out = enabled is not None and not enabled()  # only possible through the deadline
        th.parked_kind = None
        th.enabled = None
        th.deadline = None
        return timed_out

    def _leave(self, th: VThread) -> None:
        """Called by a controlled thread that has finished (its last action)."""
        if self.aborting:
            self._main.release()
            return
        nxt = self._decide()
        if nxt is None:
            self._main.release()
        else:
            nxt.go.release()

    # -- the scheduling decision (runs in whichever thread holds the baton) -----------------------------------
    def _decide(self) -> VThread | None:
        """Pick the next thread to run, or None when the run is over (``self.status`` says why)."""
        try:
            return self._decide_inner()
        except BaseException as exc:  # DivergenceError / Pruned from ctx.choose: re-raised by run() in the scheduler thread
            self.fatal = exc
            self.status = "fatal"
            return None

    def _decide_inner(self) -> VThread | None:
        while True:
            alive = [t for t in self.threads if not t.done]
            if not alive:
                self.status = "ok"
                return None
            enabled = [t for t in alive if t.is_enabled()]
            if enabled:
                break
            deadlines = [t.deadline for t in alive if t.deadline is not None]
            if not deadlines:
                self.status = "deadlock"
                return None
            self._set_clock(max(self.clock(), min(deadlines)))
            self.clock_jumps += 1
        cur = self.current
        cur_enabled = cur is not None and cur in enabled
        if cur_enabled:
            order = [cur] + [t for t in enabled if t is not cur]
        else:
            order = enabled
        i = 0
        if len(order) > 1:
            if cur_enabled and self._streak >= self.fairness:
                # fairness: a thread that keeps running (a spinning event loop) must not starve the others forever
                order = order[1:] + order[:1]
                self.fair_yields += 1
            elif self.explore:
                if cur_enabled:
                    i = self.ctx.choose(len(order), "preempt", costed=True)
                    if i:
                        self.preemptions += 1
                elif cur is None and self.steps == 0:
                    i = self.ctx.choose(len(order), "first", costed=False)
                elif self.free_switch_choice:
                    i = self.ctx.choose(len(order), "switch", costed=self.costed_switches)
                    if i:
                        self.free_switches += 1
        nxt = order[i]
        if nxt is cur:
            self._streak += 1
        else:
            self._streak = 0
        self.steps += 1
        if self.steps > self.horizon:
            self.status = "horizon"
            return None
        if self.keep_trace:
            self.trace.append((nxt.index, nxt.parked_kind or "?"))
        self.current = nxt
        return nxt

    # -- scheduler side (the thread that calls run()) ------------------------------------------------------
    def _wait_main(self) -> None:
        """Wait for the baton to come back; watchdog: no scheduling step for ``hang_timeout`` real seconds = hang."""
        last = -1
        while not self._main.acquire(timeout=self.hang_timeout):
            if self.steps == last:
                _TAINTED.append(f"thread {self.current!r} did not reach a scheduling point within {self.hang_timeout}s")
                raise HarnessHang(_TAINTED[-1])
            last = self.steps

    def run(self, *, explore: bool = True) -> str:
        """Schedule until every thread has exited ('ok'), nothing can run ('deadlock') or the horizon is hit
        ('horizon').  ``explore=False``: deterministic continuation (always the canonical first thread, no choice)."""
        global _ACTIVE
        _ACTIVE = self
        self.explore = explore
        self.install_clock()
        self.status = None
        nxt = self._decide()
        if nxt is not None:
            nxt.go.release()
            self._wait_main()
        if self.status == "fatal":
            exc, self.fatal = self.fatal, None
            assert exc is not None
            raise exc
        assert self.status is not None
        return self.status

    def abort(self) -> None:
        """Unwind every thread that is still parked (one at a time) and restore the clock.  Idempotent."""
        global _ACTIVE
        try:
            self.aborting = True
            for t in self.threads:
                if not t.done:
                    if _TAINTED:
                        raise HarnessHang(_TAINTED[-1])  # a thread is stuck for real: nothing can be unwound safely
                    self.current = t
                    t.go.release()
                    self._wait_main()
                    if not t.done:
                        _TAINTED.append(f"thread {t!r} could not be unwound")
                        raise HarnessHang(_TAINTED[-1])
            for t in self.threads:
                if t.real is not None:
                    t.real.join(self.hang_timeout)
                    if t.real.is_alive():
                        _TAINTED.append(f"thread {t!r} did not terminate")
                        raise HarnessHang(_TAINTED[-1])
        finally:
            self.restore_clock()
            if _ACTIVE is self:
                _ACTIVE = None

    # -- event loop for the library's asyncio.Runner ---------------------------------------------------------
    def loop_factory(self) -> "CoopLoop":
        if self.world is None:
            raise HarnessError("Scheduler.loop_factory needs a World")
        loop = CoopLoop(self.world, self)
        self.loops.append(loop)
        return loop


# ---------------------------------------------------------------------------------------------------------
# controlled primitives


def _deadline(sched: Scheduler, timeout: float | None) -> float | None:
    if timeout is None or timeout < 0:
        return None
    return sched.clock() + timeout


class CLock:
    def __init__(self) -> None:
        self._owner: Any = None
        self._locked = False

    def _me(self) -> Any:
        s = _sched()
        th = s.current_thread() if s is not None else None
        return th if th is not None else ("real", _REAL_GET_IDENT())

    def acquire(self, blocking: bool = True, timeout: float = -1) -> bool:
        s = _sched()
        if s is None:
            if self._locked:
                if not blocking:
                    return False
                raise HarnessError("CLock.acquire would block outside a scheduler run")
            self._locked, self._owner = True, self._me()
            return True
        if not blocking:
            s.point("lock.try_acquire")
            if self._locked:
                return False
        else:
            s.point("lock.acquire", lambda: not self._locked, _deadline(s, None if timeout is None or timeout < 0 else timeout))
            if self._locked:
                return False  # timed out
        self._locked, self._owner = True, self._me()
        return True

    def release(self) -> None:
        s = _sched()
        if s is not None:
            s.point("lock.release")
        if not self._locked:
            raise RuntimeError("release unlocked lock")
        self._locked, self._owner = False, None

    def locked(self) -> bool:
        return self._locked

    __enter__ = acquire

    def __exit__(self, *a: Any) -> None:
        self.release()

    def _at_fork_reinit(self) -> None:
        self._locked, self._owner = False, None


class CRLock:
    def __init__(self) -> None:
        self._owner: Any = None
        self._count = 0

    _me = CLock._me

    def acquire(self, blocking: bool = True, timeout: float = -1) -> bool:
        s = _sched()
        me = self._me()
        if s is None:
            if self._count and self._owner != me:
                if not blocking:
                    return False
                raise HarnessError("CRLock.acquire would block outside a scheduler run")
            self._owner, self._count = me, self._count + 1
            return True
        if self._count and self._owner == me:
            # re-entrant acquisition: invisible to the other threads, not a point
            self._count += 1
            return True
        if not blocking:
            s.point("rlock.try_acquire")
            if self._count:
                return False
        else:
            s.point("rlock.acquire", lambda: self._count == 0, _deadline(s, None if timeout is None or timeout < 0 else timeout))
            if self._count:
                return False
        self._owner, self._count = me, 1
        return True

    def release(self) -> None:
        me = self._me()
        if not self._count or self._owner != me:
            raise RuntimeError("cannot release un-acquired lock")
        if self._count > 1:
            self._count -= 1
            return
        s = _sched()
        if s is not None:
            s.point("rlock.release")
        self._count = 0
        self._owner = None

    __enter__ = acquire

    def __exit__(self, *a: Any) -> None:
        self.release()

    # used by CCondition
    def _is_owned(self) -> bool:
        return bool(self._count) and self._owner == self._me()

    def _release_save(self) -> Any:
        st = (self._owner, self._count)
        self._owner, self._count = None, 0
        return st

    def _acquire_restore(self, st: Any) -> None:
        self._owner, self._count = st

    def _free(self) -> bool:
        return self._count == 0

    def _at_fork_reinit(self) -> None:
        self._owner, self._count = None, 0


class CEvent:
    def __init__(self) -> None:
        self._flag = False

    def is_set(self) -> bool:
        s = _sched()
        if s is not None:
            s.point("event.is_set")
        return self._flag

    isSet = is_set

    def set(self) -> None:
        s = _sched()
        if s is not None:
            s.point("event.set")
        self._flag = True

    def clear(self) -> None:
        s = _sched()
        if s is not None:
            s.point("event.clear")
        self._flag = False

    def wait(self, timeout: float | None = None) -> bool:
        s = _sched()
        if s is None:
            if self._flag or (timeout is not None):
                return self._flag
            raise HarnessError("CEvent.wait would block outside a scheduler run")
        s.point("event.wait", lambda: self._flag, _deadline(s, timeout))
        return self._flag

    def _at_fork_reinit(self) -> None:
        pass


class _Waiter:
    __slots__ = ("notified",)

    def __init__(self) -> None:
        self.notified = False


class CCondition:
    def __init__(self, lock: Any = None) -> None:
        if lock is None:
            lock = CRLock()
        self._lock = lock
        self._waiters: list[_Waiter] = []
        self.acquire = lock.acquire
        self.release = lock.release

    def __enter__(self) -> bool:
        return self._lock.__enter__()

    def __exit__(self, *a: Any) -> None:
        return self._lock.__exit__(*a)

    def _owned(self) -> bool:
        lk = self._lock
        if isinstance(lk, CRLock):
            return lk._is_owned()
        return lk.locked()

    def wait(self, timeout: float | None = None) -> bool:
        if not self._owned():
            raise RuntimeError("cannot wait on un-acquired lock")
        s = _sched()
        if s is None:
            raise HarnessError("CCondition.wait outside a scheduler run")
        lk = self._lock
        w = _Waiter()
        s.point("cond.wait")  # releasing the lock is visible to the others
        self._waiters.append(w)
        if isinstance(lk, CRLock):
            saved = lk._release_save()
            free = lk._free
        else:
            saved = None
            lk._locked, lk._owner = False, None
            free = lambda: not lk._locked  # noqa: E731
        dl = _deadline(s, timeout)
        try:
            # woken up (notified or timed out) AND the lock can be taken again: one point
            s.point("cond.wakeup", lambda: (w.notified or (dl is not None and s.clock() >= dl)) and free(), None if dl is None else dl)
            # a deadline reached while the lock is held by somebody else: wait for the lock
            if not free():
                s.point("cond.reacquire", free)
        finally:
            if not w.notified:
                with contextlib.suppress(ValueError):
                    self._waiters.remove(w)
            if free():
                if isinstance(lk, CRLock):
                    lk._acquire_restore(saved)
                else:
                    lk._locked, lk._owner = True, lk._me()
        return w.notified

    def wait_for(self, predicate: Callable[[], Any], timeout: float | None = None) -> Any:
        s = _sched()
        end = None if timeout is None or s is None else s.clock() + timeout
        result = predicate()
        while not result:
            if end is not None:
                assert s is not None
                left = end - s.clock()
                if left <= 0:
                    break
                self.wait(left)
            else:
                self.wait(None)
            result = predicate()
        return result

    def notify(self, n: int = 1) -> None:
        if not self._owned():
            raise RuntimeError("cannot notify on un-acquired lock")
        s = _sched()
        if s is not None:
            s.point("cond.notify")
        for w in self._waiters[:n]:
            w.notified = True
        del self._waiters[:n]

    def notify_all(self) -> None:
        self.notify(len(self._waiters))

    notifyAll = notify_all


class CThread:
    """Replacement for threading.Thread inside the shimmed modules (NetworkServerThread): start() registers the thread
    with the scheduler, join() is a blocking point enabled when the thread has exited."""

    def __init__(self, group: None = None, target: Callable[..., Any] | None = None, name: str | None = None,
                 args: tuple = (), kwargs: dict | None = None, *, daemon: bool | None = None) -> None:
        self._target = target
        self._args = args
        self._kwargs = kwargs or {}
        self.name = name or "CThread"
        self.daemon = bool(daemon)
        self._vthread: VThread | None = None

    def run(self) -> None:
        if self._target is not None:
            self._target(*self._args, **self._kwargs)

    def start(self) -> None:
        s = _sched()
        if s is None:
            raise HarnessError("CThread.start outside a scheduler run")
        if self._vthread is not None:
            raise RuntimeError("threads can only be started once")
        s.point("thread.start")
        self._vthread = s.spawn(self.run, self.name)

    def join(self, timeout: float | None = None) -> None:
        s = _sched()
        vt = self._vthread
        if vt is None:
            raise RuntimeError("cannot join thread before it is started")
        if s is None:
            if not vt.done:
                raise HarnessError("CThread.join would block outside a scheduler run")
            return
        s.point("thread.join", lambda: vt.done, _deadline(s, timeout))

    def is_alive(self) -> bool:
        return self._vthread is not None and not self._vthread.done

    @property
    def ident(self) -> int | None:
        return None if self._vthread is None else self._vthread.ident


# ---------------------------------------------------------------------------------------------------------
# shim module, install / uninstall


_SHIM: types.ModuleType | None = None


def make_shim() -> types.ModuleType:
    """A module object that is ``threading`` plus the controlled Lock / RLock / Event / Condition / Thread."""
    global _SHIM
    if _SHIM is not None:
        return _SHIM
    shim = types.ModuleType("threading")
    shim.__dict__.update({k: v for k, v in _real_threading.__dict__.items() if not k.startswith("__")})
    shim.Lock = CLock  # type: ignore[attr-defined]
    shim.RLock = CRLock  # type: ignore[attr-defined]
    shim.Event = CEvent  # type: ignore[attr-defined]
    shim.Condition = CCondition  # type: ignore[attr-defined]
    shim.Thread = CThread  # type: ignore[attr-defined]
    shim.__vthreads_shim__ = True  # type: ignore[attr-defined]
    _SHIM = shim
    return shim


# classes DEFINED as subclasses of the real threading.Thread at import time: the name swap cannot reach their base
# class, so it is swapped (and restored) explicitly
DEFAULT_REBASE: tuple[tuple[str, str], ...] = (("easynetwork.servers.threads_helper", "NetworkServerThread"),)

_SAVED: list[tuple[Any, str, Any]] = []
_SAVED_BASES: list[tuple[type, tuple]] = []


def install(shim: types.ModuleType | None = None, modules: tuple[tuple[str, str], ...] = DEFAULT_MODULES) -> types.ModuleType:
    if _SAVED:
        raise HarnessError("vthreads shim already installed")
    shim = shim if shim is not None else make_shim()
    try:
        for modname, attr in modules:
            mod = importlib.import_module(modname)
            _SAVED.append((mod, attr, getattr(mod, attr)))
            setattr(mod, attr, shim)
        for modname, clsname in DEFAULT_REBASE:
            cls = getattr(importlib.import_module(modname), clsname)
            if _real_threading.Thread in cls.__bases__:
                _SAVED_BASES.append((cls, cls.__bases__))
                cls.__bases__ = tuple(CThread if b is _real_threading.Thread else b for b in cls.__bases__)
    except BaseException:
        uninstall()
        raise
    return shim


def uninstall() -> None:
    while _SAVED_BASES:
        cls, bases = _SAVED_BASES.pop()
        cls.__bases__ = bases
    while _SAVED:
        mod, attr, old = _SAVED.pop()
        setattr(mod, attr, old)


@contextlib.contextmanager
def installed(sched: Scheduler | None = None, modules: tuple[tuple[str, str], ...] = DEFAULT_MODULES):
    """Swap the ``threading`` name in ``modules`` for the duration of the block; with a scheduler: make it the active
    one (objects built by the harness thread before run() are created controlled) and ALWAYS unwind its threads."""
    global _ACTIVE
    shim = install(None, modules)
    if sched is not None:
        _ACTIVE = sched
    try:
        yield shim
    finally:
        try:
            if sched is not None:
                sched.abort()
        finally:
            if sched is not None and _ACTIVE is sched:
                _ACTIVE = None
            uninstall()


# ---------------------------------------------------------------------------------------------------------
# cooperating event loop


class CoopSelector(VSelector):
    """select() of the loop thread = a scheduling point.  Blocking selects are parked with an ``enabled`` predicate
    (something REALLY ready: world fds, the loop's self-pipe polled with a zero timeout) and the timeout as virtual
    deadline; the clock only moves when the scheduler finds nobody enabled."""

    def __init__(self, world: World, sched: Scheduler) -> None:
        super().__init__(world)
        self.sched = sched
        self.loop: CoopLoop | None = None

    def select(self, timeout: float | None = None) -> list[tuple[selectors.SelectorKey, int]]:
        w = self.world
        s = self.sched
        if s.aborting:
            raise _Abort()  # the execution is being abandoned: never run the loop any further
        w.selects += 1
        if w.selects > w.horizon:
            raise HorizonHit(f"more than {w.horizon} select() calls")
        if timeout is not None and timeout < 0:
            timeout = 0
        if w.env is not None:
            w.env(w, self, timeout)
        loop = self.loop
        if timeout is not None and timeout > 0 and loop is not None and loop._ready:
            timeout = 0
        if timeout == 0:
            s.point("select0")
            ready = w._ready(self)
            w._busy_tick()
            return ready

        def something_ready() -> bool:
            return bool(w._ready(self)) or (loop is not None and bool(loop._ready))

        w.busy_streak = 0
        s.point("select", something_ready, None if timeout is None else s.clock() + timeout)
        return w._ready(self)


class CoopLoop(_vloop.VLoop):
    """VLoop whose selector cooperates with the scheduler (the clock patch is done once by the scheduler)."""

    def __init__(self, world: World, sched: Scheduler) -> None:
        self.world = world
        self.sched = sched
        sel = CoopSelector(world, sched)
        asyncio.SelectorEventLoop.__init__(self, selector=sel)
        sel.loop = self
        self.unhandled: list[dict] = []
        self.set_exception_handler(self._record)
        self.iterations = 0
        world.runnable = lambda: bool(self._ready)
        world.next_timer = self._next_timer

    def call_soon_threadsafe(self, callback: Any, *args: Any, context: Any = None) -> Any:
        # visible to the loop thread (ready queue + self-pipe): a point of the CALLING thread
        self.sched.point("call_soon_threadsafe")
        return super().call_soon_threadsafe(callback, *args, context=context)
