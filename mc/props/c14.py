"""C14 - closing releases the underlying resource at every cancellation point (crash-point / fault enumeration on the real loop).

For every close path the closing call runs in its own task; the explorer injects a task.cancel() of that task, and a second
aclose(), at every loop-iteration boundary (i.e. before every step of the closing task), for every leaf-transport fault.
TLS paths (aclose with close_notify wait / shutdown timeout, failed or cancelled wrap) are in run_tls (needs mc/tlsrig.py).
"""
from __future__ import annotations

import asyncio
import errno
from typing import Any

from easynetwork.clients.async_tcp import AsyncTCPNetworkClient
from easynetwork.lowlevel.api_async.backend._asyncio.backend import AsyncIOBackend
from easynetwork.lowlevel.api_async.endpoints.stream import AsyncStreamEndpoint
from easynetwork.lowlevel.api_async.transports.composite import AsyncStapledDatagramTransport, AsyncStapledStreamTransport
from easynetwork.protocol import StreamProtocol
from easynetwork.serializers import StringLineSerializer

from .. import vloop
from ..core import Ctx, JobResult, Violation, digest, explore
from ..envsched import Chain, Placer
from ..memtransport import MemDatagramTransport, MemStreamTransport
from ..world import World

PROPERTY = "C14"
LEVEL = "fault_enumeration"
RULE = (
    "close paths {stapled stream, stapled datagram, stream endpoint over an in-memory leaf, asyncio socket adapter (clean / unsent data "
    "with a peer that reads later or never / another task parked in a receive), AsyncTCPNetworkClient connected / never connected / connecting / with a suspended sender / with another task blocked in send_packet() holding the send lock (also for the server-side client of a running AsyncTCPNetworkServer), AsyncUDPNetworkClient connected (clean / sender blocked by EAGAIN holding the send lock / unsent datagram on a socket that never becomes writable)} "
    "x leaf faults {none, aclose raises OSError, aclose needs 2 checkpoints, aclose blocks forever} per leaf x one task.cancel() of the "
    "closing task placed at EVERY loop-iteration boundary x a second aclose() placed at every boundary (two placements per run, busy "
    "placements costed, bound 2 quick / 3 thorough); distinct_nontrivial = distinct (path, fault, how the close ended, placement shape)"
)
ASSUMPTIONS = [
    "the leaf transport's contract is 'closed as soon as aclose() starts' (what the real socket adapter does); the wrappers' duty is what is checked",
    "a leaf whose aclose() blocks forever can only be left through cancellation; without a cancel such a run is not a violation",
]
BOUNDS = {"quick": "busy-placement bound 2", "thorough": "busy-placement bound 3"}

FAULTS = ("none", "error", "slow", "blocks")


def leaf_kwargs(fault: str) -> dict:
    return {"none": {}, "error": {"close_error": OSError(errno.EIO, "close failed")}, "slow": {"close_checkpoints": 2}, "blocks": {"close_blocks": True}}[fault]


def scenarios(tier: str) -> list[dict]:
    out: list[dict] = []
    for kind in ("stapled-stream", "stapled-dgram"):
        for fa in FAULTS:
            for fb in FAULTS:
                out.append({"path": kind, "fa": fa, "fb": fb})
    for f in FAULTS:
        out.append({"path": "endpoint-mem", "fa": f, "fb": "none"})
    for v in ("clean", "unsent-peer-reads", "unsent-peer-never-reads", "parked-receiver"):
        out.append({"path": "adapter", "variant": v})
        out.append({"path": "client-connected", "variant": v})
    out.append({"path": "client-never-connected"})
    out.append({"path": "client-connecting"})
    # server-side client object of a running AsyncTCPNetworkServer: its own aclose(), and the tear-down of its task by shutdown()
    for v in ("clean", "unsent-peer-reads", "unsent-peer-never-reads"):
        out.append({"path": "srv-client-aclose", "variant": v})
        out.append({"path": "srv-shutdown", "variant": v})
    # another task is inside send_packet() towards a peer that does not read (it holds the object's send lock) when the close starts:
    # the close can only end through cancellation, and a cancelled close must still release the socket (seed C14-7)
    out.append({"path": "srv-client-aclose", "variant": "sender-holds-lock"})
    out.append({"path": "client-connected", "variant": "sender-holds-lock"})
    # the same for the UDP client (its sender is blocked by EAGAIN answers of the kernel: the socket never becomes writable again)
    out.append({"path": "udp-client-connected", "variant": "clean"})
    out.append({"path": "udp-client-connected", "variant": "sender-holds-lock"})
    # a datagram left in the asyncio transport's buffer (its sender was cancelled) on a socket that never becomes writable again
    out.append({"path": "udp-client-connected", "variant": "unsent-peer-never-reads"})
    return out


def run(ctx: Ctx, cfg: dict) -> dict:
    world = World(ctx, horizon=900)
    st: dict[str, Any] = {"ready": False, "closer": None, "second": None, "cancel_applied": False}
    out: dict[str, Any] = {}
    extra_chains: list[Chain] = []
    sock = None
    if cfg["path"] in ("adapter", "client-connected", "client-never-connected", "client-connecting", "srv-client-aclose", "srv-shutdown"):
        unsent = cfg.get("variant", "clean") not in ("clean", "parked-receiver")
        sock = world.stream_socket(tx_cap=2 if unsent else None)
        if cfg.get("variant") == "unsent-peer-reads":
            def drain() -> None:
                del sock.tx.q[:]
            extra_chains.append(Chain("peer", [(f"r{i}", drain) for i in range(8)]))

    if cfg["path"] == "udp-client-connected":
        sock = world.dgram_socket()
        if cfg.get("variant") in ("sender-holds-lock", "unsent-peer-never-reads"):
            def _never_writable(s: Any, data: bytes) -> BaseException | None:
                s.tx_blocked = True
                return BlockingIOError(errno.EAGAIN, "would block")
            sock.dgram_send_policy = _never_writable

    def do_cancel() -> None:
        t = st["closer"]
        if t is not None and not t.done():
            st["cancel_applied"] = True
            t.cancel()

    def do_second() -> None:
        st["second"] = asyncio.get_event_loop().create_task(st["close_fn"]())
        st["second_started_iter"] = st["loop"].iterations

    cancel_chain = Chain("cancel", [("X", do_cancel)])
    chains = [cancel_chain] if cfg.get("cancel", True) else []
    # (a leaf whose first aclose() call blocks forever would make whichever close reaches it first hang: the second
    # close is only explored with leaves that do finish)
    blocks = "blocks" in (cfg.get("fa"), cfg.get("fb"))
    # (srv-shutdown with unsent data: a concurrent client.aclose() from another task keeps the send lock while it waits for a peer
    # that does not read; the cancelled client task then queues behind that lock in _on_disconnect and shutdown() waits with it.
    # Nobody cancels that second close, so like the blocking leaves it is outside the statement: see DESIGN.md 10.6)
    stuck_second = cfg["path"] == "srv-shutdown" and cfg.get("variant") != "clean"
    second_chain = Chain("second", [("S", do_second)]) if cfg.get("second", True) and not blocks and not stuck_second else None
    if second_chain is not None:
        chains.append(second_chain)
    chains += extra_chains
    placer = Placer(ctx, chains, gate=lambda: st["ready"], max_busy_points=40)
    world.env_pending = placer.pending

    def env(w: World, sel: Any, timeout: float | None) -> None:
        cancel_chain.hold = not st.get("started")
        if second_chain is not None:
            second_chain.hold = not st.get("started")
        placer(w, sel, timeout)

    world.env = env

    async def main(loop: Any) -> None:
        st["loop"] = loop
        backend = AsyncIOBackend()
        leaves: list[Any] = []
        path = cfg["path"]
        wtask = None
        if path == "stapled-stream":
            a = MemStreamTransport(backend, "send", **leaf_kwargs(cfg["fa"]))
            b = MemStreamTransport(backend, "recv", **leaf_kwargs(cfg["fb"]))
            leaves = [a, b]
            obj: Any = AsyncStapledStreamTransport(a, b)
        elif path == "stapled-dgram":
            a2 = MemDatagramTransport(backend, "send", **leaf_kwargs(cfg["fa"]))
            b2 = MemDatagramTransport(backend, "recv", **leaf_kwargs(cfg["fb"]))
            leaves = [a2, b2]
            obj = AsyncStapledDatagramTransport(a2, b2)
        elif path == "endpoint-mem":
            a = MemStreamTransport(backend, "leaf", **leaf_kwargs(cfg["fa"]))
            leaves = [a]
            obj = AsyncStreamEndpoint(a, StreamProtocol(StringLineSerializer()), max_recv_size=64)
        elif path == "adapter":
            obj = await backend.wrap_stream_socket(sock)
        elif path == "client-connected":
            obj = AsyncTCPNetworkClient(sock, StreamProtocol(StringLineSerializer()), backend)
            await obj.wait_connected()
        elif path == "udp-client-connected":
            from easynetwork.clients.async_udp import AsyncUDPNetworkClient
            from easynetwork.protocol import DatagramProtocol

            obj = AsyncUDPNetworkClient(sock, DatagramProtocol(StringLineSerializer()), backend)
            await obj.wait_connected()
        elif path in ("srv-client-aclose", "srv-shutdown"):
            from easynetwork.servers.async_tcp import AsyncTCPNetworkServer
            from easynetwork.servers.handlers import AsyncStreamRequestHandler

            from ..srvrig import RigBackend, quiet_logger

            connected: dict[str, Any] = {}

            class Handler(AsyncStreamRequestHandler):
                async def on_connection(self, client: Any) -> None:
                    connected["client"] = client

                async def handle(self, client: Any) -> Any:
                    while True:
                        yield

            rb = RigBackend(world)
            server = AsyncTCPNetworkServer(None, 0, StreamProtocol(StringLineSerializer()), Handler(), backend=rb, logger=quiet_logger())
            st["serve_task"] = loop.create_task(server.serve_forever())
            for _ in range(50):
                if server.is_serving():
                    break
                await asyncio.sleep(0)
            rb.tcp_listener_socks[0].accept_q.append(sock)
            for _ in range(50):
                if "client" in connected:
                    break
                await asyncio.sleep(0.001)
            obj = connected["client"]
            st["server"] = server
        else:
            obj = AsyncTCPNetworkClient(sock, StreamProtocol(StringLineSerializer()), backend)
            if path == "client-connecting":
                wtask = loop.create_task(obj.wait_connected())
        rtask = None
        if cfg.get("variant") == "parked-receiver":
            # another task is waiting for data on the object that is being closed: it must be released (error or end-of-stream), not left hanging
            async def rcv() -> None:
                if path == "adapter":
                    await obj.recv(64)
                else:
                    await obj.recv_packet()
            rtask = loop.create_task(rcv())
            for _ in range(4):
                await asyncio.sleep(0)
        elif cfg.get("variant", "clean") != "clean":
            # leave unsent bytes in the asyncio transport: a sender suspended on a full pipe is cancelled
            async def snd() -> None:
                if path == "adapter":
                    await obj.send_all(b"0123456789")
                else:
                    await obj.send_packet("0123456789")
            s = loop.create_task(snd())
            for _ in range(4):
                await asyncio.sleep(0)
            if cfg.get("variant") == "sender-holds-lock":
                s.add_done_callback(lambda t: t.cancelled() or t.exception())  # it ends with an error once the connection is closed
                st["sender"] = s
            else:
                s.cancel()
                await asyncio.wait([s])
        st["close_fn"] = obj.aclose

        async def first_close() -> None:
            st["started"] = True  # "once a close operation has started": a cancel before the first step is not a subject
            if path == "srv-shutdown":
                await st["server"].shutdown()  # tears the client task down: its transport must end closed
            else:
                await obj.aclose()

        closer = loop.create_task(first_close())
        st["closer"] = closer
        st["ready"] = True
        await asyncio.wait([closer])
        it_done = loop.iterations
        out["closer"] = "cancelled" if closer.cancelled() else ("raised:" + type(closer.exception()).__name__ if closer.exception() else "returned")
        if wtask is not None:
            await asyncio.wait([wtask])
            out["wait_connected"] = "cancelled" if wtask.cancelled() else ("raised:" + type(wtask.exception()).__name__ if wtask.exception() else "returned")
        if path == "srv-shutdown":
            # shutdown() was started: whether or not its caller was cancelled, serve_forever() ends and the client's socket is released
            done, _pending = await asyncio.wait([st["serve_task"]], timeout=100.0)
            out["serve_ended"] = bool(done)
        if st["second"] is not None:
            # the second close may legitimately wait for the first, never longer than 3 iterations after it
            # (counted from the later of: first close finished, second close started)
            for _ in range(3):
                if st["second"].done():
                    break
                await asyncio.sleep(0)
            out["second_done"] = st["second"].done()
            if not st["second"].done():
                st["second"].cancel()
        # let the peer finish what it was doing (reads of a slow peer), then look at the resources; no more choices
        st["ready"] = False
        for c in chains:
            if c.name == "peer":
                while not c.done():
                    c.events[c.pos][1]()
                    c.pos += 1
                    await asyncio.sleep(0)
        for _ in range(3):
            await asyncio.sleep(0)
        if rtask is not None:
            for _ in range(5):
                if rtask.done():
                    break
                await asyncio.sleep(0)
            out["receiver_released"] = rtask.done()
            if not rtask.done():
                rtask.cancel()
            else:
                rtask.exception() if not rtask.cancelled() else None
        out["leaves_closed"] = [lf.closed for lf in leaves]
        out["sock_closed"] = None if sock is None else sock.closed_flag
        out["is_closing"] = obj.is_closing()
        if st.get("sender") is not None and not st["sender"].done():
            # the obligations of the cancelled close have been observed: end the blocked sender so that its lock does not stall the later
            # closes and the final shutdown (DESIGN 10.6)
            st["sender"].cancel()
            await asyncio.wait([st["sender"]])
        # a close issued now must return promptly
        t0, i0 = world.clock, loop.iterations
        third = loop.create_task(obj.aclose())
        for _ in range(3):
            if third.done():
                break
            await asyncio.sleep(0)
        out["third_done"] = third.done()
        out["third_time"] = round(world.clock - t0, 6)
        if not third.done():
            third.cancel()
        elif third.exception() is not None and not third.cancelled():
            out["third_exc"] = type(third.exception()).__name__
        if path == "srv-client-aclose":
            await st["server"].shutdown()
            await asyncio.wait([st["serve_task"]], timeout=100.0)

    status, value, loop = vloop.run(world, main)
    out["status"] = status
    out["value"] = repr(value)[:200] if status != "ok" else None
    out["cancel_applied"] = st["cancel_applied"]
    out["second_started"] = st["second"] is not None
    out["trace"] = placer.trace
    return out


def oracle(cfg: dict, obs: dict) -> str | None:
    blocks = "blocks" in (cfg.get("fa"), cfg.get("fb"))
    never = cfg.get("variant") in ("unsent-peer-never-reads", "sender-holds-lock")
    if obs["status"] == "deadlock":
        if (blocks or never) and not obs["cancel_applied"]:
            return None  # only a cancellation can end a close whose leaf never finishes / whose peer never reads
        return "close-never-finishes"
    if obs["status"] == "horizon":
        return "close-never-finishes"
    if obs["status"] != "ok":
        return "unexpected-exception"
    if cfg["path"] in ("stapled-stream", "stapled-dgram", "endpoint-mem"):
        if not all(obs["leaves_closed"]):
            return "leaf-transport-left-open"
    elif cfg["path"] == "srv-shutdown" and not obs.get("serve_ended"):
        return "serve_forever-still-running-after-shutdown-started"
    elif cfg["path"] == "client-never-connected":
        pass  # no transport was ever created; what happens to the caller's socket is reported separately below
    else:
        if not obs["sock_closed"]:
            return "socket-left-open"
    closer = obs.get("closer", "")
    if closer.startswith("raised:"):
        injected = "error" in (cfg.get("fa"), cfg.get("fb"))
        if closer != "raised:OSError" or not injected:
            return "close-raised-unexpected-" + closer[7:]
    if obs.get("receiver_released") is False:
        return "parked-receiver-not-released-by-the-close"
    if not obs["is_closing"]:
        return "is_closing-false-after-close"
    if obs.get("second_started") and obs.get("second_done") is False:
        return "second-close-does-not-return"
    if not obs["third_done"] or obs["third_time"] > 1e-3:
        return "later-close-does-not-return-promptly"
    if obs["closer"] == "cancelled" and not obs["cancel_applied"]:
        return "close-cancelled-without-cancel-request"
    return None


def jobs(tier: str) -> list[dict]:
    out = [{"scenario": s, "tier": tier} for s in scenarios(tier)]
    try:
        from . import c14_tls

        out += c14_tls.jobs(tier)
    except ImportError:
        pass
    return out


def run_job(job: dict) -> JobResult:
    if job.get("part") == "tls":
        from . import c14_tls

        return c14_tls.run_job(job)
    res = JobResult()
    cfg = job["scenario"]
    bound = 2 if job["tier"] == "quick" else 3
    found: dict[str, tuple[Ctx, dict]] = {}

    def check(ctx: Ctx, obs: dict) -> None:
        res.evaluations += 1
        bad = oracle(cfg, obs)
        res.outcome(f"close-{obs.get('closer', obs['status'])}" if bad is None else "VIOLATION:" + bad)
        shape = tuple((k, n) for _s, k, n in obs["trace"])
        res.nontrivial.add(digest((tuple(sorted(cfg.items())), obs.get("closer"), obs["status"], shape)))
        fkey = bad if bad is None or cfg.get("variant") != "sender-holds-lock" else f"{bad}|{obs.get('closer')}"
        if bad is not None and (fkey not in found or len(ctx.choices) < len(found[fkey][0].choices)):
            found[fkey] = (ctx, obs)

    stats = explore(lambda ctx: run(ctx, cfg), bound=bound, check=check, max_runs=30000)
    res.transitions += stats["points"]
    if stats["cap_hit"]:
        res.caps.append("max_runs")
    for bad, (ctx, obs) in found.items():
        if cfg.get("variant") == "sender-holds-lock":
            bad = f"{bad.split('|')[0]}/close-{obs.get('closer')}"
        sub = cfg.get("variant") or f"{cfg.get('fa', '')}-{cfg.get('fb', '')}"
        res.violations.append(Violation(
            f"{cfg['path']}/{sub}/{bad}",
            f"{cfg}: closing task {obs.get('closer')} leaves_closed={obs.get('leaves_closed')} sock_closed={obs.get('sock_closed')} is_closing={obs.get('is_closing')} "
            f"second_done={obs.get('second_done')} third_done={obs.get('third_done')} status={obs['status']} {obs['value']} schedule={obs['trace']} choices={ctx.choices}",
            {"cfg": cfg, "choices": list(ctx.choices)},
        ))
    res.samples.append({"scenario": cfg, "executions": stats["runs"], "busy_placement_bound": bound})
    return res


def replay(doc: dict) -> tuple[bool, str]:
    rp = doc["replay"]
    if rp.get("part") == "tls":
        from . import c14_tls

        return c14_tls.replay(doc)
    ctx = Ctx(rp["choices"])
    obs = run(ctx, rp["cfg"])
    bad = oracle(rp["cfg"], obs)
    return bad is not None, f"cfg={rp['cfg']}\nchoices={rp['choices']}\nlabels={[p[1] for p in ctx.points]}\n" + "\n".join(f"  {k}={v!r}" for k, v in obs.items()) + f"\noracle: {bad}"
