"""C04, transport "TLS socket": the blocking SSLStreamTransport (ssl.SSLSocket over a REAL socketpair whose send buffer is
shrunk to the kernel minimum) sending one packet of several TLS records to a stdlib-ssl peer that reads when the explorer
says so: at every select() in which the library waits for writability the peer reads everything (default), only a few
thousand bytes, nothing this time (the wait then lasts its full timeout / retry interval), or nothing ever again.  send_packet must put exactly the
packet's bytes on the wire once, or raise TimeoutError within its budget having sent a prefix; it never hangs."""
from __future__ import annotations

import math
import selectors
import socket
from typing import Any

from easynetwork.lowlevel.api_sync.endpoints.stream import StreamEndpoint
from easynetwork.lowlevel.api_sync.transports.socket import SSLStreamTransport
from easynetwork.protocol import StreamProtocol
from easynetwork.serializers.abc import AbstractIncrementalPacketSerializer

from .. import tlsrig
from ..core import Ctx, Deadlock, DivergenceError, HorizonHit, JobResult, Violation, digest, explore
from ..world import VSelector, World


class ChunkSerializer(AbstractIncrementalPacketSerializer[tuple, tuple]):
    """A packet is a tuple of byte chunks, produced as they are (empty chunks included)."""

    __slots__ = ()

    def incremental_serialize(self, packet: tuple):
        yield from packet

    def incremental_deserialize(self):
        data = yield
        return (data,), b""


class GatedLink(tlsrig.BlockingLink):
    """The relay end reads at most ``budget`` bytes per step (None: everything available)."""

    budget: int | None = None

    def poll(self) -> None:
        if self.budget is None:
            return super().poll()
        left = self.budget
        while left > 0 and not self.closed and not self.relay.lib_closed:
            try:
                d = self.sock.recv(left)
            except (BlockingIOError, InterruptedError):
                return
            except OSError:
                self.lib_reset = True
                d = b""
            if not d:
                self.relay.lib_close()
                return
            left -= len(d)
            self.relay.lib_sent(d)


SHAPES = {
    "one": lambda n: (tlsrig.pattern("lib", 0, n),),
    "three+empty": lambda n: (tlsrig.pattern("lib", 0, 5), b"", tlsrig.pattern("lib", 5, n - 10), tlsrig.pattern("lib", n - 5, 5), b""),
}


def run(ctx: Ctx, cfg: dict) -> dict:
    version, role = cfg["version"], cfg["role"]
    world = World(ctx, horizon=4000)
    relay = tlsrig.make_peer_and_relay(version, role, script=[])
    link = GatedLink(relay)
    link.lib_sock.setsockopt(socket.SOL_SOCKET, socket.SO_SNDBUF, 1)  # kernel minimum (a few KiB)
    relay.link = link
    st: dict[str, Any] = {"sending": False, "reads": [], "silent": False}

    def env(w: Any, sel: Any, timeout: float | None) -> None:
        if st["sending"]:
            waiting_w = any(key.events & selectors.EVENT_WRITE for key in sel.get_map().values())
            if waiting_w:
                finite = timeout is not None and timeout != math.inf
                if st["silent"]:
                    link.budget = 0  # the peer stopped reading for good (only ever chosen under a finite wait)
                else:
                    alts = [None, cfg["some"]] + ([0, -1] if finite else [])
                    b = alts[ctx.choose(len(alts), "peer-reads")]
                    if b == -1:
                        st["silent"] = True
                        b = 0
                    link.budget = b
                st["reads"].append(link.budget if not st["silent"] else "never-again")
            else:
                link.budget = None
        relay.env(w, sel, timeout)

    world.env = env
    world.install_clock()
    out: dict[str, Any] = {"status": "ok", "error": None, "result": None, "elapsed": None}
    tr = None
    packet = SHAPES[cfg["shape"]](cfg["size"])
    T = cfg["T"]
    try:
        try:
            tr = SSLStreamTransport(link.lib_sock, tlsrig.lib_context(version, role), cfg["retry"], server_side=(role == "server"),
                                    server_hostname=tlsrig.HOSTNAME if role == "client" else None, selector_factory=lambda: VSelector(world))
            ep = StreamEndpoint(tr, StreamProtocol(ChunkSerializer()), max_recv_size=1024)
            st["sending"] = True
            t0 = world.clock
            try:
                ep.send_packet(packet, timeout=T)
                out["result"] = "returned"
            except TimeoutError:
                out["result"] = "timeout"
            except OSError as exc:
                out["result"] = "oserror:" + type(exc).__name__
            out["elapsed"] = round(world.clock - t0, 6)
            st["sending"] = False
            link.budget = None
            for _ in range(200):
                before = len(relay.peer.received)
                relay.drain()
                if len(relay.peer.received) == before:
                    break
        except Deadlock as exc:
            out["status"], out["error"] = "deadlock", str(exc)
        except HorizonHit as exc:
            out["status"], out["error"] = "horizon", str(exc)
        except Exception as exc:  # noqa: BLE001
            out["status"], out["error"] = "exc", type(exc).__name__ + ": " + str(exc)[:200]
    finally:
        world.restore_clock()
        if tr is not None:
            try:
                tr.close()
            except Exception:  # noqa: BLE001
                pass
        link.close()
    out["peer_received"] = bytes(relay.peer.received)
    out["expected"] = b"".join(packet)
    out["reads"] = tuple(st["reads"])
    tlsrig.gc_tick()
    return out


def oracle(cfg: dict, obs: dict) -> str | None:
    if obs["status"] in ("deadlock", "horizon"):
        return "send-never-terminates"
    if obs["status"] != "ok":
        return "unexpected-exception"
    got, exp = obs["peer_received"], obs["expected"]
    T = cfg["T"]
    if obs["result"] == "returned":
        if got != exp:
            return "bytes-on-the-wire-differ-from-the-packet"
        if T is not None and obs["elapsed"] > T + 1e-6:
            return "returned-after-its-time-budget"
        return None
    if obs["result"] == "timeout":
        if T is None:
            return "timeout-without-timeout"
        if obs["elapsed"] > T + 1e-6:
            return "timeout-raised-after-its-time-budget"
        if T != 0 and not any(r is not None for r in obs["reads"]):
            return "timeout-although-the-peer-always-read-everything"
        if exp[: len(got)] != got:
            return "bytes-on-the-wire-are-not-a-prefix-of-the-packet"
        return None
    return "unexpected-" + obs["result"]


def jobs(tier: str) -> list[dict]:
    tlsrig.ensure_cert()
    out = []
    for v in tlsrig.VERSIONS:
        for r in tlsrig.ROLES:
            for shape in SHAPES:
                for size in ((40000, 100000) if tier == "quick" else (40000, 100000, 300000)):
                    out.append({"part": "tls", "kind": "tls", "version": v, "role": r, "shape": shape, "size": size, "tier": tier})
    return out


def cfgs_of(job: dict) -> list[dict]:
    out = []
    for size in (job["size"],):
        for T, retry in ((None, math.inf), (1.0, math.inf), (1.0, 0.3), (0, math.inf)):
            out.append({"version": job["version"], "role": job["role"], "shape": job["shape"], "size": size, "T": T, "retry": retry, "some": 3000})
    return out


def run_job(job: dict) -> JobResult:
    res = JobResult()
    bound = 3 if job["size"] <= 40000 else 2
    for cfg in cfgs_of(job):
        found: dict[str, tuple[Ctx, dict]] = {}

        def check(ctx: Ctx, obs: dict, cfg: dict = cfg, found: dict = found) -> None:
            res.evaluations += 1
            bad = oracle(cfg, obs)
            res.outcome(f"tls-send-{obs['result'] or obs['status']}" if bad is None else "VIOLATION:" + bad)
            if any(r is not None for r in obs["reads"]):
                res.nontrivial.add(digest(("tls", cfg["version"], cfg["role"], cfg["shape"], cfg["size"], cfg["T"], cfg["retry"], obs["reads"], obs["result"])))
            if bad is not None and (bad not in found or len(ctx.choices) < len(found[bad][0].choices)):
                found[bad] = (ctx, obs)

        try:
            stats = explore(lambda ctx, cfg=cfg: run(ctx, cfg), bound=bound, check=check, max_runs=20000)
        except DivergenceError as exc:
            # the number of waits depends on the kernel's socket-buffer accounting; should a replayed prefix ever see fewer waits than
            # recorded, this configuration's exploration is abandoned and reported as a cap (never as a verdict)
            res.caps.append(f"tls: kernel buffering not reproducible for {cfg['shape']}/{cfg['size']}/T={cfg['T']} ({exc})")
            continue
        res.transitions += stats["points"]
        if stats["cap_hit"]:
            res.caps.append("tls: max_runs")
        for bad, (ctx, obs) in found.items():
            key = f"tls-socket/{cfg['shape']}/T={cfg['T']}/{bad}"
            if not any(v.key == key for v in res.violations):
                res.violations.append(Violation(key, f"{ {k: (v if k != 'retry' or v != math.inf else 'inf') for k, v in cfg.items()} }: result={obs['result']} elapsed={obs['elapsed']} status={obs['status']} "
                                                     f"{obs['error']} peer read {len(obs['peer_received'])} of {len(obs['expected'])} bytes; peer reads per wait={obs['reads']} choices={ctx.choices}",
                                                {"part": "tls", "cfg": {**cfg, "retry": None if cfg["retry"] == math.inf else cfg["retry"]}, "choices": list(ctx.choices)}))
    res.samples.append({"part": "tls-socket", "version": job["version"], "role": job["role"], "shape": job["shape"], "size": job["size"], "deviation_bound": bound})
    return res


def replay(doc: dict) -> tuple[bool, str]:
    rp = doc["replay"]
    cfg = dict(rp["cfg"])
    if cfg["retry"] is None:
        cfg["retry"] = math.inf
    ctx = Ctx(rp["choices"])
    obs = run(ctx, cfg)
    bad = oracle(cfg, obs)
    return bad is not None, (f"cfg={rp['cfg']}\nchoices={rp['choices']}\n  result={obs['result']} elapsed={obs['elapsed']} status={obs['status']} {obs['error']}\n"
                             f"  peer read {len(obs['peer_received'])} of {len(obs['expected'])} bytes; peer reads per wait={obs['reads']}\noracle: {bad}")
