"""C04, a chunk generator that raises midway (a serializer failing after it produced k chunks): whatever the transport
did with the chunks produced so far, nothing of the failed packet may be transmitted AFTER the failure was reported - the
next send_packet / send_all must put exactly its own bytes behind what was on the wire when the failed call returned.
Subjects: blocking socket transport (sendmsg, SC_IOV_MAX<=0 and no-sendmsg fallbacks), StreamEndpoint.send_packet, the
asyncio socket adapter, AsyncStreamEndpoint.send_packet, the async TLS transport (stdlib-ssl peer) and an endpoint over it."""
from __future__ import annotations

import asyncio
import math
from typing import Any

from easynetwork.lowlevel import constants as _constants
from easynetwork.lowlevel.api_async.backend._asyncio.backend import AsyncIOBackend
from easynetwork.lowlevel.api_async.endpoints.stream import AsyncStreamEndpoint
from easynetwork.lowlevel.api_async.transports.tls import AsyncTLSStreamTransport
from easynetwork.lowlevel.api_sync.endpoints.stream import StreamEndpoint
from easynetwork.lowlevel.api_sync.transports import socket as _sync_socket
from easynetwork.lowlevel.api_sync.transports.socket import SocketStreamTransport
from easynetwork.protocol import StreamProtocol
from easynetwork.serializers.abc import AbstractIncrementalPacketSerializer

from .. import tlsrig, vloop
from ..core import Ctx, JobResult, Violation, digest
from ..world import VSelector, World

CHUNKS = (b"<failed-packet-header>", b"", b"<failed-packet-body>", b"<failed-packet-trailer>")
SECOND = b"second-packet\n"


class SerializationFailure(Exception):
    pass


class FailingSerializer(AbstractIncrementalPacketSerializer[Any, Any]):
    """Packet ('fail', k): produces k chunks then raises; any other packet: its bytes."""

    __slots__ = ()

    def incremental_serialize(self, packet: Any):
        if isinstance(packet, tuple) and packet[0] == "fail":
            yield from failing_chunks(packet[1])
        else:
            yield packet

    def incremental_deserialize(self):
        data = yield
        return data, b""


def failing_chunks(k: int):
    for c in CHUNKS[:k]:
        yield c
    raise SerializationFailure(f"cannot serialize after {k} chunks")


SYNC_SUBJECTS = ("sync-sendmsg", "sync-noiov", "sync-nosendmsg", "sync-endpoint")
ASYNC_SUBJECTS = ("adapter", "async-endpoint", "tls", "tls-endpoint")


def run(cfg: dict) -> dict:
    subject, k = cfg["subject"], cfg["k"]
    world = World(Ctx(), horizon=4000)
    out: dict[str, Any] = {"first": None, "second": None, "wire_at_failure": None, "wire_end": None}
    if subject in SYNC_SUBJECTS:
        sock = world.stream_socket()
        world.install_clock()
        saved_iov, saved_supports = _constants.SC_IOV_MAX, _sync_socket._utils.supports_socket_sendmsg
        try:
            if subject == "sync-noiov":
                _constants.SC_IOV_MAX = 0  # type: ignore[misc]
            if subject == "sync-nosendmsg":
                _sync_socket._utils.supports_socket_sendmsg = lambda s: False  # type: ignore[assignment]
            tr = SocketStreamTransport(sock, math.inf, selector_factory=lambda: VSelector(world))
            ep = StreamEndpoint(tr, StreamProtocol(FailingSerializer()), max_recv_size=64) if subject == "sync-endpoint" else None
            try:
                if ep is not None:
                    ep.send_packet(("fail", k), timeout=None)
                else:
                    tr.send_all_from_iterable(failing_chunks(k), math.inf)
                out["first"] = "returned"
            except SerializationFailure:
                out["first"] = "raised"
            except Exception as exc:  # noqa: BLE001
                out["first"] = "raised-other:" + type(exc).__name__
            out["wire_at_failure"] = bytes(sock.tx.total)
            try:
                if ep is not None:
                    ep.send_packet(SECOND, timeout=None)
                else:
                    tr.send_all(SECOND, math.inf)
                out["second"] = "returned"
            except Exception as exc:  # noqa: BLE001
                out["second"] = "raised:" + type(exc).__name__
            out["wire_end"] = bytes(sock.tx.total)
            out["status"] = "ok"
        finally:
            _constants.SC_IOV_MAX = saved_iov  # type: ignore[misc]
            _sync_socket._utils.supports_socket_sendmsg = saved_supports  # type: ignore[assignment]
            world.close_all()
            world.restore_clock()
        return out

    relay = None
    sock = None
    if subject.startswith("tls"):
        relay = tlsrig.make_peer_and_relay(cfg.get("version", "1.3"), "client", script=[])
        world.env = relay.env
    else:
        sock = world.stream_socket()

    async def main(loop: Any) -> None:
        backend = AsyncIOBackend()
        if relay is not None:
            leaf = tlsrig.MemTransport(backend)
            relay.link = tlsrig.AsyncLink(relay, leaf)
            tr: Any = await AsyncTLSStreamTransport.wrap(leaf, tlsrig.lib_context(cfg.get("version", "1.3"), "client"), server_hostname=tlsrig.HOSTNAME)
        else:
            tr = await backend.wrap_stream_socket(sock)
        ep = AsyncStreamEndpoint(tr, StreamProtocol(FailingSerializer()), max_recv_size=64) if subject.endswith("endpoint") else None

        def wire() -> bytes:
            if relay is not None:
                relay.drain()
                return bytes(relay.peer.received)
            return bytes(sock.tx.total)

        try:
            if ep is not None:
                await ep.send_packet(("fail", k))
            else:
                await tr.send_all_from_iterable(failing_chunks(k))
            out["first"] = "returned"
        except SerializationFailure:
            out["first"] = "raised"
        except Exception as exc:  # noqa: BLE001
            out["first"] = "raised-other:" + type(exc).__name__
        for _ in range(3):
            await asyncio.sleep(0)
        out["wire_at_failure"] = wire()
        try:
            if ep is not None:
                await ep.send_packet(SECOND)
            else:
                await tr.send_all(SECOND)
            out["second"] = "returned"
        except Exception as exc:  # noqa: BLE001
            out["second"] = "raised:" + type(exc).__name__
        for _ in range(3):
            await asyncio.sleep(0)
        out["wire_end"] = wire()

    status, value, _loop = vloop.run(world, main)
    out["status"] = status if status == "ok" else f"{status}: {value!r}"[:200]
    if relay is not None:
        tlsrig.gc_tick()
    return out


def oracle(cfg: dict, obs: dict) -> str | None:
    if obs["status"] != "ok":
        return "genfail-run-" + obs["status"].split(":")[0]
    if not str(obs["first"]).startswith("raised"):  # (the endpoints report it as RuntimeError('protocol.generate_chunks() crashed'))
        return "failing-chunk-generator-not-reported:" + str(obs["first"])
    produced = b"".join(CHUNKS[: cfg["k"]])
    w1, w2 = obs["wire_at_failure"], obs["wire_end"]
    if not produced.startswith(w1):
        return "wire-after-the-failed-send-is-not-a-prefix-of-the-chunks-produced"
    if obs["second"] != "returned":
        return "send-after-a-failed-serialization-" + str(obs["second"])
    if w2 != w1 + SECOND:
        return "bytes-of-the-failed-packet-transmitted-with-the-next-send" if w2.endswith(SECOND) else "next-send-corrupted-after-a-failed-serialization"
    return None


def jobs(tier: str) -> list[dict]:
    tlsrig.ensure_cert()
    return [{"kind": "genfail", "tier": tier}]


def run_job(job: dict) -> JobResult:
    res = JobResult()
    for subject in SYNC_SUBJECTS + ASYNC_SUBJECTS:
        for k in range(0, len(CHUNKS) + 1):
            for version in (("1.2", "1.3") if subject.startswith("tls") else (None,)):
                cfg = {"subject": subject, "k": k}
                if version:
                    cfg["version"] = version
                obs = run(cfg)
                res.evaluations += 1
                res.transitions += 2
                bad = oracle(cfg, obs)
                res.outcome("genfail-ok" if bad is None else "VIOLATION:" + bad)
                res.nontrivial.add(digest(("genfail", subject, k, version, len(obs.get("wire_at_failure") or b""))))
                key = f"genfail/{subject}/{bad}"
                if bad and not any(v.key == key for v in res.violations):
                    res.violations.append(Violation(key, f"{cfg}: first={obs['first']} second={obs['second']} wire when the failed send returned={obs['wire_at_failure']!r} "
                                                         f"wire at the end={obs['wire_end']!r} status={obs['status']}", {"part": "genfail", "kind": "genfail", "cfg": cfg, "choices": []}))
    res.samples.append({"part": "failing chunk generator", "subjects": list(SYNC_SUBJECTS + ASYNC_SUBJECTS), "chunks_before_failure": list(range(len(CHUNKS) + 1))})
    return res


def replay(doc: dict) -> tuple[bool, str]:
    cfg = doc["replay"]["cfg"]
    obs = run(cfg)
    bad = oracle(cfg, obs)
    return bad is not None, f"cfg={cfg}\nfirst={obs['first']} second={obs['second']}\nwire when the failed send returned={obs['wire_at_failure']!r}\nwire at the end={obs['wire_end']!r}\noracle: {bad}"
