"""C09 - TLS truncation is never reported as a clean end-of-stream (fault enumeration over cut offsets).

Family 'peer-closes': a fixed session - handshake, the peer writes two application records (300 and 200 plaintext bytes) and
then ``unwrap()``s (close_notify).  Its peer->library ciphertext stream has N bytes (learned from one uncut run; lengths are
deterministic, see tlsrig).  For EVERY cut offset o in 0..N the relay delivers exactly o bytes and then a raw EOF; the
library side is the real ``AsyncTLSStreamTransport`` over the in-memory leaf transport, or the real blocking
``SSLStreamTransport`` over a socketpair: wrap, read until end-of-stream or exception, close.

Family 'lib-closes': handshake, one record from the peer, then the library closes; the peer answers the close_notify with
its own; every cut of that answer, and a peer that never answers.

Oracle (from the statement; the stream structure used - where the handshake flight, each application record and the
close_notify end - comes from WHICH PEER ACTION produced which bytes, not from the implementation under test):
 standard_compatible=True : o < H (handshake bytes missing) => wrap() raises and the wrapped transport is closed;
   H <= o < N => an exception (ssl.SSLError/OSError), NEVER b""/0, and before it exactly the plaintext of the records that
   were completely delivered; only o == N yields b"" (after both records);
 standard_compatible=False: o < H as above; o >= H => the records completely delivered, then b""/0;
 close on a healthy connection (uncut): the peer observes close_notify before the raw EOF (not required when
   standard_compatible=False); every close terminates and closes the wrapped transport.
"""
from __future__ import annotations

import math
import ssl
from typing import Any

from easynetwork.lowlevel.api_async.backend._asyncio.backend import AsyncIOBackend
from easynetwork.lowlevel.api_async.endpoints.stream import AsyncStreamEndpoint
from easynetwork.lowlevel.api_sync.endpoints.stream import StreamEndpoint
from easynetwork.protocol import BufferedStreamProtocol, StreamProtocol
from easynetwork.serializers.base_stream import FixedSizePacketSerializer
from easynetwork.lowlevel.api_async.transports.tls import AsyncTLSStreamTransport
from easynetwork.lowlevel.api_sync.transports.socket import SSLStreamTransport

from .. import tlsrig, vloop
from ..core import Ctx, Deadlock, HorizonHit, JobResult, Violation, digest
from ..world import VSelector, World

PROPERTY = "C09"
LEVEL = "fault_enumeration"
REC_SIZES = (300, 200)
RULE = (
    "fault = raw EOF of the peer->library ciphertext stream after exactly o bytes. Family peer-closes (handshake, 2 records, "
    "close_notify; N = 883..1796 bytes depending on version/role): thorough = EVERY offset 0..N, quick = a structurally chosen, "
    "completely enumerated subset (0, N, every record boundary +-3, every offset inside each 5-byte record header, every offset "
    "inside every record of <= 130 bytes: ServerHello, ServerKeyExchange, ChangeCipherSpec, Finished, ServerHelloDone, "
    "EncryptedExtensions, CertificateVerify, close_notify; 132..399 offsets = 15-22 % of all, per configuration) x "
    "standard_compatible in {True, False} x TLS 1.2 / 1.3 x library as client / server x {AsyncTLSStreamTransport over "
    "MemTransport, AsyncTLSStreamTransport over the real asyncio socket adapter on a FakeSocket, blocking SSLStreamTransport over a "
    "socketpair} x {recv, recv_into, AsyncStreamEndpoint/StreamEndpoint.recv_packet with a copying and a buffered protocol (clean "
    "end = its '(end-of-stream)' ConnectionAbortedError)} x {connection afterwards still writable, writes fail with EPIPE}; additionally with the "
    "ciphertext delivered 7 bytes at a time (thorough: also 1 byte at a time), and with the ssl.create_default_context() client context. Family lib-closes: every cut of the peer's answer to the library's "
    "close_notify (EOF instead of the answer before / after the library's close, every offset inside the answer), an answer that "
    "never comes (30 s shutdown timeout on the virtual clock), healthy close with standard_compatible True / False. "
    "High-level clients (props/c09_clients.py): the real TCPNetworkClient / AsyncTCPNetworkClient built with ssl=True (their own default context), one packet then "
    "close_notify / no close_notify / a cut at offsets inside the close_notify (quick: 3 offsets, thorough: all), ssl_standard_compatible in {unset, True, False}. "
    "Closing (props/c09_closing.py): a reader parked in recv()/recv_into() while another task calls aclose() (started 0..3 loop turns after the reader parked), the peer answering "
    "with close_notify / ending the connection without one 0, 1 or 3 relay steps after it saw ours / staying silent (2 s shutdown timeout), standard_compatible True and False. "
    "distinct_nontrivial = distinct (configuration, region of the cut, wrap result, reader result, plaintext length, close result) "
    "among cut (o < N) sessions"
)
ASSUMPTIONS = [
    "harness contexts clear OP_IGNORE_UNEXPECTED_EOF (as the clients do for the contexts they create); a context that sets it is outside the statement",
    "the peer is CPython's ssl.SSLObject (OpenSSL 3.0) driven by the harness; OpenSSL is executed, not modelled",
    "ciphertext lengths are deterministic (Ed25519 certificate): the layout learned from the uncut run is re-checked against every cut run (segments delivered before the cut must coincide) and by the length-trace guard",
    "TLS 1.3 NewSessionTicket records (post-handshake messages) are not needed for wrap() to succeed; a cut inside them is an abrupt end AFTER the handshake",
    "for H <= o with no application record complete, either wrap() raising or the first read raising is accepted (the statement only requires an error)",
    "endpoint level: 100-byte fixed-size packets (both records are multiples of it), so 'plaintext of complete records' = whole packets",
    "client level: the clients report a clean end-of-stream AND a TLS EOF error as ConnectionAbortedError(ECONNABORTED) by design; 'reported as a clean end-of-stream' is therefore "
    "read as 'no TLS error anywhere in the exception chain (__cause__)'. The blocking client gets the rig's AF_UNIX pair (its AF_INET-only argument check is bypassed in the harness process)",
]
BOUNDS = {
    "quick": "structural subset of cut offsets (132..399 per configuration = 15-22 % of all offsets); default delivery and 7-byte fragmentation",
    "thorough": "every byte offset 0..N; default delivery, 7-byte and 1-byte fragmentation",
}


# ---------------------------------------------------------------------------------------------------------
# one session


def _policy(cfg: dict) -> Any:
    return tlsrig.Uniform(cfg["frag"]) if cfg.get("frag") else tlsrig.DeliverAll()


def _script(cfg: dict) -> list[tuple]:
    w = [tlsrig.pattern("peer", 0, REC_SIZES[0]), tlsrig.pattern("peer", REC_SIZES[0], REC_SIZES[1])]
    if cfg["family"] == "peer-closes":
        return [("write", w[0]), ("write", w[1]), ("unwrap",)]
    return [("write", w[0])]


def _relay(cfg: dict) -> Any:
    auto = cfg["family"] == "peer-closes" or cfg.get("answer", True)
    return tlsrig.make_peer_and_relay(cfg["version"], cfg["role"], policy=_policy(cfg), script=_script(cfg), cut=cfg.get("cut"),
                                      cut_when=cfg.get("cut_when", "reached"), cut_full=cfg.get("cut_full", False), auto_reply_close=auto)


def _exc_name(exc: BaseException) -> str:
    return type(exc).__name__


def _exc_ok(exc: BaseException) -> bool:
    return isinstance(exc, (ssl.SSLError, OSError))


READ_LIMIT = 40
PACKET = 100  # endpoint level: fixed-size packets; both record sizes are multiples of it


class FixedPackets(FixedSizePacketSerializer[bytes, bytes]):
    __slots__ = ()

    def __init__(self) -> None:
        super().__init__(PACKET)

    def serialize(self, packet: bytes) -> bytes:
        return packet

    def deserialize(self, data: bytes) -> bytes:
        return bytes(data)


def endpoint_protocol(recv: str) -> Any:
    return BufferedStreamProtocol(FixedPackets()) if recv == "endpoint_buf" else StreamProtocol(FixedPackets())


def is_end_of_stream_error(exc: BaseException) -> bool:
    """The endpoints report a clean end-of-stream as ConnectionAbortedError('... (end-of-stream)')."""
    return isinstance(exc, ConnectionAbortedError) and "(end-of-stream)" in str(exc)
SSL_EXC_NAMES = ("SSLError", "SSLEOFError", "SSLZeroReturnError", "SSLSyscallError", "SSLWantReadError", "SSLWantWriteError", "SSLCertVerificationError")


def run_async(cfg: dict) -> dict:
    version, role = cfg["version"], cfg["role"]
    world = World(Ctx(), horizon=20000)
    relay = _relay(cfg)
    world.env = relay.env
    out: dict = {"wrap": None, "reads": [], "reader": None, "close": None, "leaf_closed_after_wrap": None}
    holder: dict = {}
    sock = None
    if cfg["kind"] == "asock":
        sock = world.stream_socket()
        relay.link = tlsrig.FakeSocketLink(relay, sock)

    async def main(loop: Any) -> None:
        if sock is not None:
            leaf = await AsyncIOBackend().wrap_stream_socket(sock)
        else:
            leaf = tlsrig.MemTransport(AsyncIOBackend())
            relay.link = tlsrig.AsyncLink(relay, leaf)
        holder["leaf"] = leaf
        try:
            tls = await AsyncTLSStreamTransport.wrap(leaf, tlsrig.lib_context(version, role, cfg.get("ctx", "pinned")),
                                                     server_side=(role == "server"),
                                                     server_hostname=tlsrig.HOSTNAME if role == "client" else None,
                                                     standard_compatible=cfg["sc"])
        except Exception as exc:  # noqa: BLE001
            out["wrap"] = ("exc", _exc_name(exc), _exc_ok(exc))
            out["leaf_closed_after_wrap"] = leaf.is_closing()
            out["t_end"] = world.clock
            relay.drain()
            return
        out["wrap"] = ("ok",)
        got = bytearray()
        want = sum(REC_SIZES) if cfg["family"] == "peer-closes" else REC_SIZES[0]
        buf = bytearray(4096)
        closer = tls
        if cfg["recv"].startswith("endpoint"):
            closer = endpoint = AsyncStreamEndpoint(tls, endpoint_protocol(cfg["recv"]), max_recv_size=4096)
        try:
            for _ in range(READ_LIMIT):
                if cfg["family"] == "lib-closes" and len(got) >= want:
                    out["reader"] = ("stopped",)
                    break
                if cfg["recv"] == "recv":
                    d = await tls.recv(4096)
                elif cfg["recv"] == "recv_into":
                    n = await tls.recv_into(buf)
                    d = bytes(buf[:n])
                else:
                    try:
                        d = await endpoint.recv_packet()
                    except ConnectionAbortedError as exc:
                        if not is_end_of_stream_error(exc):
                            raise
                        d = b""
                out["reads"].append(len(d))
                if not d:
                    out["reader"] = ("eof",)
                    break
                got += d
            else:
                out["reader"] = ("endless",)
        except Exception as exc:  # noqa: BLE001
            out["reader"] = ("exc", _exc_name(exc), _exc_ok(exc))
        out["plaintext"] = bytes(got)
        t0 = world.clock
        try:
            await closer.aclose()
            out["close"] = ("ok",)
        except Exception as exc:  # noqa: BLE001
            out["close"] = ("exc", _exc_name(exc), _exc_ok(exc))
        out["close_elapsed"] = world.clock - t0
        out["t_end"] = world.clock
        relay.drain()

    async def main_and_settle(loop: Any) -> None:
        import asyncio

        await main(loop)
        if sock is not None:
            for _ in range(3):  # asyncio closes the socket in a call_soon callback after the transport was closed / aborted
                await asyncio.sleep(0)
            out["sock_closed"] = sock.closed_flag

    status, value, _loop = vloop.run(world, main_and_settle)
    leaf = holder.get("leaf")
    out["status"] = status
    out["error"] = None if status == "ok" else (type(value).__name__ + ": " + str(value)[:160] if isinstance(value, BaseException) else str(value))
    out["leaf_closed"] = bool(leaf and leaf.is_closing()) and (sock is None or bool(out.get("sock_closed")))
    if sock is not None and out["leaf_closed_after_wrap"]:
        out["leaf_closed_after_wrap"] = bool(out.get("sock_closed"))
    _finish(out, relay)
    tlsrig.gc_tick()
    return out


def run_blocking(cfg: dict) -> dict:
    version, role = cfg["version"], cfg["role"]
    world = World(Ctx(), horizon=20000)
    relay = _relay(cfg)
    link = tlsrig.BlockingLink(relay)
    relay.link = link
    world.env = relay.env
    world.install_clock()
    out: dict = {"wrap": None, "reads": [], "reader": None, "close": None, "leaf_closed_after_wrap": None, "status": "ok", "error": None}
    tr = None
    inf = math.inf
    try:
        try:
            try:
                tr = SSLStreamTransport(link.lib_sock, tlsrig.lib_context(version, role, cfg.get("ctx", "pinned")), inf,
                                        server_side=(role == "server"), server_hostname=tlsrig.HOSTNAME if role == "client" else None,
                                        standard_compatible=cfg["sc"], selector_factory=lambda: VSelector(world))
            except Exception as exc:  # noqa: BLE001
                out["wrap"] = ("exc", _exc_name(exc), _exc_ok(exc))
                out["leaf_closed_after_wrap"] = link.lib_fd_closed()
                relay.drain()
            else:
                out["wrap"] = ("ok",)
                got = bytearray()
                want = sum(REC_SIZES) if cfg["family"] == "peer-closes" else REC_SIZES[0]
                buf = bytearray(4096)
                closer = tr
                if cfg["recv"].startswith("endpoint"):
                    closer = endpoint = StreamEndpoint(tr, endpoint_protocol(cfg["recv"]), max_recv_size=4096)
                try:
                    for _ in range(READ_LIMIT):
                        if cfg["family"] == "lib-closes" and len(got) >= want:
                            out["reader"] = ("stopped",)
                            break
                        if cfg["recv"] == "recv":
                            d = tr.recv(4096, inf)
                        elif cfg["recv"] == "recv_into":
                            n = tr.recv_into(buf, inf)
                            d = bytes(buf[:n])
                        else:
                            try:
                                d = endpoint.recv_packet(timeout=None)
                            except ConnectionAbortedError as exc:
                                if not is_end_of_stream_error(exc):
                                    raise
                                d = b""
                        out["reads"].append(len(d))
                        if not d:
                            out["reader"] = ("eof",)
                            break
                        got += d
                    else:
                        out["reader"] = ("endless",)
                except Exception as exc:  # noqa: BLE001
                    out["reader"] = ("exc", _exc_name(exc), _exc_ok(exc))
                out["plaintext"] = bytes(got)
                t0 = world.clock
                try:
                    closer.close()
                    out["close"] = ("ok",)
                except Exception as exc:  # noqa: BLE001
                    out["close"] = ("exc", _exc_name(exc), _exc_ok(exc))
                out["close_elapsed"] = world.clock - t0
                relay.drain()
        except Deadlock as exc:
            out["status"], out["error"] = "deadlock", str(exc)
        except HorizonHit as exc:
            out["status"], out["error"] = "horizon", str(exc)
        out["t_end"] = world.clock
        out["leaf_closed"] = link.lib_fd_closed()
    finally:
        world.restore_clock()
        if tr is not None:
            try:
                tr.close()
            except Exception:
                pass
        link.close()
    _finish(out, relay)
    return out


def _finish(out: dict, relay: Any) -> None:
    peer = relay.peer
    out["segments"] = list(relay.segments)
    out["records"] = list(relay.records)
    out["delivered"] = relay.delivered_to_lib
    out["cut_applied"] = relay.cut_applied
    out["peer_events"] = tuple(e for e in peer.events if e[0] != "data")
    out["peer_saw_close_notify"] = peer.saw_close_notify
    out["peer_raw_eof"] = peer.raw_eof
    out["close_notify_before_raw_eof"] = peer.close_notify_before_raw_eof
    out["trace"] = relay.length_trace()
    out.setdefault("plaintext", b"")
    out.setdefault("close_elapsed", 0.0)


def run_cfg(cfg: dict) -> dict:
    return run_blocking(cfg) if cfg["kind"] == "blocking" else run_async(cfg)


# ---------------------------------------------------------------------------------------------------------
# layout of the uncut stream


def layout_of(cfg: dict) -> dict:
    base = dict(cfg, cut=None, frag=None, cut_full=False, answer=True)
    obs = run_cfg(base)
    segs = obs["segments"]
    lay: dict = {"ok": False, "segments": segs, "records": obs["records"], "obs": obs}
    labels = [s[0] for s in segs]
    hs = [s for s in segs if s[0] in ("hs", "hs-final")]
    if not hs:
        return lay
    if cfg["version"] == "1.3" and cfg["role"] == "client":
        # the TLS 1.3 server's "hs-final" output is its NewSessionTickets: post-handshake, not needed by the client
        need = [s for s in hs if s[0] == "hs"]
    else:
        need = hs
    lay["H"] = need[-1][2]
    lay["hs_end"] = hs[-1][2]
    try:
        if cfg["family"] == "peer-closes":
            lay["D"] = [segs[labels.index("w0")][2], segs[labels.index("w1")][2]]
            lay["close"] = segs[labels.index("close")][1:]
            lay["N"] = segs[labels.index("close")][2]
            lay["ok"] = (obs["status"] == "ok" and obs["wrap"] == ("ok",) and obs["reader"] == ("eof",) and lay["N"] == segs[-1][2]
                         and obs["plaintext"] == tlsrig.pattern("peer", 0, sum(REC_SIZES)))
        else:
            lay["D"] = [segs[labels.index("w0")][2]]
            if cfg["sc"]:
                i = labels.index("close-reply")
                lay["close"] = segs[i][1:]
                lay["N"] = segs[i][2]
                lay["ok"] = obs["status"] == "ok" and obs["wrap"] == ("ok",) and obs["close"] == ("ok",) and lay["N"] == segs[-1][2]
            else:
                lay["close"] = None
                lay["N"] = segs[-1][2]
                lay["ok"] = obs["status"] == "ok" and obs["wrap"] == ("ok",) and obs["close"] == ("ok",)
    except ValueError:
        pass
    return lay


def quick_offsets(lay: dict) -> list[int]:
    n = lay["N"]
    s: set[int] = {0, n}
    for start, end, _typ in lay["records"]:
        if start >= n:
            break
        s.update(range(start - 3, start + 6))
        s.update(range(end - 3, end + 4))
        if end - start <= 130:
            s.update(range(start, end + 1))
    return sorted(o for o in s if 0 <= o <= n)


def region_of(lay: dict, o: int) -> str:
    if o < lay["H"]:
        return "handshake"
    if o < lay["hs_end"]:
        return "tickets"
    d = lay["D"]
    if o < d[0]:
        return "record1"
    if len(d) > 1 and o < d[1]:
        return "record2"
    if lay["close"] is not None and o < lay["N"]:
        return "close_notify" if o >= lay["close"][0] else "gap"
    return "uncut"


# ---------------------------------------------------------------------------------------------------------
# oracle


def oracle(cfg: dict, lay: dict, obs: dict) -> tuple[str, str] | None:
    """-> (symptom, message) or None"""
    if obs["status"] != "ok":
        return ({"deadlock": "hang", "horizon": "no-progress-within-horizon"}.get(obs["status"], "harness-exception"),
                f"{obs['status']}: {obs['error']}")
    o = cfg.get("cut")
    n = lay["N"]
    cut = o is not None and not (o >= n and cfg.get("cut_when", "reached") == "exceeded")
    if o is None:
        o = n
    wrap, reader, close = obs["wrap"], obs["reader"], obs["close"]
    recs_done = sum(1 for d in lay["D"] if o >= d)
    exp_plain = tlsrig.pattern("peer", 0, sum(REC_SIZES[:recs_done]))
    full = bool(cfg.get("cut_full")) and cut
    if wrap[0] == "exc":
        if not wrap[2]:
            return "wrap-unexpected-exception-type", f"wrap() raised {wrap[1]}"
        if not obs["leaf_closed_after_wrap"]:
            return "wrap-failed-transport-left-open", f"wrap() raised {wrap[1]} and the wrapped transport is still open"
        if o < lay["H"]:
            return None
        if full and wrap[1] not in SSL_EXC_NAMES:
            # the connection is dead for writing too (EPIPE): the handshake's own last flight / tickets cannot be sent
            return None
        if recs_done or not cfg["sc"] or not cut:
            return "wrap-failed-after-complete-handshake", f"wrap() raised {wrap[1]} although all {lay['H']} handshake bytes were delivered (cut at {o})"
        return None
    if o < lay["H"]:
        return "handshake-completed-on-truncated-stream", f"wrap() succeeded with only {o} of {lay['H']} handshake bytes"
    if cfg["family"] == "peer-closes":
        if reader is None or reader[0] == "endless":
            return "reader-never-ends", f"{len(obs['reads'])} reads without end-of-stream or error"
        if reader[0] == "exc" and not reader[2]:
            return "reader-unexpected-exception-type", f"reader raised {reader[1]}"
        plain = obs["plaintext"]
        write_failure = full and reader[0] == "exc" and reader[1] not in SSL_EXC_NAMES
        if cfg["sc"] and o < n:
            if reader[0] == "eof":
                return "truncation-reported-as-clean-eof", (f"standard-compatible, stream cut at {o} of {n} bytes (before the end of close_notify): "
                                                            f"reader got end-of-stream after {len(plain)} plaintext bytes")
        elif reader[0] != "eof" and not write_failure:
            what = "clean close_notify" if o >= n else "abrupt end with standard_compatible=False"
            return "error-instead-of-eof", f"{what} (cut at {o} of {n}): reader raised {reader[1]} after {len(plain)} plaintext bytes"
        if write_failure:
            # a connection that is dead in both directions (EPIPE on the flush) may lose what was still unread, as TCP does
            if not exp_plain.startswith(plain):
                return "wrong-plaintext", f"cut at {o}: reader got {len(plain)} bytes that are not a prefix of the peer's plaintext"
        elif plain != exp_plain:
            sym = "plaintext-lost-before-end" if exp_plain.startswith(plain) else "wrong-plaintext"
            return sym, f"cut at {o}: {recs_done} record(s) were completely delivered ({len(exp_plain)} bytes) but the reader got {len(plain)} bytes before {reader[:2]}"
    else:
        if reader != ("stopped",) or obs["plaintext"] != tlsrig.pattern("peer", 0, REC_SIZES[0]):
            return "lib-closes-setup-read-failed", f"reader: {reader}, {len(obs['plaintext'])} bytes"
    # closing
    if close is None:
        return "close-not-reached", "close was not called"
    if close[0] == "exc" and not close[2]:
        return "close-unexpected-exception-type", f"close raised {close[1]}"
    if not obs["leaf_closed"]:
        return "close-left-transport-open", f"close() returned {close[:2]} and the wrapped transport is still open"
    limit = 30.0 + 1e-3
    if obs["close_elapsed"] > limit:
        return "close-exceeded-shutdown-timeout", f"close took {obs['close_elapsed']:.3f} virtual seconds"
    healthy = not cut
    if healthy and cfg["sc"] and close[0] == "ok":
        if not obs["close_notify_before_raw_eof"]:
            return "no-close_notify-on-close", f"healthy connection closed: the peer observed {obs['peer_events']} (no close_notify before the raw EOF)"
    if healthy and cfg["sc"] and close[0] != "ok":
        return "close-failed-on-healthy-connection", f"close raised {close[1]}"
    if healthy and obs["close_elapsed"] > 1.0 and cfg.get("answer", True):
        return "close-waited-on-healthy-connection", f"close took {obs['close_elapsed']:.3f} virtual seconds although the peer answered"
    return None


def layout_consistent(lay: dict, obs: dict, cut: int | None) -> bool:
    a, b = lay["segments"], obs["segments"]
    for i, seg in enumerate(b):
        if cut is not None and seg[2] > cut:
            break
        if i >= len(a) or tuple(a[i]) != tuple(seg):
            return False
    return True


# ---------------------------------------------------------------------------------------------------------
# jobs


def _cfg(kind: str, version: str, role: str, sc: bool, recv: str, family: str = "peer-closes", **kw: Any) -> dict:
    cfg = {"kind": kind, "version": version, "role": role, "sc": sc, "recv": recv, "family": family, "cut": None, "cut_when": "reached",
           "cut_full": False, "frag": None, "ctx": "pinned", "answer": True}
    cfg.update(kw)
    return cfg


def jobs(tier: str) -> list[dict]:
    tlsrig.ensure_cert()
    out: list[dict] = []
    parts = 1 if tier == "quick" else 2
    for kind in ("async", "blocking", "asock"):
        for v in tlsrig.VERSIONS:
            for r in tlsrig.ROLES:
                for sc in (True, False):
                    if kind != "asock":
                        # endpoint level: AsyncStreamEndpoint / StreamEndpoint.recv_packet over the TLS transport (copying and
                        # buffered receive paths); a truncation must NOT come out as the "(end-of-stream)" ConnectionAbortedError
                        for recv in ("endpoint", "endpoint_buf"):
                            for p in range(parts):
                                out.append({"tier": tier, "base": _cfg(kind, v, r, sc, recv), "part": p, "parts": parts})
                    for recv in ("recv", "recv_into"):
                        for full in (False, True):
                            if full and kind == "asock":
                                continue  # over the asyncio adapter a write failure aborts the asyncio transport: C14/C20 territory
                            for p in range(parts):
                                out.append({"tier": tier, "base": _cfg(kind, v, r, sc, recv, cut_full=full), "part": p, "parts": parts})
                        if tier == "thorough" or recv == "recv":
                            for p in range(parts):
                                out.append({"tier": tier, "base": _cfg(kind, v, r, sc, recv, frag=7), "part": p, "parts": parts})
                    if tier == "thorough":
                        for p in range(4):
                            out.append({"tier": tier, "base": _cfg(kind, v, r, sc, "recv", frag=1), "part": p, "parts": 4})
                if r == "client":
                    # the clients' ssl=True path: create_default_context() trusting the rig certificate through SSL_CERT_FILE
                    out.append({"tier": tier, "base": _cfg(kind, v, r, True, "recv", ctx="default"), "part": 0, "parts": 1})
                for recv in ("recv", "recv_into") + (("endpoint",) if kind != "asock" else ()):
                    out.append({"tier": tier, "base": _cfg(kind, v, r, True, recv, family="lib-closes"), "part": 0, "parts": 1})
                out.append({"tier": tier, "base": _cfg(kind, v, r, False, "recv", family="lib-closes"), "part": 0, "parts": 1})
    from . import c09_clients

    out += c09_clients.jobs(tier)  # the real TCPNetworkClient / AsyncTCPNetworkClient with ssl=True (the context they build themselves)
    from . import c09_closing

    out += c09_closing.jobs(tier)  # a reader parked in recv() while another task closes the transport
    return out


def job_cases(job: dict, lay: dict) -> list[dict]:
    base = job["base"]
    out: list[dict] = []
    if base["family"] == "peer-closes":
        offs = quick_offsets(lay) if job["tier"] == "quick" else list(range(0, lay["N"] + 1))
        for i, o in enumerate(offs):
            if i % job["parts"] == job["part"]:
                out.append(dict(base, cut=o))
        return out
    # lib-closes
    out.append(dict(base))  # healthy close
    if not base["sc"]:
        return out
    a0, n = lay["close"]
    out.append(dict(base, cut=a0, cut_when="reached"))  # EOF right after the data record, before the library closes
    full = base["kind"] != "asock"
    if full:
        out.append(dict(base, cut=a0, cut_when="reached", cut_full=True))
    for o in range(a0, n + 1):
        out.append(dict(base, cut=o, cut_when="exceeded"))  # EOF in place of / inside / (o == n: after) the answer
        if o < n and full:
            out.append(dict(base, cut=o, cut_when="exceeded", cut_full=True))
    out.append(dict(base, answer=False))  # the peer never answers: 30 s shutdown timeout
    for f in (1, 7):
        out.append(dict(base, frag=f))
    return out


def cls_of(cfg: dict) -> str:
    return f"{cfg['kind']}/tls{cfg['version']}/{cfg['role']}"


def key_of(cfg: dict, symptom: str) -> str:
    mode = "standard" if cfg["sc"] else "non-standard"
    return f"{cls_of(cfg)}/{cfg['family']}/{mode}/{cfg['recv']}/{symptom}"


def run_job(job: dict) -> JobResult:
    if job.get("kind") == "clients":
        from . import c09_clients

        return c09_clients.run_job(job)
    if job.get("kind") == "closing":
        from . import c09_closing

        return c09_closing.run_job(job)
    res = JobResult()
    base = job["base"]
    # only the thorough tier enumerates EVERY byte offset; quick enumerates the structural subset completely
    res.exhaustive = job["tier"] == "thorough"
    try:
        tlsrig.determinism_guard(base["kind"], base["version"], base["role"])
        res.count("length_trace_guard_runs", 2)
    except tlsrig.RigError as exc:
        res.internal.append(str(exc))
        return res
    lay = layout_of(base)
    res.evaluations += 1
    if "N" not in lay or "H" not in lay:
        # the uncut session itself does not work: that is the finding
        bad = oracle_uncut_failure(base, lay)
        res.outcome("VIOLATION:" + bad[0])
        res.violations.append(Violation(key_of(base, bad[0]), f"{describe(base)}: {bad[1]}", {"cfg": dict(base), "choices": []}))
        return res
    found: dict[str, tuple[dict, str]] = {}
    uncut = dict(base, cut=None, cut_full=False, frag=None)
    bad0 = oracle(uncut, lay, lay["obs"]) or (None if lay["ok"] else oracle_uncut_failure(base, lay))
    if bad0 is not None:
        res.outcome("VIOLATION:" + bad0[0])
        found[bad0[0]] = (uncut, bad0[1])
    else:
        res.outcome("uncut session ok")
    cases = job_cases(job, lay)
    for cfg in cases:
        obs = run_cfg(cfg)
        res.evaluations += 1
        cut = cfg["cut"]
        if not layout_consistent(lay, obs, cut):
            res.internal.append(f"stream layout differs from the uncut run: {describe(cfg)}: {obs['segments']} vs {lay['segments']}")
            continue
        bad = oracle(cfg, lay, obs)
        region = region_of(lay, cut if cut is not None else lay["N"])
        mode = "sc" if cfg["sc"] else "nosc"
        if bad is None:
            if obs["wrap"][0] == "exc":
                name = f"{mode}/{region}: wrap raised {obs['wrap'][1]}"
            elif cfg["family"] == "peer-closes":
                name = f"{mode}/{region}: {len(obs['plaintext'])} bytes then {'/'.join(map(str, obs['reader'][:2]))}"
            else:
                t = "30s" if obs["close_elapsed"] > 29 else "0s"
                name = f"{mode}/lib-closes/{region}: close {'/'.join(map(str, obs['close'][:2]))} in {t}, peer saw close_notify={obs['peer_saw_close_notify']}"
            res.outcome(name)
        else:
            res.outcome("VIOLATION:" + bad[0])
            if bad[0] not in found:
                found[bad[0]] = (cfg, bad[1])
        if cut is not None and cut < lay["N"] or not cfg.get("answer", True):
            res.nontrivial.add(digest((cls_of(cfg), cfg["family"], cfg["sc"], cfg["recv"], cfg["cut_full"], region, obs["wrap"], obs["reader"],
                                       len(obs["plaintext"]), obs["close"], round(obs["close_elapsed"]), obs["peer_saw_close_notify"])))
        res.count("cut_offsets_" + cfg["family"])
        res.transitions += 1  # one injected fault (cut) per session
    for sym, (cfg, msg) in found.items():
        res.violations.append(Violation(key_of(cfg, sym), f"{describe(cfg)}: {msg}", {"cfg": cfg, "choices": []}))
    if len(res.samples) < 1 and base["family"] == "peer-closes":
        res.samples.append({"config": describe(base), "N": lay["N"], "handshake_bytes_needed": lay["H"], "record_ends": lay["D"],
                            "close_notify": list(lay["close"]), "records(start,end,type)": [list(r) for r in lay["records"]],
                            "offsets_enumerated_in_this_job": len(cases), "offset_set": "every offset" if job["tier"] == "thorough" else "structural subset"})
    return res


def oracle_uncut_failure(cfg: dict, lay: dict) -> tuple[str, str]:
    obs = lay["obs"]
    return "uncut-session-failed", (f"the uncut session did not produce the expected stream: status={obs['status']} error={obs['error']} wrap={obs['wrap']} "
                                    f"reader={obs['reader']} close={obs['close']} segments={obs['segments']}")


def describe(cfg: dict) -> str:
    return (f"{cls_of(cfg)} {cfg['family']} standard_compatible={cfg['sc']} {cfg['recv']} cut={cfg['cut']}({cfg['cut_when']}"
            f"{', writes fail afterwards' if cfg['cut_full'] else ''}) frag={cfg['frag']} ctx={cfg['ctx']} answer={cfg['answer']}")


def replay(doc: dict) -> tuple[bool, str]:
    if doc["replay"].get("kind") == "clients":
        from . import c09_clients

        return c09_clients.replay(doc)
    if doc["replay"].get("kind") == "closing":
        from . import c09_closing

        return c09_closing.replay(doc)
    cfg = doc["replay"]["cfg"]
    lay = layout_of(cfg)
    lines = [f"cfg={cfg}"]
    if "N" not in lay or "H" not in lay:
        bad = oracle_uncut_failure(cfg, lay)
        lines.append(f"oracle: {bad}")
        return True, "\n".join(lines)
    lines.append(f"layout of the uncut stream: N={lay['N']} handshake-needed={lay['H']} record ends={lay['D']} close_notify={lay['close']}")
    lines.append(f"  segments={lay['segments']}")
    lines.append(f"  records={lay['records']}")
    obs = run_cfg(cfg)
    bad = oracle(cfg, lay, obs)
    for k in ("status", "error", "wrap", "leaf_closed_after_wrap", "reads", "reader", "close", "close_elapsed", "leaf_closed", "delivered",
              "cut_applied", "peer_events", "close_notify_before_raw_eof"):
        lines.append(f"  {k}={obs.get(k)!r}")
    lines.append(f"  plaintext bytes={len(obs['plaintext'])} region={region_of(lay, cfg['cut'] if cfg['cut'] is not None else lay['N'])}")
    lines.append(f"oracle: {bad}")
    return bad is not None, "\n".join(lines)
