"""C17 (TLS listener part) - a connection that fails / stalls its TLS handshake never affects the other clients.

Subject: the REAL ``AsyncTCPNetworkServer(ssl=...)`` (``AsyncTLSListener`` around the real asyncio ``ListenerSocketAdapter``,
``AsyncTLSStreamTransport`` around the real asyncio socket adapter) on the virtual loop (E2) over fake sockets (E1).  One
execution = one server, ONE faulty connection F and 1-2 healthy TLS clients H (independent stdlib ``ssl.SSLObject`` peers,
each behind its own ``tlsrig.Relay`` + ``FakeSocketLink``) that connect, complete the handshake, send 2 requests (each after
the previous response) and close with close_notify.  A brand-new healthy client H9 is served afterwards.

F's fault is one of FAULTS (garbage instead of a ClientHello, EOF, reset, a ClientHello cut at several offsets followed by
silence => handshake timeout, a valid first flight followed by garbage / a corrupted Finished / EOF / reset / silence, a
complete handshake followed by a ragged EOF / reset, a client pinned to a TLS version the server refuses).

Schedules: every client is a lane of events (``srvrig.Script``): F's connect / bytes / EOF / reset and the H's connect /
request k / close_notify are placed by the explorer at select() boundaries (default: as soon as the loop idles, lanes served
round robin; costed deviations: at a busy boundary, another lane first, or - once - "let the pending timer fire first").
The ciphertext relays themselves deliver everything available at every select (no choice there: fragmentation of TLS records
is the subject of C08/C10).

Oracle (from the statement): serve_forever() is still running after the fault and at the end; every healthy client completed
its handshake, received exactly its responses in order, saw the server's close_notify, its server-side socket is closed after
its own close_notify, its hooks are [conn, disc]; every step of a healthy client (connect -> handshake done, request k ->
response k) takes < LATENCY seconds of VIRTUAL time (the only timers ahead are F's handshake / shutdown timeouts: a healthy
client that waits for one of them is "blocked behind F"); F's server-side socket ends closed - for a stalled handshake
ssl_handshake_timeout (+ epsilon) after its accept, not earlier; on_connection never runs for F unless its handshake really
completed (then on_disconnection runs as well); nothing but the listener and the healthy sockets is open after the fault;
``await server.shutdown()`` completes and no socket is left open afterwards.
"""
from __future__ import annotations

import errno
import socket as _socket
from typing import Any

from easynetwork.protocol import BufferedStreamProtocol, StreamProtocol
from easynetwork.serializers.line import StringLineSerializer
from easynetwork.servers.async_tcp import AsyncTCPNetworkServer
from easynetwork.servers.handlers import AsyncStreamRequestHandler, INETClientAttribute

from .. import tlsrig, vloop
from ..core import Ctx, HorizonHit, JobResult, Violation, digest, explore
from ..srvrig import Ev, Recorder, RigBackend, Script, quiet_logger, wait_until
from ..world import FakeSocket, Pipe, World

# texts for the C17 module that hosts this sub-module (PROPERTY / LEVEL are the host's)
RULE = (
    "TLS listener: faulty connection F in {garbage instead of a ClientHello (connection kept open / then EOF), immediate EOF, reset before any byte, half a "
    "ClientHello then EOF / reset, ClientHello cut after 0 / 1 / half / all-but-one bytes then silence (handshake timeout), valid ClientHello then "
    "{garbage, Finished flight with a corrupted last byte, EOF, reset, silence, flight minus its last byte then silence} instead of the client's second flight, "
    "complete handshake then raw EOF, complete handshake + one answered request then raw EOF / reset (no close_notify), client pinned to the TLS version "
    "the server refuses} x TLS 1.2 / 1.3 x 1-2 concurrent healthy TLS clients (connect, handshake, 2 sequential requests, close_notify) + one late healthy "
    "client x both receive paths of the server (alternating); schedules: every client event (connect, each F byte block / EOF / reset, each request, close_notify) "
    "is placed by the explorer at a select() boundary (default: when the loop idles, lanes round robin; costed deviations: at a busy boundary, another lane first, "
    "once 'let the pending timer fire first'); ciphertext is relayed whole at every select; distinct_nontrivial = distinct (scenario, hook log, order of applied "
    "events) among executions with a non-default choice"
)
ASSUMPTIONS = [
    "TLS listener part: the healthy / faulty TLS clients are CPython ssl.SSLObject peers driven by the harness (OpenSSL executed, not modelled); ciphertext is "
    "delivered whole at every select() (record fragmentation is enumerated by C08/C10, not here)",
    "virtual time: everything but ssl_handshake_timeout (5 s) and ssl_shutdown_timeout (1 s) takes microseconds, so 'a healthy client is not blocked behind F' is "
    "judged as 'each of its steps completes within 0.25 virtual seconds'",
    "once serve_forever() is seen being cancelled by a client failure the verdict is fixed and the rest of that execution runs under default choices "
    "(asyncio cancels sibling tasks in address order: not reproducible)",
    "a TLS client still stalled in its handshake when server.shutdown() is called is not enumerated (shutdown happens after F's connection ended)",
]
BOUNDS = {
    "quick": "TLS listener: 20 faults x 2 TLS versions; 1 healthy client at placement-deviation bound 2 and 2 healthy clients at bound 1",
    "thorough": "TLS listener: 20 faults x 2 TLS versions; 1 healthy client at bound 3 (bound 2 on the other receive path), 2 healthy clients at bound 2",
}

F_PORT = 41000
H_PORT = 42000
HORIZON = 8000
HS_TIMEOUT = 5.0  # ssl_handshake_timeout of the server under test
SHUTDOWN_TIMEOUT = 1.0  # ssl_shutdown_timeout
LATENCY = 0.25  # virtual seconds a healthy client's step may take (everything but the two timers above takes microseconds)
EPSILON = 0.05
GARBAGE = b"GET / HTTP/1.0\r\n\r\n"

# fault -> family.  raw: F is a bare socket fed by the harness; flight2: F is a real TLS client whose SECOND flight is replaced;
# post: F is a real TLS client (relay) that completes the handshake; relay: F is a real TLS client the server must refuse
FAULTS = {
    "garbage-open": "raw", "garbage-eof": "raw", "eof": "raw", "reset": "raw", "hello-half-eof": "raw", "hello-half-reset": "raw",
    "stall-0": "raw", "stall-1": "raw", "stall-half": "raw", "stall-allbut1": "raw",
    "flight2-garbage": "flight2", "flight2-corrupt": "flight2", "flight2-eof": "flight2", "flight2-reset": "flight2",
    "flight2-stall": "flight2", "flight2-allbut1-stall": "flight2",
    "hs-then-eof": "post", "ragged-eof": "post", "ragged-reset": "post",
    "wrongver": "relay",
}
STALLS = ("stall-0", "stall-1", "stall-half", "stall-allbut1", "flight2-stall", "flight2-allbut1-stall")


def who_of(port: int) -> str:
    return "F" if port == F_PORT else f"H{port - H_PORT}"


class TimedSocket(FakeSocket):
    """A stream FakeSocket that remembers WHEN (virtual time) the library closed it."""

    closed_at: float | None = None

    def close(self) -> None:
        if not self.closed_flag:
            self.closed_at = self.world.clock
        super().close()


def timed_socket(world: World, peer: tuple, tag: str) -> TimedSocket:
    s = TimedSocket(world, _socket.AF_INET, _socket.SOCK_STREAM)
    s.rx = Pipe(None)
    s.tx = Pipe(None)
    s.peername = peer
    s.sockname = ("127.0.0.1", 50000)
    s.connected = True
    s.tag = tag
    return s


# ---------------------------------------------------------------------------------------------------------
# request handler


class Handler(AsyncStreamRequestHandler):
    def __init__(self, rec: Recorder) -> None:
        self.rec = rec

    @staticmethod
    def who(client: Any) -> str:
        return who_of(client.extra(INETClientAttribute.remote_address).port)

    async def on_connection(self, client: Any) -> None:
        self.rec.add(self.who(client), "conn")

    async def handle(self, client: Any):
        rec, who = self.rec, self.who(client)
        g = rec.gen_start("h", who)
        try:
            try:
                req = yield
            except GeneratorExit:
                rec.gen_exit(g)
                raise
            except BaseException as exc:
                rec.add(who, "thrown", type(exc).__name__)
                raise
            rec.add(who, "req", req)
            try:
                await client.send_packet("ok:" + str(req))
            except BaseException as exc:
                rec.add(who, "send-raised", type(exc).__name__)
                raise
        finally:
            rec.gen_final(g)

    async def on_disconnection(self, client: Any) -> None:
        self.rec.add(self.who(client), "disc")


# ---------------------------------------------------------------------------------------------------------
# the network of one execution: relays stepped at every select(), then the scripted events


class TLSClient:
    """A stdlib TLS client (Peer) behind its own relay; its actions wait for flags raised by Script events."""

    def __init__(self, net: "Net", tag: str, port: int, version: str, nreq: int, closes: bool = True) -> None:
        self.net = net
        self.tag = tag
        self.n = tag[1:]
        self.nreq = nreq
        self.flags: set[str] = set()
        script: list[tuple] = []
        for k in range(1, nreq + 1):
            script += [("wait_until", (lambda k=k: f"req{k}" in self.flags and self.can_write())), ("write", self.request(k))]
        if closes:
            script += [("wait_until", lambda: "close" in self.flags and self.can_write()), ("unwrap",)]
        self.peer = tlsrig.Peer(tlsrig.context("client", version), server_side=False)
        self.relay = tlsrig.Relay(self.peer, tlsrig.DeliverAll(), script)
        self.sock = timed_socket(net.world, ("127.0.0.1", port), tag)
        self.t: dict[str, float] = {}  # virtual instants: connect, hs, req<k>, resp<k>, close, close_notify
        net.relays.append(self.relay)
        net.clients.append(self)

    def request(self, k: int) -> bytes:
        return f"{self.tag.lower()}r{k}\n".encode()

    def expected(self) -> bytes:
        return b"".join(b"ok:" + self.request(k) for k in range(1, self.nreq + 1))

    def can_write(self) -> bool:
        """False once the SERVER ended the connection (close_notify / EOF / TLS error seen by the peer): the client's remaining
        requests are then never sent and its events stay pending (reported by the oracle)."""
        p = self.peer
        return p.handshaken and not p.dead and not p.saw_close_notify and not p.raw_eof and p.unwrap_state is None

    def answered(self, k: int) -> bool:
        return self.peer.received.count(b"\n") >= k

    # -- Script events --------------------------------------------------------------------------------
    def connect(self, lsock: Any) -> None:
        lsock.accept_q.append(self.sock)
        self.relay.link = tlsrig.FakeSocketLink(self.relay, self.sock)
        self.t["connect"] = self.net.world.clock
        self.net.kick(self.relay)

    def fire(self, flag: str) -> None:
        self.flags.add(flag)
        self.t[flag] = self.net.world.clock
        self.net.kick(self.relay)

    def cut(self, reset: bool) -> None:
        """The connection ends WITHOUT close_notify (ragged EOF), or is reset."""
        r = self.relay
        r.cut_applied = True
        r.to_lib.clear()
        if not self.sock.closed_flag:
            reset_socket(self.sock) if reset else eof_socket(self.sock)
        self.t["cut"] = self.net.world.clock

    def lane(self, lsock: Any) -> list[Ev]:
        evs = [Ev(f"{self.tag}:connect", lambda: self.connect(lsock))]
        for k in range(1, self.nreq + 1):
            gate = (lambda: self.peer.handshaken) if k == 1 else (lambda k=k: self.answered(k - 1))
            evs.append(Ev(f"{self.tag}:req{k}", (lambda k=k: self.fire(f"req{k}")), gate=gate))
        evs.append(Ev(f"{self.tag}:close", lambda: self.fire("close"), gate=lambda: self.answered(self.nreq)))
        return evs

    def stamp(self, now: float) -> None:
        t, p = self.t, self.peer
        if p.handshaken and "hs" not in t:
            t["hs"] = now
        n = p.received.count(b"\n")
        for k in range(1, n + 1):
            if f"resp{k}" not in t:
                t[f"resp{k}"] = now
        if p.saw_close_notify and "close_notify" not in t:
            t["close_notify"] = now


def eof_socket(sock: FakeSocket) -> None:
    if not sock.closed_flag:
        sock.rx.eof = True


def reset_socket(sock: FakeSocket) -> None:
    """ECONNRESET on the next read (then EOF, as the kernel does), EPIPE on every write."""
    if not sock.closed_flag:
        sock.rx.error = ConnectionResetError(errno.ECONNRESET, "Connection reset by peer")
        sock.rx.eof = True
        sock.tx.error = BrokenPipeError(errno.EPIPE, "Broken pipe")


class Net:
    def __init__(self, world: World, script: Script) -> None:
        self.world = world
        self.script = script
        self.relays: list[tlsrig.Relay] = []
        self.clients: list[TLSClient] = []
        self.sel: Any = None
        self.steps = 0
        self.serve_task: Any = None
        self.shutting_down = False
        self.dying: float | None = None  # virtual instant at which serve_forever() was seen being torn down by a client's failure
        world.env = self.env  # (Script.__init__ installed its own env: this one calls it)

    def kick(self, relay: tlsrig.Relay) -> None:
        relay.step(False, self.sel)
        self.stamp()

    def stamp(self) -> None:
        now = self.world.clock
        for c in self.clients:
            c.stamp(now)

    def step_all(self, busy: bool, sel: Any) -> bool:
        changed = False
        for r in self.relays:
            if r.link is None:
                continue
            before = r._snapshot()
            r.step(busy, sel)
            if r._snapshot() != before:
                changed = True
        self.stamp()
        return changed

    def env(self, world: World, sel: Any, timeout: float | None) -> None:
        """Every select(): first the relays move whatever ciphertext is in flight (like tlsrig.Relay.env: when the loop is
        about to WAIT, relay steps go on until nothing moves any more - the time between two relay steps is negligible
        against the TLS timers), then the Script places / applies the clients' events."""
        self.sel = sel
        t = self.serve_task
        if t is not None and self.dying is None and not self.shutting_down and (t.done() or t.cancelling()):
            # the server's task group is being cancelled (asyncio cancels the sibling tasks in SET order, i.e. by address):
            # the verdict is fixed, the rest of the execution is not reproducible - it goes on under default choices that
            # are neither recorded nor expanded by the explorer
            self.dying = world.clock
            self.script.ctx = Ctx()
        busy = timeout == 0
        changed = self.step_all(busy, sel)
        if busy:
            if changed:
                world.busy_streak = 0  # a streak kept busy by deliveries is not a spinning loop (see tlsrig.Relay.env)
        else:
            while changed and not world.runnable() and not world._ready(sel):
                self.steps += 1
                if self.steps > 100000:
                    raise HorizonHit("more than 100000 idle relay steps")
                changed = self.step_all(False, sel)
        n = self.script.seq
        self.script.env(world, sel, timeout)
        if self.script.seq != n:
            world.busy_streak = 0


# ---------------------------------------------------------------------------------------------------------
# the faulty connection


def client_hello(version: str) -> tuple[tlsrig.Peer, bytes]:
    peer = tlsrig.Peer(tlsrig.context("client", version), server_side=False)
    peer.start()
    return peer, peer.out.read()


def faulty_lane(cfg: dict, net: Net, lsock: Any, st: dict) -> list[Ev]:
    """-> the events of F.  ``st`` receives 'fsock' (F's server-side socket) and, if F is a real TLS client, 'fclient'."""
    world, fault, version = net.world, cfg["fault"], cfg["version"]
    fam = FAULTS[fault]
    if fam in ("post", "relay"):
        fv = version if fam == "post" else {"1.2": "1.3", "1.3": "1.2"}[version]
        fc = TLSClient(net, "F", F_PORT, fv, nreq=0 if fault in ("hs-then-eof", "wrongver") else 1, closes=False)
        st["fclient"] = fc
        st["fsock"] = fc.sock
        evs = [Ev("F:connect", lambda: fc.connect(lsock))]
        if fault == "hs-then-eof":
            evs.append(Ev("F:cut", lambda: fc.cut(False), gate=lambda: fc.peer.handshaken))
        elif fault in ("ragged-eof", "ragged-reset"):
            evs.append(Ev("F:req1", lambda: fc.fire("req1"), gate=lambda: fc.peer.handshaken))
            evs.append(Ev("F:cut", lambda: fc.cut(fault == "ragged-reset"), gate=lambda: fc.answered(1)))
        return evs
    fsock = st["fsock"] = timed_socket(world, ("127.0.0.1", F_PORT), "F")

    def connect() -> None:
        lsock.accept_q.append(fsock)
        st["t_connect"] = world.clock

    def put(data: bytes) -> Any:
        def f() -> None:
            if not fsock.closed_flag:
                fsock.rx.put(data)
        return f

    evs = [Ev("F:connect", connect)]
    if fam == "raw":
        if fault.startswith("garbage"):
            evs.append(Ev("F:garbage", put(GARBAGE)))
            if fault == "garbage-eof":
                evs.append(Ev("F:eof", lambda: eof_socket(fsock)))
        elif fault == "eof":
            evs.append(Ev("F:eof", lambda: eof_socket(fsock)))
        elif fault == "reset":
            evs.append(Ev("F:reset", lambda: reset_socket(fsock)))
        else:
            _peer, hello = client_hello(version)
            st["hello_len"] = len(hello)
            k = {"hello-half-eof": len(hello) // 2, "hello-half-reset": len(hello) // 2, "stall-0": 0, "stall-1": 1,
                 "stall-half": len(hello) // 2, "stall-allbut1": len(hello) - 1}[fault]
            if k:
                evs.append(Ev(f"F:hello[:{k}]", put(hello[:k])))
            if fault == "hello-half-eof":
                evs.append(Ev("F:eof", lambda: eof_socket(fsock)))
            elif fault == "hello-half-reset":
                evs.append(Ev("F:reset", lambda: reset_socket(fsock)))
        return evs
    # flight2: a valid ClientHello; once the server's flight is there, the client's second flight is replaced
    peer, hello = client_hello(version)
    st["hello_len"] = len(hello)
    evs.append(Ev("F:hello", put(hello)))

    def second() -> None:
        if fsock.closed_flag:
            return  # (the explorer let the handshake timeout fire before the ClientHello: nothing left to break)
        peer.feed(bytes(fsock.tx.total))
        good = peer.out.read()
        st["flight2_len"] = len(good)
        if fault == "flight2-garbage":
            put(GARBAGE)()
        elif fault == "flight2-corrupt":
            put(good[:-1] + bytes([good[-1] ^ 0x55]))()
        elif fault == "flight2-eof":
            eof_socket(fsock)
        elif fault == "flight2-reset":
            reset_socket(fsock)
        elif fault == "flight2-allbut1-stall":
            put(good[:-1])()
        # flight2-stall: silence

    evs.append(Ev("F:flight2", second, gate=lambda: len(fsock.tx.total) > 0 or fsock.closed_flag))
    return evs


# ---------------------------------------------------------------------------------------------------------
# one execution


def run(ctx: Ctx, cfg: dict) -> dict:
    world = World(ctx, horizon=HORIZON)
    script = Script(world, ctx, place=True, place_costed=True, lane_costed=True, idle_rr=True)
    net = Net(world, script)
    rec = Recorder(world, script)
    serializer = StringLineSerializer()
    proto: Any = StreamProtocol(serializer) if cfg["proto"] == "copy" else BufferedStreamProtocol(serializer)
    version, nh = cfg["version"], cfg["healthy"]
    out: dict = {}
    holder: dict = {}
    st: dict = {}
    healthy = [TLSClient(net, f"H{i}", H_PORT + i, version, nreq=2) for i in range(1, nh + 1)]
    late = TLSClient(net, "H9", H_PORT + 9, version, nreq=1)

    async def main(loop: Any) -> None:
        backend = RigBackend(world)
        server = AsyncTCPNetworkServer(None, 0, proto, Handler(rec), backend=backend, ssl=tlsrig.lib_context(version, "server"),
                                       ssl_handshake_timeout=HS_TIMEOUT, ssl_shutdown_timeout=SHUTDOWN_TIMEOUT, logger=quiet_logger())
        task = holder["task"] = net.serve_task = loop.create_task(server.serve_forever())
        out["up"] = await wait_until(server.is_serving)
        lsock = backend.tcp_listener_socks[0]
        # phase 1: the faulty connection and the healthy clients, interleaved
        script.lane(faulty_lane(cfg, net, lsock, st))
        for h in healthy:
            script.lane(h.lane(lsock))
        script.start(loop)
        await script.quiescent()
        fsock = st["fsock"]
        out["serving1"] = server.is_serving() and not task.done()
        out["f_closed"] = fsock.closed_flag
        out["open1"] = sorted(s.tag for s in world.open_sockets() if s is not late.sock)  # (H9's socket exists, not yet connected)
        # phase 2: a brand-new client is served
        script.lane(late.lane(lsock))
        await script.quiescent()
        out["serving2"] = server.is_serving() and not task.done()
        out["closed2"] = {c.tag: c.sock.closed_flag for c in healthy + [late]}
        out["alive"] = sorted(str(v) for v in rec.alive.values())
        if task.done() and not task.cancelled():
            out["serve_exc"] = repr(task.exception())[:400]
        net.shutting_down = True
        await server.shutdown()
        try:
            await task
            out["serve_result"] = "returned"
        except BaseException as exc:  # noqa: BLE001
            out["serve_result"] = "raised " + repr(exc)[:300]
        await server.server_close()
        out["open_after"] = sorted(s.tag for s in world.open_sockets())

    status, value, loop = vloop.run(world, main)
    out["status"] = status if status != "exc" else "exc:" + repr(value)[:300]
    out["log"] = list(rec.log)
    out["overlap"] = list(rec.overlap)
    out["applied"] = [(a, round(t, 6), s) for a, t, s in script.applied]
    out["pending"] = [lane[0].label for lane in script.lanes if lane]
    out["placed_busy"] = script.placed_busy
    out["waits"] = script.waits
    out["clients"] = {
        c.tag: {"handshaken": c.peer.handshaken, "received": bytes(c.peer.received), "expected": c.expected(),
                "events": [e for e in c.peer.events if e[0] != "data"], "t": {k: round(v, 6) for k, v in c.t.items()}}
        for c in net.clients
    }
    fsock = st.get("fsock")
    t_conn = st.get("t_connect")
    if t_conn is None and "fclient" in st:
        t_conn = st["fclient"].t.get("connect")
    out["f"] = {"t_connect": None if t_conn is None else round(t_conn, 6),
                "closed_at": None if fsock is None or fsock.closed_at is None else round(fsock.closed_at, 6),
                "closed": bool(fsock is not None and fsock.closed_flag), "hello_len": st.get("hello_len"), "flight2_len": st.get("flight2_len"),
                "server_sent": 0 if fsock is None else len(fsock.tx.total)}
    out.setdefault("f_closed", out["f"]["closed"])
    out["end_clock"] = round(world.clock, 6)
    out["dying"] = None if net.dying is None else round(net.dying, 6)
    out["unhandled"] = [u.get("exception") or u.get("message") for u in vloop.collect_unhandled(loop)]
    out["unhandled_msgs"] = [str(u.get("message")) for u in loop.unhandled]
    t = holder.get("task")
    if t is not None and t.done() and not t.cancelled() and "serve_exc" not in out:
        out["serve_exc"] = repr(t.exception())[:400]
    tlsrig.gc_tick()
    return out


# ---------------------------------------------------------------------------------------------------------
# oracle


def oracle(cfg: dict, obs: dict) -> tuple[str | None, str]:
    log = obs.get("log", [])
    fault = cfg["fault"]
    tags = [f"H{i}" for i in range(1, cfg["healthy"] + 1)]
    ctx_txt = f"events={[a for a, _t, _s in obs.get('applied', [])]} log={log}"
    if obs.get("dying") is not None:
        return "server-stopped-by-client-failure", (f"serve_forever() was cancelled / ended at t={obs['dying']} while clients were being served; serve task: "
                                                    f"{obs.get('serve_exc')}; status={obs['status']}; events never applied: {obs.get('pending')}; {ctx_txt}")
    if obs["status"] != "ok":
        st = obs["status"].split(":")[0]
        if st == "deadlock" and obs.get("serve_exc"):
            return "server-stopped-by-client-failure", f"serve_forever() died with {obs['serve_exc']}; events never applied: {obs.get('pending')}; {ctx_txt}"
        for tag in tags + ["H9"]:
            c = obs["clients"][tag]
            if c["received"] != c["expected"] and any(e[0] in ("close_notify", "raw-eof", "read-error", "hs-error") for e in c["events"]) and not obs.get("serve_exc"):
                return "healthy-client-connection-ended-by-server", f"{tag}: peer events {c['events']}, received {c['received']!r}; {ctx_txt}"
        if st == "deadlock":
            waiting = {tag: c["t"] for tag, c in obs["clients"].items()}
            return "hang", (f"nothing can run any more and no timer is pending; events never applied: {obs.get('pending')} (a healthy client never got its "
                            f"response, F's connection is never given up, or shutdown hangs); F: {obs['f']}; client instants: {waiting}; {ctx_txt}")
        if st == "horizon":
            return "livelock", f"{obs['status']} {ctx_txt}"
        return "execution-raised-" + obs["status"][4:].split("(")[0], f"{obs['status']} {ctx_txt}"
    if not obs.get("up"):
        return "server-not-up", ""
    if not obs["serving1"]:
        return "server-stopped-by-client-failure", f"serve_forever() is not running any more after the faulty connection ended; serve task: {obs.get('serve_exc')} {ctx_txt}"
    if not obs["serving2"]:
        return "server-stopped-later", f"serve_forever() is not running at the end; serve task: {obs.get('serve_exc')} {ctx_txt}"
    for tag in tags + ["H9"]:
        c = obs["clients"][tag]
        t = c["t"]
        if not c["handshaken"]:
            return "healthy-client-handshake-failed", f"{tag}: peer events {c['events']}; {ctx_txt}"
        if c["received"] != c["expected"]:
            return "healthy-client-missed-a-response", f"{tag} received {c['received']!r}, expected {c['expected']!r}; peer events {c['events']}; {ctx_txt}"
        bad = [e for e in c["events"] if e[0].endswith("error")]
        if bad:
            return "healthy-client-tls-error", f"{tag}: {bad}; {ctx_txt}"
        if ("close_notify",) not in c["events"]:
            return "healthy-client-no-close_notify-from-server", f"{tag}: peer events {c['events']}; {ctx_txt}"
        hooks = [e[1] for e in log if e[0] == tag and e[1] in ("conn", "disc")]
        if hooks != ["conn", "disc"]:
            return "healthy-client-hooks-wrong", f"{tag}: hooks {hooks}; {ctx_txt}"
        reqs = [e[2] for e in log if e[0] == tag and e[1] == "req"]
        if reqs != [f"{tag.lower()}r{k}" for k in range(1, len(reqs) + 1)] or len(reqs) != c["expected"].count(b"\n"):
            return "healthy-client-requests-wrong", f"{tag}: handler saw {reqs}; {ctx_txt}"
        if not obs["closed2"][tag]:
            return "healthy-client-socket-not-closed-after-close_notify", f"{tag}; {ctx_txt}"
        thrown = [e for e in log if e[0] == tag and e[1] in ("thrown", "send-raised")]
        if thrown:
            return "exception-thrown-into-healthy-handler", f"{thrown}; {ctx_txt}"
        # latency: nothing but F's timers lies ahead, so a step that takes "long" waited for one of them
        steps = [("connect", "hs")] + [(f"req{k}", f"resp{k}") for k in range(1, c["expected"].count(b"\n") + 1)] + [("close", "close_notify")]
        for a, b in steps:
            if a in t and b in t and t[b] - t[a] > LATENCY:
                return "healthy-client-blocked-behind-faulty-connection", (f"{tag}: {a} at t={t[a]} -> {b} at t={t[b]} (virtual seconds; handshake timeout of the "
                                                                            f"server {HS_TIMEOUT}, F: {obs['f']}); {ctx_txt}")
    f = obs["f"]
    if not obs["f_closed"]:
        return "faulty-connection-socket-not-closed", f"open sockets after phase 1: {obs['open1']}; F: {f}; {ctx_txt}"
    want_open = ["listener"]
    if obs["open1"] != want_open:
        return "open-sockets-differ", f"after phase 1: open={obs['open1']}, expected {want_open}; {ctx_txt}"
    if f["t_connect"] is None or f["closed_at"] is None:
        return "harness-no-close-time", f"{f}"
    dt = f["closed_at"] - f["t_connect"]
    if FAULTS[fault] != "post" and dt > HS_TIMEOUT + EPSILON:
        # whatever the fault, a connection whose handshake never completes is given up ssl_handshake_timeout after its accept
        return "unfinished-handshake-closed-too-late", f"F connected at t={f['t_connect']}, closed at t={f['closed_at']} (ssl_handshake_timeout={HS_TIMEOUT}); {ctx_txt}"
    if fault in STALLS and dt < HS_TIMEOUT - EPSILON:
        return "stalled-handshake-closed-before-the-timeout", f"F connected at t={f['t_connect']}, closed at t={f['closed_at']} (ssl_handshake_timeout={HS_TIMEOUT}); {ctx_txt}"
    if FAULTS[fault] == "post":
        cut = obs["clients"]["F"]["t"].get("cut")
        if cut is None:
            return "harness-cut-not-applied", f"{obs['clients']['F']}"
        if f["closed_at"] - cut > SHUTDOWN_TIMEOUT + EPSILON:
            return "cut-connection-closed-too-late", f"F cut at t={cut}, closed at t={f['closed_at']} (ssl_shutdown_timeout={SHUTDOWN_TIMEOUT}); {ctx_txt}"
    fh = [e[1] for e in log if e[0] == "F" and e[1] in ("conn", "disc")]
    if FAULTS[fault] == "post":
        if fh != ["conn", "disc"]:
            return "faulty-client-hooks-wrong-after-completed-handshake", f"F completed its handshake; hooks {fh}, expected [conn, disc]; {ctx_txt}"
        fr = [e[2] for e in log if e[0] == "F" and e[1] == "req"]
        if fr != ([] if fault == "hs-then-eof" else ["fr1"]):
            return "faulty-client-requests-wrong", f"handler saw {fr}; {ctx_txt}"
    else:
        if fh:
            return "on_connection-called-for-failed-handshake", f"F hooks {fh}; {ctx_txt}"
        if "F" in obs["clients"] and obs["clients"]["F"]["handshaken"]:
            return "harness-faulty-client-handshake-completed", f"{obs['clients']['F']}"
    if obs["overlap"]:
        return "two-generators-alive-for-one-client", f"{obs['overlap']}"
    if obs["alive"]:
        return "generator-left-suspended", f"{obs['alive']}; {ctx_txt}"
    if obs["serve_result"] != "returned":
        return "serve_forever-raised-at-shutdown", f"{obs['serve_result']}"
    if obs["open_after"]:
        return "socket-leak-after-shutdown", f"{obs['open_after']}"
    leaks = [m for m in obs["unhandled_msgs"] if "never retrieved" in m]
    if leaks:
        return "task-exception-never-retrieved", f"{leaks} {obs['unhandled']}; {ctx_txt}"
    return None, ""


# ---------------------------------------------------------------------------------------------------------
# enumeration


def scenarios(tier: str) -> list[dict]:
    """quick: every (version, fault) with 1 healthy client at deviation bound 2 and with 2 healthy clients at bound 1;
    thorough: 1 healthy client at bound 3 (and at bound 2 on the other receive path), 2 healthy clients at bound 2.
    The two receive paths of the server (StreamProtocol / BufferedStreamProtocol) alternate over the grid."""
    out = []
    for vi, version in enumerate(tlsrig.VERSIONS):
        for i, fault in enumerate(FAULTS):
            p, q = ("copy", "buf") if (i + vi) % 2 == 0 else ("buf", "copy")
            if tier == "quick":
                out.append({"version": version, "fault": fault, "healthy": 1, "proto": p, "bound": 2})
                out.append({"version": version, "fault": fault, "healthy": 2, "proto": q, "bound": 1})
            else:
                out.append({"version": version, "fault": fault, "healthy": 1, "proto": p, "bound": 3})
                out.append({"version": version, "fault": fault, "healthy": 2, "proto": q, "bound": 2})
                out.append({"version": version, "fault": fault, "healthy": 1, "proto": q, "bound": 2})
    return out


def jobs(tier: str) -> list[dict]:
    tlsrig.ensure_cert()
    sc = scenarios(tier)
    if tier == "quick":
        return [{"kind": "tls", "tier": tier, "cfgs": sc[i:i + 2]} for i in range(0, len(sc), 2)]  # ~5-10 s each
    big = [c for c in sc if c["bound"] == 3 or c["healthy"] == 2]
    small = [c for c in sc if not (c["bound"] == 3 or c["healthy"] == 2)]
    return [{"kind": "tls", "tier": tier, "cfgs": [c]} for c in big] + [{"kind": "tls", "tier": tier, "cfgs": small[i:i + 4]} for i in range(0, len(small), 4)]


def describe(cfg: dict) -> str:
    return f"tls{cfg['version']} fault={cfg['fault']} healthy_clients={cfg['healthy']} protocol={cfg['proto']}"


def stable(obs: dict) -> dict:
    """The part of an observation that must be identical in two executions with the same choices (an execution in which the
    server's task group died is only reproducible up to that point: see Net.env)."""
    return {k: v for k, v in obs.items() if k not in ("unhandled", "unhandled_msgs")}


MAX_RUNS = 60000


def run_job(job: dict) -> JobResult:
    res = JobResult()
    for cfg in job["cfgs"]:
        # determinism: the default execution twice
        a, b = stable(run(Ctx(), cfg)), stable(run(Ctx(), cfg))
        res.count("determinism_guard_runs", 2)
        if a != b and a.get("dying") is None and b.get("dying") is None:
            diff = [k for k in a if a[k] != b.get(k)]
            res.internal.append(f"{describe(cfg)}: two default executions differ in {diff}: {[(a[k], b.get(k)) for k in diff][:2]!r}"[:1500])
            continue
        found: dict[str, tuple[Ctx, dict, str]] = {}

        def check(ctx: Ctx, obs: dict, cfg: dict = cfg, found: dict = found) -> None:
            res.evaluations += 1
            sym, msg = oracle(cfg, obs)
            if sym is None:
                fh = [e[1] for e in obs["log"] if e[0] == "F" and e[1] in ("conn", "disc")]
                res.outcome(f"ok:{FAULTS[cfg['fault']]}:faulty-hooks={'+'.join(fh) or 'none'}:{'timer-first' if obs['waits'] else 'events-first'}")
                if obs["placed_busy"]:
                    res.count("executions_with_busy_placement")
                if obs["unhandled"]:
                    res.count("executions_with_loop_exception_handler_calls")
            else:
                res.outcome("VIOLATION:" + sym)
                if sym not in found or len(ctx.choices) < len(found[sym][0].choices):
                    found[sym] = (ctx, obs, msg)
            if any(ctx.choices):
                shape = tuple((a, s) for a, _t, s in obs["applied"])
                res.nontrivial.add(digest((describe(cfg), obs["log"], tuple(a for a, _s in shape), obs["waits"])))

        stats = explore(lambda ctx, cfg=cfg: run(ctx, cfg), bound=cfg["bound"], check=check, max_runs=MAX_RUNS)
        res.transitions += stats["points"]
        res.count("scenarios")
        if stats["cap_hit"]:
            res.caps.append(f"tls: max_runs={MAX_RUNS}")
        for sym, (ctx, obs, msg) in found.items():
            key = f"tls/{cfg['fault']}/{sym}"
            if not any(v.key == key for v in res.violations):
                res.violations.append(Violation(key, f"{describe(cfg)}: {msg} | choices={ctx.choices}"[:3000],
                                                {"kind": "tls", "cfg": cfg, "choices": list(ctx.choices), "labels": [p[1] for p in ctx.points]}))
        if len(res.samples) < 1:
            res.samples.append({"kind": "tls-listener", "scenario": describe(cfg), "executions": stats["runs"], "choice_points_max": stats["max_depth"],
                                "deviation_bound": cfg["bound"], "default_event_order": [x[0] for x in a["applied"]]})
    return res


def replay(doc: dict) -> tuple[bool, str]:
    rp = doc["replay"]
    cfg = rp["cfg"]
    ctx = Ctx(rp["choices"])
    obs = run(ctx, cfg)
    sym, msg = oracle(cfg, obs)
    lines = [describe(cfg), f"choices={rp['choices']}", "labels=" + ",".join(p[1] for p in ctx.points),
             f"events applied (label, virtual time, select#)={obs['applied']}", f"status={obs['status']}", "hook log:"]
    lines += [f"  {e}" for e in obs["log"]]
    for tag, c in obs["clients"].items():
        lines.append(f"client {tag}: handshaken={c['handshaken']} received={c['received']!r} events={c['events']} t={c['t']}")
    for k in ("f", "serving1", "serving2", "f_closed", "open1", "closed2", "serve_exc", "serve_result", "open_after", "unhandled", "unhandled_msgs", "end_clock"):
        if k in obs:
            lines.append(f"{k}={obs[k]!r}")
    lines.append(f"oracle: {sym} {msg}")
    return sym is not None, "\n".join(lines)


def selftest(tier: str = "quick") -> list[str]:
    """Every scenario twice under the default choices: equal observations, and silent oracle.  -> list of problems."""
    problems = []
    for cfg in scenarios(tier):
        a, b = run(Ctx(), cfg), run(Ctx(), cfg)
        if stable(a) != stable(b):
            problems.append(f"{describe(cfg)}: not deterministic: {[k for k in a if a[k] != b.get(k)]}")
        sym, msg = oracle(cfg, a)
        if sym is not None:
            problems.append(f"{describe(cfg)}: {sym}: {msg}")
    return problems
