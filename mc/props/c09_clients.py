"""C09 through the high-level clients with ``ssl=True`` (the context the clients build themselves: create_default_context()
with OP_IGNORE_UNEXPECTED_EOF cleared - clients/tcp.py, clients/async_tcp.py): the TLS peer sends one packet and then the
connection ends (a) after its close_notify, (b) without it, at every structural offset after the packet's record.
recv_packet #1 returns the packet; recv_packet #2 reports a clean end-of-stream in (a) only."""
from __future__ import annotations

import math
import os
import ssl
from typing import Any

from easynetwork.clients.async_tcp import AsyncTCPNetworkClient
from easynetwork.clients.tcp import TCPNetworkClient
from easynetwork.lowlevel.api_async.backend._asyncio.backend import AsyncIOBackend
from easynetwork.lowlevel import _utils as _lib_utils
from easynetwork.lowlevel.api_sync.transports import base_selector as _base_selector
from easynetwork.protocol import StreamProtocol
from easynetwork.serializers import StringLineSerializer

from .. import tlsrig, vloop
from ..core import Ctx, Deadlock, HorizonHit, JobResult, Violation, digest
from ..world import VSelector, World

PACKET = b"hello\n"


class _Shim:
    """`selectors` module stand-in for the blocking client: its default selector is the world's."""

    def __init__(self, world: World) -> None:
        import selectors as _s

        self.__dict__.update({k: getattr(_s, k) for k in dir(_s) if not k.startswith("_")})
        factory = lambda: VSelector(world)  # noqa: E731
        self.DefaultSelector = factory
        self.PollSelector = factory
        self.SelectSelector = factory


def _with_rig_ca(fn: Any, preset: bool = False) -> Any:
    """Run fn() with create_default_context() trusting the rig certificate; ``preset``: the context it returns already has
    OP_IGNORE_UNEXPECTED_EOF set (what CPython does on some builds), so that only the clients' own clearing removes it."""
    saved = os.environ.get("SSL_CERT_FILE")
    os.environ["SSL_CERT_FILE"] = tlsrig.CERT
    orig = ssl.create_default_context

    def create_default_context(*args: Any, **kwargs: Any) -> ssl.SSLContext:
        ctx = orig(*args, **kwargs)
        if preset:
            ctx.options |= ssl.OP_IGNORE_UNEXPECTED_EOF
        return ctx

    ssl.create_default_context = create_default_context  # type: ignore[assignment]
    try:
        return fn()
    finally:
        ssl.create_default_context = orig  # type: ignore[assignment]
        if saved is None:
            os.environ.pop("SSL_CERT_FILE", None)
        else:
            os.environ["SSL_CERT_FILE"] = saved


def _relay(cfg: dict) -> Any:
    script: list[tuple] = [("write", PACKET)]
    if cfg["unwrap"]:
        script.append(("unwrap",))
    return tlsrig.make_peer_and_relay(cfg["version"], "client", script=script, cut=cfg.get("cut"), cut_when="reached")


def _classify(exc: BaseException) -> tuple:
    """The clients turn both a clean end-of-stream and a TLS EOF error into ConnectionAbortedError(ECONNABORTED); what tells
    them apart for the caller is the exception chain: a truncation carries the TLS error as __cause__."""
    chain, e = [], exc
    while e is not None and len(chain) < 6:
        chain.append(e)
        e = e.__cause__ or e.__context__
    tls = [c for c in chain if isinstance(c, ssl.SSLError)]
    if tls:
        return ("error", type(exc).__name__, "tls:" + type(tls[0]).__name__)
    if isinstance(exc, ConnectionAbortedError):
        return ("end-of-stream",)
    return ("error", type(exc).__name__, None)


def run(cfg: dict) -> dict:
    world = World(Ctx(), horizon=20000)
    relay = _relay(cfg)
    out: dict[str, Any] = {"results": [], "status": "ok", "error": None}
    proto = StreamProtocol(StringLineSerializer())
    kw: dict[str, Any] = {"ssl": True, "server_hostname": tlsrig.HOSTNAME}
    if cfg["sc"] is not None:
        kw["ssl_standard_compatible"] = cfg["sc"]
    if cfg["subject"] == "blocking":
        link = tlsrig.BlockingLink(relay)
        relay.link = link
        world.env = relay.env
        world.install_clock()
        saved = _base_selector.selectors
        client = None
        try:
            _base_selector.selectors = _Shim(world)  # type: ignore[assignment]
            try:
                # the rig's deterministic pair is AF_UNIX: the client's "AF_INET / AF_INET6 only" argument check is bypassed in this
                # process only (nothing in /repo is edited); the addresses are never asked for
                saved_check = _lib_utils.check_socket_family
                _lib_utils.check_socket_family = lambda family: None  # type: ignore[assignment]
                try:
                    client = _with_rig_ca(lambda: TCPNetworkClient(link.lib_sock, proto, retry_interval=math.inf, **kw), cfg["preset"])
                finally:
                    _lib_utils.check_socket_family = saved_check  # type: ignore[assignment]
                for _ in range(2):
                    try:
                        out["results"].append(("packet", client.recv_packet(timeout=None)))
                    except Exception as exc:  # noqa: BLE001
                        out["results"].append(_classify(exc))
            except Deadlock as exc:
                out["status"], out["error"] = "deadlock", str(exc)
            except HorizonHit as exc:
                out["status"], out["error"] = "horizon", str(exc)
            except Exception as exc:  # noqa: BLE001
                out["status"], out["error"] = "exc", type(exc).__name__ + ": " + str(exc)[:160]
        finally:
            _base_selector.selectors = saved  # type: ignore[assignment]
            world.restore_clock()
            if client is not None:
                try:
                    client.close()
                except Exception:  # noqa: BLE001
                    pass
            link.close()
    else:
        sock = world.stream_socket()
        relay.link = tlsrig.FakeSocketLink(relay, sock)
        world.env = relay.env

        async def main(loop: Any) -> None:
            client = _with_rig_ca(lambda: AsyncTCPNetworkClient(sock, proto, AsyncIOBackend(), **kw), cfg["preset"])
            await client.wait_connected()
            for _ in range(2):
                try:
                    out["results"].append(("packet", await client.recv_packet()))
                except Exception as exc:  # noqa: BLE001
                    out["results"].append(_classify(exc))
            try:
                await client.aclose()
            except Exception:  # noqa: BLE001
                pass

        status, value, _loop = vloop.run(world, main)
        out["status"] = status
        out["error"] = None if status == "ok" else repr(value)[:160]
    out["delivered"] = relay.delivered_to_lib
    out["records"] = list(relay.records)
    tlsrig.gc_tick()
    return out


def expected(cfg: dict) -> str:
    sc = cfg["sc"] is not False  # standard-compatible unless explicitly disabled
    clean = cfg["unwrap"] and (cfg["cut"] is None or cfg["cut"] >= cfg["end_cn"])
    if clean or not sc:
        return "end-of-stream"
    return "error"


def oracle(cfg: dict, obs: dict) -> str | None:
    if obs["status"] != "ok":
        return "hang-or-crash:" + obs["status"]
    res = obs["results"]
    if len(res) != 2 or res[0] != ("packet", "hello"):
        return "first-packet-not-delivered"
    got = res[1][0]
    if got == "packet":
        return "phantom-packet"
    exp = expected(cfg)
    if exp == "error" and got == "end-of-stream":
        return "truncation-reported-as-clean-end-of-stream"
    if exp == "end-of-stream" and got != "end-of-stream":
        return "clean-close-reported-as-error" if cfg["sc"] is not False else "abrupt-end-not-reported-as-end-of-stream-without-standard-compatible"
    return None


def layout(cfg: dict) -> dict:
    """Offsets of the uncut peer->library stream: end of the packet's record, end of the stream."""
    obs = run(dict(cfg, unwrap=True, cut=None))
    recs = obs["records"]
    app = [r for r in recs if r[2] == 23]
    return {"records": recs, "delivered": obs["delivered"], "app": app}


def jobs(tier: str) -> list[dict]:
    tlsrig.ensure_cert()
    return [{"kind": "clients", "subject": s, "version": v, "preset": p, "tier": tier} for s in ("blocking", "async") for v in tlsrig.VERSIONS for p in (False, True)]


def run_job(job: dict) -> JobResult:
    res = JobResult()
    base = {"subject": job["subject"], "version": job["version"], "preset": job["preset"]}
    for sc in (None, True, False):
        cfg0 = dict(base, sc=sc, unwrap=True, cut=None, end_cn=0)
        lay = layout(cfg0)
        recs = lay["records"]
        if len(recs) < 2 or recs[-1][2] not in (21, 23):
            res.internal.append(f"unexpected record layout {recs}")
            continue
        # last record = the peer's close_notify (alert, or application-data typed under TLS 1.3); the one before carries the packet
        pkt_end = recs[-2][1]
        start_cn, end_cn = recs[-1][0], recs[-1][1]
        if pkt_end != start_cn or lay["delivered"] != end_cn:
            res.internal.append(f"unexpected record layout {recs} delivered={lay['delivered']}")
            continue
        cuts = sorted({start_cn + 1, start_cn + 5, end_cn - 1} if job["tier"] == "quick" else set(range(start_cn + 1, end_cn)))
        cases = [dict(cfg0, end_cn=end_cn), dict(base, sc=sc, unwrap=False, cut=pkt_end, end_cn=end_cn), dict(base, sc=sc, unwrap=True, cut=pkt_end, end_cn=end_cn)]
        cases += [dict(base, sc=sc, unwrap=True, cut=c, end_cn=end_cn) for c in cuts]
        for cfg in cases:
            obs = run(cfg)
            res.evaluations += 1
            res.transitions += 2
            bad = oracle(cfg, obs)
            res.outcome(f"{job['subject']}-{obs['results'][1][0] if len(obs['results']) == 2 else obs['status']}" if bad is None else "VIOLATION:" + bad)
            if cfg.get("cut") is not None:
                res.nontrivial.add(digest((job["subject"], job["version"], job["preset"], sc, cfg["cut"], tuple(obs["results"]))))
            key = f"clients/{job['subject']}/sc={sc}/{bad}"
            if bad and not any(v.key == key for v in res.violations):
                res.violations.append(Violation(key, f"{cfg}: results={obs['results']} status={obs['status']} {obs['error']} (records of the uncut stream: {recs})",
                                                {"kind": "clients", "cfg": cfg}))
    res.samples.append({"kind": "clients-default-context", **base})
    return res


def replay(doc: dict) -> tuple[bool, str]:
    cfg = doc["replay"]["cfg"]
    obs = run(cfg)
    bad = oracle(cfg, obs)
    return bad is not None, f"cfg={cfg}\nresults={obs['results']} status={obs['status']} {obs['error']}\noracle: {bad}"
