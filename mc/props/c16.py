"""C16 - Datagram server: per-client FIFO, one active handler, nothing dropped.

Subject: the REAL ``AsyncUDPNetworkServer`` (+ ``build_lowlevel_datagram_server_handler``) and the REAL low-level
``AsyncDatagramServer.serve`` over ``DatagramListenerSocketAdapter`` / ``DatagramListenerProtocol`` on a fake UDP socket, on
the virtual loop (E2).  One execution = one server and a sequence of numbered datagrams from two addresses; every arrival is
an environment event placed by the explorer at a loop-iteration boundary (default: when the loop idles), including "not
before the pending timer (handler sleep / yielded timeout) fired".  Handler shapes are enumerated.  The oracle is a reference
model per address (FIFO queue with one server) run in lockstep with what the handler generators observed.
"""
from __future__ import annotations

import gc
import itertools
from typing import Any

from easynetwork.exceptions import DatagramProtocolParseError
from easynetwork.lowlevel.api_async.servers.datagram import AsyncDatagramServer

from easynetwork.protocol import DatagramProtocol
from easynetwork.serializers.line import StringLineSerializer
from easynetwork.servers.async_udp import AsyncUDPNetworkServer
from easynetwork.servers.handlers import AsyncDatagramRequestHandler, INETClientAttribute

from .. import vloop
from ..core import Ctx, JobResult, Violation, digest, explore
from ..srvrig import Ev, Recorder, RigBackend, Script, quiet_logger, wait_until
from ..world import World

PROPERTY = "C16"
LEVEL = "exploration"
RULE = (
    "arrival orders: EVERY sequence of 1..4 (thorough 1..5) datagrams over two addresses A/B (datagrams numbered per address); "
    "placement of every arrival at a loop-iteration boundary: default when the loop idles, deviations = at a busy boundary / only "
    "after the pending timer fired (bound 1 quick, 2 thorough; ALL placements (free) for sequences of <= 3 (thorough <= 4) datagrams); handler "
    "shapes: k in {1, 2, inf} requests per generator x work per request in {0, 1, 2 checkpoints, sleep 1.0 s for address A} x "
    "yielded timeout in {None, 0.5} x raises ValueError (high-level API) or dies with CancelledError (both APIs) on request r in {none, A1, A2} x one malformed datagram at position "
    "{none, first, last}; APIs: AsyncUDPNetworkServer and low-level AsyncDatagramServer; plus bursts of 2 / 40 / 300 (thorough also 1100) datagrams read by the loop BEFORE serve() is awaited, alone or with further datagrams already in the socket when serve() starts (all delivered, per-address order); distinct_nontrivial = distinct "
    "(configuration class, handler log) pairs of executions with a non-default placement or with >= 2 datagrams"
)
ASSUMPTIONS = [
    "handlers always reach their first yield (documented precondition: a generator returning before it discards the datagram)",
    "an arrival never shares a loop iteration with the expiry of a yielded timeout or the end of a handler's sleep (withheld while a loop timer is due within 10 ms)",
    "the fake UDP socket delivers one datagram per readiness callback, in order, never drops; sendto never fails (C20 covers send errors)",
    "two addresses; the _ClientData start/restart logic is exercised through the real server only (no separate explicit-state model)",
]
BOUNDS = {"quick": "<= 4 datagrams, placement bound 1 (free for <= 3 datagrams)", "thorough": "<= 5 datagrams, placement bound 2 (free for <= 4 datagrams)"}

ADDR = {"A": ("127.0.0.1", 40001), "B": ("127.0.0.1", 40002)}
PORT2 = {40001: "A", 40002: "B"}
TAU = 0.5
SLEEP = 1.0
TOL = 0.010
PROMPT = 0.005
HORIZON = 4000


class Shape:
    def __init__(self, cfg: dict) -> None:
        self.k = cfg.get("k", 0)
        self.work = cfg.get("work", 0)  # 0/1/2 checkpoints or "sleep"
        self.tau = cfg.get("tau")
        self.raise_on = cfg.get("raise_on")  # e.g. "A1"
        self.raise_exc = cfg.get("raise_exc", "ValueError")  # "Cancelled": the generator dies with CancelledError (e.g. it awaited a future somebody cancelled)
        self.api = cfg["api"]


class Body:
    def __init__(self, rec: Recorder, script: Script, shape: Shape) -> None:
        self.rec = rec
        self.script = script
        self.shape = shape
        self.phase = "run"

    async def gen(self, client: Any, addr: str):
        import asyncio

        rec, shape = self.rec, self.shape
        g = rec.gen_start("h", addr)
        rec.add(addr, "gen-start")
        first = True
        try:
            n = 0
            while not shape.k or n < shape.k:
                n += 1
                y = rec.yield_begin(g, shape.tau)
                y["addr"] = addr
                y["first"] = first
                first = False
                try:
                    req = yield shape.tau
                except TimeoutError:
                    rec.yield_end(y, "timeout")
                    rec.add(addr, "timeout")
                    return  # UDP has no disconnect: a handler that timed out gives up (else the run never ends)
                except DatagramProtocolParseError:
                    rec.yield_end(y, "item")
                    rec.add(addr, "err")
                    continue
                except GeneratorExit:
                    rec.yield_end(y, "exit")
                    rec.gen_exit(g)
                    rec.add(addr, "gen-exit", self.phase)
                    raise
                except asyncio.CancelledError:
                    rec.yield_end(y, "cancelled")
                    rec.add(addr, "cancelled", self.phase)
                    raise
                except BaseException as exc:
                    rec.yield_end(y, "other")
                    rec.add(addr, "thrown", type(exc).__name__)
                    raise
                rec.yield_end(y, "item")
                rec.add(addr, "req", req)
                if shape.raise_on == req and shape.raise_exc != "Cancelled":
                    rec.add(addr, "raise")
                    raise ValueError("handler failure on " + str(req))
                if shape.work == "sleep":
                    if addr == "A":
                        await asyncio.sleep(SLEEP)
                else:
                    for _ in range(shape.work):
                        await asyncio.sleep(0)
                if shape.raise_on == req:
                    # the work of this request ends with a CancelledError (it awaited something that somebody cancelled): later
                    # datagrams of this address may already be queued
                    rec.add(addr, "raise")
                    raise asyncio.CancelledError("future awaited by the handler was cancelled")
                await client.send_packet("ok:" + str(req))
        finally:
            rec.gen_final(g)
            rec.add(addr, "gen-final")


class HLHandler(AsyncDatagramRequestHandler):
    def __init__(self, body: Body) -> None:
        self.body = body

    def handle(self, client: Any) -> Any:
        port = client.extra(INETClientAttribute.remote_address).port
        return self.body.gen(client, PORT2[port])


class LLClient:
    """send_packet() of the low-level context (server.send_packet_to)"""

    def __init__(self, ctx: Any) -> None:
        self.ctx = ctx

    async def send_packet(self, packet: Any) -> None:
        await self.ctx.server.send_packet_to(packet, self.ctx.address)


def payload_of(addr: str, i: int, bad: bool) -> bytes:
    return b"\xff" + addr.encode() if bad else f"{addr}{i}".encode()


def arrivals_of(cfg: dict) -> list[tuple[str, int, bool]]:
    """[(address, number within its address, malformed?)] in arrival order"""
    out = []
    cnt = {"A": 0, "B": 0}
    for pos, a in enumerate(cfg["seq"]):
        cnt[a] += 1
        out.append((a, cnt[a], cfg.get("bad") == pos))
    return out


def run_one(ctx: Ctx, cfg: dict) -> dict:
    import asyncio

    world = World(ctx, horizon=HORIZON)
    pl = cfg.get("place", "costed")
    script = Script(world, ctx, place=pl != "none", place_costed=pl != "free", lane_costed=pl != "free", max_waits=cfg.get("max_waits", 2))
    rec = Recorder(world, script)
    shape = Shape(cfg)
    body = Body(rec, script, shape)
    proto = DatagramProtocol(StringLineSerializer())
    arrivals = arrivals_of(cfg)
    out: dict = {}

    async def main(loop: Any) -> None:
        backend = RigBackend(world)
        quiet_logger()
        if cfg["api"] == "hl":
            server = AsyncUDPNetworkServer(None, 0, proto, HLHandler(body), backend=backend, logger=quiet_logger())
            task = loop.create_task(server.serve_forever())
            up = await wait_until(server.is_serving)
        else:
            (listener,) = await backend.create_udp_listeners(None, 0)
            ll = AsyncDatagramServer(listener, proto)

            def cb(c: Any) -> Any:
                return body.gen(LLClient(c), PORT2[c.address[1]])

            task = loop.create_task(ll.serve(cb))
            await asyncio.sleep(0)
            up = True
        out["up"] = up
        usock = backend.udp_listener_socks[0]
        events = []
        for i, (a, num, bad) in enumerate(arrivals):
            events.append(Ev(f"dg{i}", (lambda p=payload_of(a, num, bad), ad=ADDR[a]: usock.rxd.append((p, ad)))))
        script.lane(events)
        script.start(loop)
        await script.quiescent()
        out["serving"] = server.is_serving() if cfg["api"] == "hl" else not task.done()
        out["task_done"] = task.done()
        if task.done() and not task.cancelled():
            out["serve_exc"] = repr(task.exception())[:400]
        out["alive_q"] = sorted(v[1] for v in rec.alive.values())
        out["txd"] = [(bytes(d), PORT2.get(ad[1], "?")) for d, ad in usock.txd]
        out["rx_left"] = len(usock.rxd)
        out["iterations"] = loop.iterations
        out["nlog_q"] = len(rec.log)
        body.phase = "shutdown"
        if cfg["api"] == "hl":
            await server.shutdown()
            try:
                await task
                out["serve_result"] = "returned"
            except BaseException as exc:  # noqa: BLE001
                out["serve_result"] = "raised " + repr(exc)[:200]
            await server.server_close()
        else:
            task.cancel()
            try:
                await task
                out["serve_result"] = "returned"
            except asyncio.CancelledError:
                out["serve_result"] = "returned"
            except BaseException as exc:  # noqa: BLE001
                out["serve_result"] = "raised " + repr(exc)[:200]
            await ll.aclose()
        out["alive_end"] = sorted(v[1] for v in rec.alive.values())
        out["open_after"] = [s.tag for s in world.open_sockets()]

    status, value, loop = vloop.run(world, main)
    out["status"] = status if status != "exc" else "exc:" + repr(value)[:300]
    out["log"] = list(rec.log)
    out["yields"] = rec.yields
    out["overlap"] = list(rec.overlap)
    out["exits"] = dict(rec.exits)
    out["finals"] = dict(rec.finals)
    out["applied"] = list(script.applied)
    out["placed_busy"] = script.placed_busy
    out["waits"] = script.waits
    out["unhandled"] = [u.get("exception") or u.get("message") for u in vloop.collect_unhandled(loop)]
    return out


# ---------------------------------------------------------------------------------------------------------
# oracle


def oracle(cfg: dict, obs: dict) -> tuple[str | None, str, dict]:
    notes: dict = {"near-deadline": 0, "b_while_a_parked": 0, "timeouts": 0, "restarts": 0}
    if obs["status"] != "ok":
        sym = {"deadlock": "hang", "horizon": "livelock"}.get(obs["status"].split(":")[0], "execution-raised-" + obs["status"][4:].split("(")[0])
        if "inconsistent state" in obs["status"]:
            sym = "inconsistent-state-RuntimeError"
        return sym, f"status={obs['status']} log={obs.get('log')}", notes
    if not obs.get("up"):
        return "server-not-up", "", notes
    shape = Shape(cfg)
    arrivals = arrivals_of(cfg)
    applied = {lab: (k + 1, t) for k, (lab, t, _s) in enumerate(obs["applied"])}
    per: dict[str, list] = {"A": [], "B": []}
    for i, (a, num, bad) in enumerate(arrivals):
        seq, t = applied.get(f"dg{i}", (10 ** 9, float("inf")))
        per[a].append({"value": None if bad else f"{a}{num}", "seq": seq, "t": t})
    if obs["overlap"]:
        return "two-generators-alive-for-one-address", f"{obs['overlap']} log={obs['log']}", notes
    if "inconsistent state" in str(obs.get("serve_exc")):
        return "inconsistent-state-RuntimeError", f"serve task died with {obs.get('serve_exc')} log={obs['log']}", notes
    if not obs["serving"] or obs["task_done"]:
        return "server-stopped", f"serve task exception={obs.get('serve_exc')} " + f"serving={obs['serving']} serve task done={obs['task_done']} unhandled={obs['unhandled']} log={obs['log']}", notes
    # lockstep per address
    a_parked: list[tuple[float, float]] = []  # intervals during which A's handler sleeps
    seen_at: dict[str, list[float]] = {"A": [], "B": []}
    for addr in ("A", "B"):
        arr = per[addr]
        n = 0
        finish_prev = 0.0
        ys = [y for y in obs["yields"] if y.get("addr") == addr]
        for yi, y in enumerate(ys):
            seen = y["outcome"]
            if seen in ("cancelled", "exit") or seen is None:
                # parked at quiescence, woken by the shutdown: legitimate only if nothing was pending for this address
                if n < len(arr):
                    return "datagram-never-handled", f"address {addr}: {len(arr) - n} datagram(s) still unhandled when the handler was parked/cancelled; log={obs['log']}", notes
                if y["tau"] is not None and not y["first"]:
                    return "missing-timeout", f"address {addr}: a yield with timeout {y['tau']} at t={y['t']:.4f} never timed out; log={obs['log']}", notes
                if yi != len(ys) - 1:
                    return "generator-closed-early", f"address {addr}: yield #{yi} resumed with {seen} although later yields exist; log={obs['log']}", notes
                continue
            nxt = arr[n] if n < len(arr) else None
            if y["first"]:
                want = "item"
                if nxt is None:
                    return "generator-started-without-datagram", f"address {addr}: a generator reached its first yield although every datagram of that address was already handled; log={obs['log']}", notes
            elif nxt is None:
                want = "timeout" if y["tau"] is not None else "parked"
            elif y["tau"] is None:
                want = "item"
            else:
                deadline = y["t"] + y["tau"]
                if nxt["seq"] <= y["seq"] or nxt["t"] < deadline - TOL:
                    want = "item"
                elif nxt["t"] > deadline + TOL:
                    want = "timeout"
                else:
                    notes["near-deadline"] += 1
                    want = seen if seen in ("item", "timeout") else "item"
            if seen != want:
                sym = {("item", "timeout"): "spurious-timeout", ("timeout", "item"): "missing-timeout", ("parked", "item"): "phantom-datagram",
                       ("parked", "timeout"): "spurious-timeout"}.get((want, seen), f"yield-resumed-with-{seen}-instead-of-{want}")
                return sym, f"address {addr}: yield #{yi} (timeout={y['tau']}, t={y['t']:.4f}) resumed with {seen!r} at t={(y['t_resume'] or 0):.4f}, reference says {want!r}; log={obs['log']}", notes
            if seen == "timeout":
                notes["timeouts"] += 1
                if abs(y["t_resume"] - (y["t"] + y["tau"])) > 0.002:
                    return "timeout-at-wrong-time", f"address {addr}: yield at t={y['t']:.4f} timeout={y['tau']} resumed with TimeoutError at t={y['t_resume']:.4f}", notes
                continue
            # an item: which one did the handler see?  (read from the log: the k-th req/err entry of this address)
            n += 1
            start = max(nxt["t"], finish_prev)
            if y["t_resume"] > start + PROMPT:
                return "datagram-handled-late", (f"address {addr}: datagram #{n} arrived at t={nxt['t']:.4f}, the previous request of that address was finished at "
                                                  f"t={finish_prev:.4f}, but it reached the handler only at t={y['t_resume']:.4f}; log={obs['log']}"), notes
            seen_at[addr].append(y["t_resume"])
            work = SLEEP if (shape.work == "sleep" and addr == "A" and nxt["value"] is not None and (shape.raise_on != nxt["value"] or shape.raise_exc == "Cancelled")) else 0.0
            if work:
                a_parked.append((y["t_resume"], y["t_resume"] + work))
            finish_prev = y["t_resume"] + work
        if n != len(arr):
            return "datagram-never-handled", f"address {addr}: {len(arr) - n} of {len(arr)} datagram(s) never reached a handler; log={obs['log']}", notes
        # values in arrival order, exactly once
        got = [e[2] if e[1] == "req" else None for e in obs["log"] if e[0] == addr and e[1] in ("req", "err")]
        want_vals = [d["value"] for d in arr]
        if got != want_vals:
            sym = "duplicate-datagram" if len(got) > len(want_vals) else ("datagram-lost" if len(got) < len(want_vals) else "datagrams-out-of-order")
            return sym, f"address {addr}: handlers saw {got}, arrival order was {want_vals}; log={obs['log']}", notes
    for t in seen_at["B"]:
        if any(lo < t < hi - 1e-3 for lo, hi in a_parked):
            notes["b_while_a_parked"] += 1
    # responses: one per valid request that did not raise, per address in order
    for addr in ("A", "B"):
        want_tx = [("ok:" + d["value"]).encode() for d in per[addr] if d["value"] is not None and d["value"] != shape.raise_on]
        got_tx = [d for d, a in obs["txd"] if a == addr]
        # responses still owed at quiescence?  none: every handler finished its work before the loop idled
        if got_tx != want_tx:
            return "responses-differ", f"address {addr}: sent {got_tx}, reference {want_tx}", notes
    if obs["rx_left"]:
        return "datagram-left-in-socket", f"{obs['rx_left']} datagram(s) never read from the socket", notes
    if any(n != 1 for n in obs["finals"].values()) or any(n > 1 for n in obs["exits"].values()):
        return "generator-closed-twice-or-never", f"finals={obs['finals']} exits={obs['exits']} log={obs['log']}", notes
    if obs["alive_end"]:
        return "generator-left-suspended-after-shutdown", f"{obs['alive_end']}", notes
    if not str(obs.get("serve_result", "")).startswith("returned"):
        return "serve_forever-raised", f"{obs.get('serve_result')}", notes
    if obs["open_after"]:
        return "socket-leak-after-shutdown", f"{obs['open_after']}", notes
    notes["restarts"] = sum(1 for e in obs["log"] if e[1] == "gen-start") - len([a for a in ("A", "B") if per[a]])
    return None, "", notes


# ---------------------------------------------------------------------------------------------------------
# enumeration


def sequences(maxn: int) -> list[str]:
    return ["".join(p) for n in range(1, maxn + 1) for p in itertools.product("AB", repeat=n)]


def shapes(tier: str, api: str) -> list[dict]:
    out = []
    for k in (1, 2, 0):
        for work in (0, 1, 2, "sleep"):
            for tau in (None, TAU):
                for raise_on in ((None, "A1", "A2") if api == "hl" else (None,)):
                    if tier == "quick" and work == 2 and (tau is not None or raise_on):
                        continue
                    out.append({"k": k, "work": work, "tau": tau, "raise_on": raise_on, "raise_exc": "ValueError"})
                # the generator dies with CancelledError while handling a request (both APIs; quick: one request position)
                for raise_on in (("A1",) if tier == "quick" else ("A1", "A2")):
                    if tier == "quick" and (work == 2 or tau is not None):
                        continue
                    out.append({"k": k, "work": work, "tau": tau, "raise_on": raise_on, "raise_exc": "Cancelled"})
    return out


def configs(job: dict) -> Any:
    tier, api = job["tier"], job["api"]
    maxn = 4 if tier == "quick" else 5
    free_upto = 3 if tier == "quick" else 4
    bound = 1 if tier == "quick" else 2
    idx = 0
    for seq in sequences(maxn):
        for sh in shapes(tier, api):
            if sh["raise_on"] and seq.count("A") < int(sh["raise_on"][1]):
                continue  # the request it would fail on never arrives
            for bad in (None, 0, len(seq) - 1):
                if bad is not None and (bad == 0 and len(seq) == 1 and False):
                    continue
                if bad == len(seq) - 1 and len(seq) == 1:
                    continue  # same as bad == 0
                idx += 1
                if idx % job["parts"] != job["part"]:
                    continue
                free = len(seq) <= free_upto
                yield {"api": api, "seq": seq, **sh, "bad": bad, "place": "free" if free else "costed", "bound": 0 if free else bound, "max_waits": 2}


# ---------------------------------------------------------------------------------------------------------
# datagrams received before serve() is awaited (the listener exists, nobody serves yet): kept and delivered in order


def run_burst(cfg: dict) -> dict:
    import asyncio

    n = cfg["n"]
    world = World(Ctx(), horizon=60 * n + 2000)
    seen: dict[str, list[str]] = {"A": [], "B": []}
    out: dict = {}
    proto = DatagramProtocol(StringLineSerializer())

    async def main(loop: Any) -> None:
        backend = RigBackend(world)
        quiet_logger()
        (listener,) = await backend.create_udp_listeners(None, 0)
        usock = backend.udp_listener_socks[0]
        order = [("A" if (i % 3) else "B") for i in range(n)]
        cnt = {"A": 0, "B": 0}
        items = []
        for a in order:
            cnt[a] += 1
            items.append((f"{a}{cnt[a]}".encode(), ADDR[a]))
        early = items if not cfg.get("late") else items[: max(1, (2 * n) // 3)]
        usock.rxd.extend(early)
        for _ in range(4 * n):  # the loop reads them (one per readiness callback) while nobody serves
            if not usock.rxd:
                break
            await asyncio.sleep(0)
        out["read_before_serve"] = len(early) - len(usock.rxd)
        # "late": the rest is already in the socket when serve() starts (read in the very iterations in which the backlog is replayed)
        usock.rxd.extend(items[len(early):])
        ll = AsyncDatagramServer(listener, proto)

        async def handler(c: Any) -> Any:
            while True:
                seen[PORT2[c.address[1]]].append((yield))

        task = loop.create_task(ll.serve(handler))
        for _ in range(40 * n):
            if len(seen["A"]) + len(seen["B"]) >= n:
                break
            await asyncio.sleep(0)
        task.cancel()
        await asyncio.wait([task])
        await ll.aclose()
        out["want"] = {a: [f"{a}{i}" for i in range(1, cnt[a] + 1)] for a in "AB"}

    status, value, _loop = vloop.run(world, main)
    out["status"] = status if status == "ok" else f"{status}: {value!r}"[:300]
    out["seen"] = seen
    return out


def run_burst_job(job: dict) -> JobResult:
    res = JobResult()
    for n, late in [(x, l) for x in ((2, 40, 300) if job["tier"] == "quick" else (2, 40, 300, 1100)) for l in (False, True)] + [(3, True), (4, True), (7, True)]:
        cfg = {"n": n, "late": late}
        obs = run_burst(cfg)
        res.evaluations += 1
        res.transitions += n
        bad = None
        if obs["status"] != "ok":
            bad = "burst-run-" + obs["status"].split(":")[0]
        elif obs["seen"] != obs.get("want"):
            lost = sum(len(obs["want"][a]) - len(obs["seen"][a]) for a in "AB")
            bad = "datagrams-received-before-serve-lost" if lost > 0 else "datagrams-received-before-serve-reordered-or-duplicated"
        res.outcome("burst-ok" if bad is None else "VIOLATION:" + bad)
        res.nontrivial.add(digest(("burst", n, late, obs.get("read_before_serve"), bad)))
        if bad and not any(v.key == f"ll/{bad}" for v in res.violations):
            res.violations.append(Violation(f"ll/{bad}", f"{n} datagrams (2/3 from A, 1/3 from B) read by the loop before serve() was awaited ({obs.get('read_before_serve')} read): handlers saw "
                                                         f"{len(obs['seen']['A'])} from A (first {obs['seen']['A'][:3]}), {len(obs['seen']['B'])} from B (first {obs['seen']['B'][:3]}); status={obs['status']}",
                                            {"kind": "burst", "cfg": cfg}))
    res.samples.append({"kind": "pre-serve burst", "sizes": [2, 40, 300]})
    return res


def jobs(tier: str) -> list[dict]:
    out = [{"kind": "burst", "tier": tier}]
    for api in ("hl", "ll"):
        nparts = (48 if api == "hl" else 16) if tier == "quick" else (160 if api == "hl" else 60)
        for part in range(nparts):
            out.append({"api": api, "part": part, "parts": nparts, "tier": tier})
    return out


def cfg_class(cfg: dict) -> tuple:
    return (cfg["api"], cfg["seq"], cfg["k"], cfg["work"], cfg["tau"], cfg["raise_on"], cfg.get("raise_exc"), cfg["bad"])


def describe(cfg: dict) -> str:
    return (f"{cfg['api']} arrivals={cfg['seq']} malformed_at={cfg['bad']} k={cfg['k'] or 'inf'} work={cfg['work']} timeout={cfg['tau']} "
            f"raise_on={cfg['raise_on']} ({cfg.get('raise_exc')}) place={cfg['place']}")


def run_job(job: dict) -> JobResult:
    if job.get("kind") == "burst":
        return run_burst_job(job)
    res = JobResult()
    for cfg in configs(job):
        found: dict[str, tuple[Ctx, dict, str]] = {}

        def check(ctx: Ctx, obs: dict, cfg: dict = cfg) -> None:
            res.evaluations += 1
            if res.evaluations % 1000 == 0:
                gc.collect()  # abandoned loops/tasks are cyclic garbage: keep the workers' memory flat
            sym, msg, notes = oracle(cfg, obs)
            if sym is None:
                parked = "parked" if obs["alive_q"] else "all-generators-finished"
                res.outcome(f"ok:{parked}")
                for k in ("near-deadline", "b_while_a_parked", "timeouts", "restarts"):
                    if notes.get(k):
                        res.count("executions_with_" + k)
                if obs["placed_busy"]:
                    res.count("executions_with_busy_placement")
                if obs["waits"]:
                    res.count("executions_with_arrival_after_timer")
                if any(e[1] == "raise" for e in obs["log"]):
                    res.count("executions_with_handler_exception")
                if any(e[1] == "err" for e in obs["log"]):
                    res.count("executions_with_parse_error")
                if obs["unhandled"]:
                    res.count("executions_with_loop_exception_handler_calls")
            else:
                res.outcome("VIOLATION:" + sym)
                if sym not in found:
                    found[sym] = (ctx, obs, msg)
            if any(ctx.choices) or len(cfg["seq"]) > 1:
                # entries logged while the server shuts down are ordered by the task group's set of tasks (hash = address):
                # the order of that tail is not an observation
                nq = obs.get("nlog_q", len(obs["log"]))
                res.nontrivial.add(digest((cfg_class(cfg), obs["log"][:nq], sorted(obs["log"][nq:]))))
            return sym is not None  # (lets explore() abandon a configuration whose broken run no longer replays deterministically)

        stats = explore(lambda ctx, cfg=cfg: run_one(ctx, cfg), bound=cfg["bound"], check=check, max_runs=100000)
        res.transitions += stats["points"]
        if stats["cap_hit"]:
            res.caps.append("max_runs")
        for sym, (ctx, obs, msg) in found.items():
            res.violations.append(Violation(
                f"{cfg['api']}/{sym}",
                f"{describe(cfg)}: {msg} | arrivals applied={[(a, round(t, 4)) for a, t, _ in obs.get('applied', [])]} choices={ctx.choices}",
                {"cfg": cfg, "choices": list(ctx.choices), "labels": [p[1] for p in ctx.points]},
            ))
        if len(res.samples) < 3 and len(cfg["seq"]) > 2 and stats["runs"] > 1:
            res.samples.append({"config": describe(cfg), "executions": stats["runs"], "choice_points_max": stats["max_depth"]})
    return res


def replay(doc: dict) -> tuple[bool, str]:
    rp = doc["replay"]
    cfg = rp["cfg"]
    if rp.get("kind") == "burst":
        obs = run_burst(cfg)
        bad = obs["status"] != "ok" or obs["seen"] != obs.get("want")
        return bad, f"{cfg['n']} datagrams read before serve(): status={obs['status']} read_before_serve={obs.get('read_before_serve')} seen A={len(obs['seen']['A'])} B={len(obs['seen']['B'])} (first {obs['seen']['A'][:3]} / {obs['seen']['B'][:3]})"
    ctx = Ctx(rp["choices"])
    obs = run_one(ctx, cfg)
    sym, msg, notes = oracle(cfg, obs)
    lines = [describe(cfg), f"choices={rp['choices']}", "labels=" + ",".join(p[1] for p in ctx.points),
             f"arrivals applied (label, virtual time, select#)={obs['applied']}", f"status={obs['status']}", "handler log:"]
    lines += [f"  {e}" for e in obs["log"]]
    lines.append("yields: " + "; ".join(f"{y.get('addr')} tau={y['tau']} t={y['t']:.4f}->{y['outcome']}@{(y['t_resume'] or 0):.4f}" for y in obs["yields"]))
    lines.append(f"sent={obs.get('txd')} serving={obs.get('serving')} serve_forever={obs.get('serve_result')} open_after={obs.get('open_after')} unhandled={obs.get('unhandled')}")
    lines.append(f"oracle: {sym} {msg}")
    return sym is not None, "\n".join(lines)
