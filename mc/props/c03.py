"""C03 - receive endpoints: every complete packet once, then a sticky end-of-stream.

Blocking StreamEndpoint and TCPNetworkClient on a FakeSocket (explicit-state: executions reaching an already expanded
(bytes delivered, calls made, results so far, canonical receiver heap) state are pruned) and AsyncStreamEndpoint /
AsyncTCPNetworkClient on the real asyncio loop (placements of the peer's writes and close at iteration boundaries).
Reference model: a list.
"""
from __future__ import annotations

import asyncio
import itertools
import math
import selectors as _real_selectors
import types
from typing import Any

from easynetwork.clients.async_tcp import AsyncTCPNetworkClient
from easynetwork.converter import AbstractPacketConverter
from easynetwork.clients.tcp import TCPNetworkClient
from easynetwork.exceptions import ClientClosedError
from easynetwork.lowlevel.api_async.backend._asyncio.backend import AsyncIOBackend
from easynetwork.lowlevel.api_async.endpoints.stream import AsyncStreamEndpoint
from easynetwork.lowlevel.api_sync.endpoints.stream import StreamEndpoint
from easynetwork.lowlevel.api_sync.transports import base_selector as _base_selector
from easynetwork.lowlevel.api_sync.transports.socket import SocketStreamTransport
from easynetwork.protocol import BufferedStreamProtocol, StreamProtocol
from easynetwork.serializers import StringLineSerializer

from .. import chunkmc, vloop
from ..core import Ctx, Deadlock, HorizonHit, JobResult, Violation, digest, explore
from ..envsched import Chain, Placer
from ..world import VSelector, World

PROPERTY = "C03"
LEVEL = "model_checking"
RULE = (
    "streams of 0..3 line packets + optional trailing partial frame (and streams of 2..3 packets whose VALUES are 0 / None / False, produced by a converter); the peer closes after EVERY byte offset 0..len(stream); "
    "blocking subjects {StreamEndpoint, TCPNetworkClient} x {copying, buffered} x max_recv_size {2, 64}: every chunking (the next k "
    "bytes, every k, arrive either before a call or while the call waits) x every call history of <= 5 calls (thorough 6) over "
    "{recv_packet(None), recv_packet(0.5), recv_packet(0), next(iter_received_packets(0.5)), next(iter_received_packets(0))} with "
    "'nothing arrives in time' as an extra environment answer for finite timeouts; explicit-state with merging on (delivered, "
    "calls, results, canonical receiver heap); async subjects {AsyncStreamEndpoint, AsyncTCPNetworkClient}: writes (<= 2 cuts) and "
    "close placed at iteration boundaries; distinct_nontrivial = distinct (subject, stream, close offset, result sequence)"
)
ASSUMPTIONS = [
    "after its 0-byte answer the fake kernel has nothing further to say: a call that waits on it shows up as a deadlock report",
    "plain TCP: a short read means the kernel buffer was drained (TLS-like short reads are C11's separately keyed configuration)",
]
BOUNDS = {"quick": "<= 4 calls, <= 2 packets with all close offsets, 3 packets with close at frame boundaries +-1", "thorough": "<= 6 calls, <= 3 packets all close offsets"}

FRAMES = [b"ab\n", b"c\n", b"def\n"]
PARTIAL = b"xy"
CALL_KINDS = [("recv", None), ("recv", 0.5), ("recv", 0), ("iter", 0.5), ("iter", 0)]


def _shim_selectors(world: World) -> types.ModuleType:
    m = types.ModuleType("selectors_shim")
    m.__dict__.update({k: v for k, v in vars(_real_selectors).items() if not k.startswith("__")})
    m.PollSelector = lambda: VSelector(world)  # type: ignore[attr-defined]
    m.SelectSelector = m.PollSelector  # type: ignore[attr-defined]
    return m


# "falsy" alphabet: packets whose VALUE is None / 0 / False (through a converter): a receive path that tests the packet instead of
# catching StopIteration would drop them when they are served from the buffer
FALSY_FRAMES = [b"0\n", b"N\n", b"F\n"]  # None second, False third: both can be served from the buffer
FALSY_VALUES: dict[str, Any] = {"N": None, "0": 0, "F": False}


class FalsyConverter(AbstractPacketConverter[Any, str]):
    __slots__ = ()

    def create_from_dto_packet(self, packet: str) -> Any:
        return FALSY_VALUES.get(packet, packet)

    def convert_to_dto_packet(self, obj: Any) -> str:
        return next((k for k, v in FALSY_VALUES.items() if v is obj), str(obj))


def make_stream(n: int, partial: bool, falsy: bool = False) -> tuple[bytes, list[Any]]:
    frames = FALSY_FRAMES if falsy else FRAMES
    s = b"".join(frames[:n]) + (PARTIAL if partial else b"")
    return s, done_frames(s, len(s), falsy)


def done_frames(stream: bytes, pos: int, falsy: bool = False) -> list[Any]:
    parts = stream[:pos].split(b"\n")
    out: list[Any] = [p.decode() for p in parts[:-1]]
    return [FALSY_VALUES.get(x, x) for x in out] if falsy else out


def make_protocol(cfg: dict) -> Any:
    conv = FalsyConverter() if cfg.get("falsy") else None
    if cfg["proto"] == "copy":
        return StreamProtocol(StringLineSerializer(), conv)
    return BufferedStreamProtocol(StringLineSerializer(limit=16), conv)


def canon_receiver(subject: Any, kind: str) -> Any:
    ep = subject if kind == "endpoint" else subject._TCPNetworkClient__endpoint
    rc = ep._StreamEndpoint__receiver
    c = rc.consumer
    if hasattr(c, "_StreamDataConsumer__buffer"):
        cc = ("copy", c._StreamDataConsumer__buffer, chunkmc.canon(c._StreamDataConsumer__consumer) if c._StreamDataConsumer__consumer is not None else None)
    else:
        P = "_BufferedStreamDataConsumer__"
        buf = getattr(c, P + "buffer")
        g = getattr(c, P + "consumer")
        cc = ("buf", None if buf is None else bytes(buf), getattr(c, P + "buffer_start"), getattr(c, P + "already_written"),
              getattr(c, P + "exported_write_buffer_view") is not None, chunkmc.canon(g) if g is not None else None)
    return (cc, rc._eof_reached)


def run_sync(ctx: Ctx, cfg: dict) -> dict:
    stream, packets = make_stream(cfg["n"], cfg["partial"], cfg.get("falsy", False))
    close_off = cfg["close"]
    world = World(ctx, horizon=3000)
    world.install_clock()
    sock = world.stream_socket()
    st = {"pos": 0, "eof": False}
    saved = _base_selector.selectors
    results: list[tuple] = []
    bad: list[str] = []
    try:
        proto = make_protocol(cfg)
        if cfg["subject"] == "endpoint":
            tr = SocketStreamTransport(sock, math.inf, selector_factory=lambda: VSelector(world))
            subj: Any = StreamEndpoint(tr, proto, max_recv_size=cfg["rsize"])
        else:
            _base_selector.selectors = _shim_selectors(world)  # type: ignore[assignment]
            subj = TCPNetworkClient(sock, proto, max_recv_size=cfg["rsize"], retry_interval=math.inf)

        def options() -> list[tuple]:
            if st["eof"]:
                return []
            if st["pos"] < close_off:
                return [("chunk", k) for k in range(1, close_off - st["pos"] + 1)]
            # the peer's close is either a FIN or a reset (pending socket error + error on the next read of an empty queue)
            return [("eof",), ("reset",)] if cfg.get("resets") else [("eof",)]

        def apply(o: tuple) -> None:
            if o[0] == "chunk":
                sock.rx.put(stream[st["pos"]:st["pos"] + o[1]])
                st["pos"] += o[1]
            elif o[0] == "reset":
                import errno as _errno

                sock.so_error = _errno.ECONNRESET
                sock.rx.error = ConnectionResetError(_errno.ECONNRESET, "reset by peer")
                sock.rx.sticky_error = True
                st["eof"] = True
            else:
                sock.rx.eof = True
                st["eof"] = True

        waiting = {"timeout": None}

        def env(w: World, sel: Any, timeout: float | None) -> None:
            opts: list[tuple] = options()
            if timeout is not None:
                opts = opts + [("nothing",)]
            if not opts:
                return  # nothing can happen any more: World.select reports the deadlock
            o = opts[ctx.choose(len(opts), "while-waiting", costed=False)]
            if o[0] != "nothing":
                apply(o)

        world.env = env
        returned = 0
        eof_reported = False
        for ci in range(cfg["calls"]):
            ctx.state(("call", ci, st["pos"], st["eof"], returned, eof_reported, canon_receiver(subj, cfg["subject"])))
            pre = [("none",)] + options()
            o = pre[ctx.choose(len(pre), "before-call", costed=False)]
            if o[0] != "none":
                apply(o)
            kinds = CALL_KINDS if cfg["subject"] == "client" else CALL_KINDS[:3]
            kind, tmo = kinds[ctx.choose(len(kinds), "call-kind", costed=False)]
            t0 = world.clock
            eof_before_call = st["eof"]
            try:
                if kind == "recv":
                    r: Any = subj.recv_packet(timeout=tmo)
                else:
                    r = next(subj.iter_received_packets(timeout=tmo))
                res: tuple = ("P", r)
            except TimeoutError:
                res = ("timeout",)
            except ConnectionAbortedError:
                res = ("eof",)
            except StopIteration:
                res = ("stop",)
            except Deadlock:
                res = ("deadlock",)
            except OSError as exc:
                res = ("oserror", type(exc).__name__)
            results.append((kind, tmo) + res)
            avail = done_frames(stream, st["pos"], cfg.get("falsy", False))
            all_done = st["eof"] and returned == len(avail)
            # ---- oracle for this call ----
            if res[0] == "P":
                if eof_reported:
                    bad.append("data-returned-after-end-of-stream-was-reported")
                elif returned >= len(avail) or res[1] != avail[returned] or type(res[1]) is not type(avail[returned]):
                    bad.append("wrong-or-incomplete-packet-returned")
                returned += 1
            elif res[0] == "timeout":
                if tmo is None:
                    bad.append("timeout-without-timeout")
                elif returned < len(avail):
                    bad.append("timeout-although-a-complete-packet-was-available")
                elif all_done and tmo > 0 and eof_before_call:
                    # (a zero timeout may legitimately stop at a short read before it sees the peer's close: C11's business)
                    bad.append("timeout-instead-of-end-of-stream")
            elif res[0] == "eof":
                if not all_done:
                    bad.append("end-of-stream-reported-before-all-packets-were-delivered" if st["eof"] else "end-of-stream-reported-while-connection-open")
                eof_reported = True
            elif res[0] == "stop":
                if returned < len(avail):
                    bad.append("iterator-stopped-although-a-complete-packet-was-available")
                if all_done:
                    eof_reported = eof_reported  # the iterator hides the reason; stickiness is checked on later calls
            elif res[0] == "deadlock":
                bad.append("blocks-forever-after-end-of-stream" if st["eof"] else "blocks-forever")
            else:
                bad.append("unexpected-" + res[1])
            if eof_reported and res[0] not in ("eof", "stop"):
                if "data-returned-after-end-of-stream-was-reported" not in bad:
                    bad.append("end-of-stream-not-sticky")
            if eof_reported and world.clock > t0 and res[0] in ("eof", "stop") and (kind, tmo, "eof") != results[-1][:3]:
                pass
            if bad:
                break
    finally:
        _base_selector.selectors = saved  # type: ignore[assignment]
        world.close_all()
        world.restore_clock()
    return {"results": results, "bad": bad, "pos": st["pos"], "eof": st["eof"]}


def sync_configs(tier: str) -> list[dict]:
    out = []
    for subject in ("endpoint", "client"):
        for proto in ("copy", "buf"):
            for rsize in (2, 64):
                for n in (0, 1, 2, 3):
                    for partial in (False, True):
                        stream, _ = make_stream(n, partial)
                        closes = list(range(0, len(stream) + 1))
                        if tier == "quick" and n == 3:
                            marks = {0, len(stream)}
                            acc = 0
                            for f in FRAMES[:n]:
                                acc += len(f)
                                marks |= {acc - 1, acc, acc + 1}
                            closes = [c for c in closes if c in marks]
                        for close in closes:
                            out.append({"kind": "sync", "subject": subject, "proto": proto, "rsize": rsize, "n": n, "partial": partial, "close": close,
                                        "calls": 4 if tier == "quick" else 6, "resets": subject == "client" and (tier == "thorough" or rsize == 64)})
                # packets whose value is None / 0 / False
                for n in (2, 3):
                    stream, _ = make_stream(n, False, True)
                    for close in ((len(stream),) if tier == "quick" else range(2, len(stream) + 1)):
                        out.append({"kind": "sync", "subject": subject, "proto": proto, "rsize": rsize, "n": n, "partial": False, "close": close, "falsy": True,
                                    "calls": n + 2, "resets": False})
    return out


# ---------------------------------------------------------------------------------------------------------
# async subjects


def run_async(ctx: Ctx, cfg: dict) -> dict:
    stream, packets = make_stream(cfg["n"], cfg["partial"], cfg.get("falsy", False))
    close_off = cfg["close"]
    data = stream[:close_off]
    bounds = [0] + [c for c in cfg["cuts"] if c < len(data)] + [len(data)]
    pieces = [data[a:b] for a, b in zip(bounds, bounds[1:]) if b > a]
    world = World(ctx, horizon=900)
    sock = world.stream_socket()
    st: dict[str, Any] = {"ready": False, "pos": 0, "eof": False}

    deliveries: list[tuple[float, int]] = []

    def write(p: bytes):
        def act() -> None:
            sock.rx.put(p)
            st["pos"] += len(p)
            deliveries.append((world.clock, st["pos"]))
        return act

    def eof() -> None:
        sock.rx.eof = True
        st["eof"] = True

    placer = Placer(ctx, [Chain("peer", [(f"W{i}", write(p)) for i, p in enumerate(pieces)] + [("EOF", eof)])], gate=lambda: st["ready"], max_busy_points=25).install(world)
    results: list[tuple] = []
    bad: list[str] = []

    async def main(loop: Any) -> None:
        backend = AsyncIOBackend()
        proto = make_protocol(cfg)
        if cfg["subject"] == "endpoint":
            tr = await backend.wrap_stream_socket(sock)
            subj: Any = AsyncStreamEndpoint(tr, proto, max_recv_size=cfg["rsize"])
        else:
            subj = AsyncTCPNetworkClient(sock, proto, backend, max_recv_size=cfg["rsize"])
            await subj.wait_connected()
        st["ready"] = True
        returned = 0
        eof_reported = False
        for kind, tmo in cfg["history"]:
            t0 = world.clock
            try:
                if kind == "recv":
                    r: Any = await subj.recv_packet()
                else:
                    r = await anext(subj.iter_received_packets(timeout=tmo))
                res: tuple = ("P", r)
            except ConnectionAbortedError:
                res = ("eof",)
            except StopAsyncIteration:
                res = ("stop",)
            except OSError as exc:
                res = ("oserror", type(exc).__name__)
            results.append((kind, tmo) + res)
            avail = done_frames(stream, st["pos"], cfg.get("falsy", False))
            all_done = st["eof"] and returned == len(avail)
            if res[0] == "P":
                if eof_reported:
                    bad.append("data-returned-after-end-of-stream-was-reported")
                elif returned >= len(avail) or res[1] != avail[returned] or type(res[1]) is not type(avail[returned]):
                    bad.append("wrong-or-incomplete-packet-returned")
                returned += 1
            elif res[0] == "eof":
                if not all_done:
                    bad.append("end-of-stream-reported-before-all-packets-were-delivered" if st["eof"] else "end-of-stream-reported-while-connection-open")
                eof_reported = True
            elif res[0] == "stop":
                # only what was delivered well before the deadline counts as 'available in time'
                in_time = max([p for (t, p) in deliveries if t < t0 + tmo - 1e-3], default=0)
                if returned < len(done_frames(stream, in_time, cfg.get("falsy", False))) and tmo != 0:
                    bad.append("iterator-stopped-although-a-complete-packet-was-available")
            else:
                bad.append("unexpected-" + res[1])
            if eof_reported and res[0] not in ("eof", "stop") and not bad:
                bad.append("end-of-stream-not-sticky")
            if bad:
                break

    status, value, loop = vloop.run(world, main)
    if status in ("deadlock", "horizon"):
        bad.append("blocks-forever-after-end-of-stream" if st["eof"] else "blocks-forever")
    elif status != "ok":
        bad.append("unexpected-exception:" + repr(value)[:80])
    return {"results": results, "bad": bad, "pos": st["pos"], "eof": st["eof"], "trace": placer.trace}


ASYNC_HISTORIES = [
    [("recv", None)] * 5,
    # zero-timeout polls between receives: a packet that is already buffered may be reported late, never dropped
    [("recv", None), ("iter", 0), ("iter", 0), ("recv", None), ("recv", None)],
    [("iter", 0), ("recv", None), ("iter", 0), ("recv", None), ("iter", 0)],
    [("recv", None), ("iter", 0.5), ("recv", None), ("iter", 0.5), ("recv", None)],
    [("iter", 0.5), ("iter", 0.5), ("recv", None), ("recv", None), ("iter", 0.5)],
]


def async_configs(tier: str) -> list[dict]:
    out = []
    for subject in ("endpoint", "client"):
        for proto in ("copy", "buf"):
            for n in (0, 1, 2, 3):
                for partial in (False, True):
                    stream, _ = make_stream(n, partial)
                    closes = range(0, len(stream) + 1) if (tier == "thorough" or n <= 2) else (0, 3, 4, 5, 6, len(stream) - 1, len(stream))
                    for close in closes:
                        cutsets = [()] + [(i,) for i in range(1, close)]
                        if tier == "thorough":
                            cutsets += list(itertools.combinations(range(1, close), 2))
                        for cuts in cutsets:
                            hs = ASYNC_HISTORIES if subject == "client" else ASYNC_HISTORIES[:1]
                            if tier == "quick" and subject == "client" and cuts and n < 2:
                                hs = ASYNC_HISTORIES[:2]
                            for h in hs:
                                out.append({"kind": "async", "subject": subject, "proto": proto, "rsize": 64, "n": n, "partial": partial, "close": close,
                                            "cuts": list(cuts), "history": [list(x) for x in h]})
            stream, _ = make_stream(3, False, True)
            for cuts in [()] + [(i,) for i in range(1, len(stream))]:
                for h in (ASYNC_HISTORIES if subject == "client" else ASYNC_HISTORIES[:1]):
                    out.append({"kind": "async", "subject": subject, "proto": proto, "rsize": 64, "n": 3, "partial": False, "close": len(stream), "falsy": True,
                                "cuts": list(cuts), "history": [list(x) for x in h]})
    return out


def jobs(tier: str) -> list[dict]:
    ns = len(sync_configs(tier))
    na = len(async_configs(tier))
    ps, pa = (48, 32) if tier == "quick" else (128, 96)
    return [{"kind": "sync", "part": p, "parts": ps, "tier": tier} for p in range(ps)] + [{"kind": "async", "part": p, "parts": pa, "tier": tier} for p in range(pa)]


def run_job(job: dict) -> JobResult:
    res = JobResult()
    if job["kind"] == "sync":
        for i, cfg in enumerate(sync_configs(job["tier"])):
            if i % job["parts"] != job["part"]:
                continue
            found: dict[str, tuple[Ctx, dict]] = {}

            def check(ctx: Ctx, obs: dict) -> None:
                res.evaluations += 1
                shape = tuple(r[2] for r in obs["results"])
                res.nontrivial.add(digest((cfg["subject"], cfg["proto"], cfg["n"], cfg["partial"], cfg["close"], shape)))
                if obs["bad"]:
                    res.outcome("VIOLATION:" + obs["bad"][0])
                    b = obs["bad"][0]
                    if b not in found or len(ctx.choices) < len(found[b][0].choices):
                        found[b] = (ctx, obs)
                else:
                    res.outcome("history-ok:" + ("eof-seen" if "eof" in shape else "no-eof"))

            stats = explore(lambda ctx: run_sync(ctx, cfg), bound=10 ** 9, check=check, use_states=True, max_runs=400000)
            res.states += stats["states"]
            res.transitions += stats["points"]
            res.evaluations += stats["pruned"]
            if stats["cap_hit"]:
                res.caps.append("sync max_runs")
            for b, (ctx, obs) in found.items():
                res.violations.append(Violation(
                    f"sync/{cfg['subject']}/{cfg['proto']}/{b}",
                    f"{cfg['subject']} ({cfg['proto']}, max_recv_size={cfg['rsize']}) stream={make_stream(cfg['n'], cfg['partial'], cfg.get('falsy', False))[0]!r} peer closes after {cfg['close']} bytes: "
                    f"calls={obs['results']} delivered={obs['pos']} eof={obs['eof']} choices={ctx.choices}",
                    {"kind": "sync", "cfg": cfg, "choices": list(ctx.choices)},
                ))
            if len(res.samples) < 2 and cfg["n"] >= 2:
                res.samples.append({"kind": "sync", **{k: cfg[k] for k in ("subject", "proto", "rsize", "n", "partial", "close", "calls")}, "states": stats["states"], "executions": stats["runs"]})
    else:
        bound = 2 if job["tier"] == "quick" else 3
        for i, cfg in enumerate(async_configs(job["tier"])):
            if i % job["parts"] != job["part"]:
                continue
            found = {}

            def check2(ctx: Ctx, obs: dict) -> None:
                res.evaluations += 1
                shape = tuple(r[2] for r in obs["results"])
                res.nontrivial.add(digest(("async", cfg["subject"], cfg["proto"], cfg["n"], cfg["partial"], cfg["close"], shape)))
                if obs["bad"]:
                    res.outcome("VIOLATION:" + obs["bad"][0])
                    b = obs["bad"][0]
                    if b not in found or len(ctx.choices) < len(found[b][0].choices):
                        found[b] = (ctx, obs)
                else:
                    res.outcome("async-history-ok")

            stats = explore(lambda ctx: run_async(ctx, cfg), bound=bound, check=check2, max_runs=20000)
            res.transitions += stats["points"]
            for b, (ctx, obs) in found.items():
                res.violations.append(Violation(
                    f"async/{cfg['subject']}/{cfg['proto']}/{b}",
                    f"async {cfg['subject']} ({cfg['proto']}) stream={make_stream(cfg['n'], cfg['partial'], cfg.get('falsy', False))[0]!r} close after {cfg['close']} cuts={cfg['cuts']} history={cfg['history']}: "
                    f"calls={obs['results']} schedule={obs['trace']} choices={ctx.choices}",
                    {"kind": "async", "cfg": cfg, "choices": list(ctx.choices)},
                ))
    return res


def replay(doc: dict) -> tuple[bool, str]:
    rp = doc["replay"]
    ctx = Ctx(rp["choices"])
    obs = run_sync(ctx, rp["cfg"]) if rp["kind"] == "sync" else run_async(ctx, rp["cfg"])
    lines = [f"cfg={rp['cfg']}", f"choices={rp['choices']}", "labels=" + ",".join(p[1] for p in ctx.points)] + [f"  {k}={v!r}" for k, v in obs.items()]
    return bool(obs["bad"]), "\n".join(lines)
