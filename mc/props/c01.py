"""C01 - stream round-trip: packets survive any chunking of the byte stream (explicit-state, engine E5)."""
from __future__ import annotations

import itertools
from typing import Any

from easynetwork.lowlevel._stream import StreamDataProducer

from .. import chunkmc, zoo
from ..core import JobResult, Violation, digest

PROPERTY = "C01"
LEVEL = "model_checking"
RULE = (
    "for every serializer configuration of mc/zoo.py and every packet sequence (all sequences up to the tier's length "
    "over the configuration's packet alphabet) the byte stream produced by the real StreamDataProducer is fed to the real "
    "StreamDataConsumer / BufferedStreamDataConsumer under EVERY partition into reads (explicit-state search, states merged "
    "on (pos, outputs, canonical heap of the consumer)); buffer-filling path once per buffer-size hint; "
    "distinct_nontrivial = number of distinct (configuration, path, hint, stream) searches that visited at least one state "
    "strictly inside the stream; states = distinct canonical consumer states"
)
ASSUMPTIONS = [
    "packets are drawn from each serializer's documented valid domain (non-empty lines without the separator, JSON values that survive json round-trip)",
    "zlib/bz2 decompressor state is a function of the bytes fed to it (recorded by a proxy); serializer objects hold no hidden state outside their slots",
    "cbor/msgpack serializers and the trio backend are not installed and not covered",
]
BOUNDS = {
    "quick": "sequences of <= 2 packets (<= 3 for alphabets of <= 4 packets), all chunkings, all hints; merge validated by pure path enumeration on streams <= 11 bytes",
    "thorough": "sequences of <= 3 packets (4 for alphabets <= 4), all chunkings, all hints; merge validation on streams <= 14 bytes",
}

STATE_CAP = {"quick": 6000, "thorough": 60000}
PATH_VALIDATE = {"quick": 11, "thorough": 14}
MAX_BUF_STREAM = {"quick": 72, "thorough": 110}  # longer streams on the buffer path: restricted chunk-size set (reported as cap)


def _seq_lengths(cfg: zoo.SerCfg, tier: str) -> list[int]:
    small = len(cfg.packets) <= 4
    if "compress" in cfg.tags:
        return [1, 2] if tier == "quick" else [1, 2, 3]
    if "base64" in cfg.tags:
        heavy = "ck=off" not in cfg.name
        if tier == "quick":
            return [1] if heavy and "\\r\\n" not in cfg.name else [1, 2]
        return [1, 2] if heavy else [1, 2, 3]
    if tier == "quick":
        return [1, 2, 3] if small else [1, 2]
    return [1, 2, 3, 4] if small else [1, 2, 3]


def jobs(tier: str) -> list[dict]:
    out = []
    for cfg in zoo.configs():
        for L in _seq_lengths(cfg, tier):
            nseq = len(cfg.packets) ** L
            parts = max(1, min(16, nseq // 24))
            if "compress" in cfg.tags or "base64" in cfg.tags:
                parts = nseq
            for part in range(parts):
                out.append({"cfg": cfg.name, "L": L, "part": part, "parts": parts, "tier": tier})
    return out


def _paths(cfg: zoo.SerCfg) -> list[tuple[str, int]]:
    p: list[tuple[str, int]] = [("copy", 0)]
    if cfg.buffered:
        p += [("buf", h) for h in cfg.hints]
    return p


def _factory(cfg: zoo.SerCfg, kind: str, hint: int):
    if kind == "copy":
        return lambda: chunkmc.CopyDriver(cfg.stream_protocol())
    return lambda: chunkmc.BufDriver(cfg.buffered_protocol(), hint)


def make_stream(cfg: zoo.SerCfg, seq: tuple) -> tuple[bytes, list[list[bytes]]]:
    prod = StreamDataProducer(cfg.stream_protocol())
    chunks = [list(prod.generate(p)) for p in seq]
    return b"".join(b"".join(c) for c in chunks), chunks


def check_one(cfg: zoo.SerCfg, seq: tuple, kind: str, hint: int, tier: str, res: JobResult) -> None:
    stream, chunks = make_stream(cfg, seq)
    expected = tuple(("P", repr(cfg.expected(p))) for p in seq)
    base_replay = {"cfg": cfg.name, "seq": [repr(p) for p in seq], "seq_idx": [cfg.packets.index(p) for p in seq], "kind": kind, "hint": hint}
    if cfg.frame_ref is not None and kind == "copy":
        for p, c in zip(seq, chunks):
            if b"".join(c) != cfg.frame_ref(p):
                res.violations.append(Violation(f"producer/{cfg.name.split('/')[0]}/frame-differs-from-reference",
                                                f"{cfg.name}: generate_chunks({p!r}) = {b''.join(c)!r}, reference frame {cfg.frame_ref(p)!r}",
                                                dict(base_replay, path=[])))
    chunk_sizes = None
    if kind == "buf" and len(stream) > (MAX_BUF_STREAM[tier] if "compress" not in cfg.tags else MAX_BUF_STREAM[tier] // 2):
        chunk_sizes = (1, 2, 3, 5, 7, 11, 16, 23, 32, 47, 64, 1 << 20)
        cap = f"buffer path, streams > {MAX_BUF_STREAM[tier]} bytes: chunk sizes restricted to {chunk_sizes[:-1]} + 'all offered'"
        if cap not in res.caps:
            res.caps.append(cap)
    try:
        if "compress" in cfg.tags and len(seq) > 1:
            # decompressed output arrives in pieces whose partition is part of the state: no useful merging.
            res.count("compressor_multi_packet_searches_by_cut_enumeration")
            cap = "compressor serializers, sequences of >= 2 packets: all chunkings with <= 3 cuts (<= 2 for long streams) + every uniform chunk size (state = partition of the decompressed output, does not merge)"
            if cap not in res.caps:
                res.caps.append(cap)
            r = chunkmc.few_cuts(_factory(cfg, kind, hint), stream, 3 if len(stream) <= (40 if tier == "quick" else 64) else 2, uniform=True)
            r.states = r.paths
        else:
            r = chunkmc.search(_factory(cfg, kind, hint), stream, chunk_sizes=chunk_sizes, max_states=STATE_CAP[tier])
    except chunkmc.StateCap:
        # the exact key (whole buffer incl. stale bytes) does not merge: key without the stale region, complemented
        # by an exact enumeration of every chunking with <= 2 cuts (stale-byte dependence needs few cuts, cf. F1)
        res.count("searches_with_stale_bytes_dropped_from_key")
        cap = "some buffer-path searches exceeded the exact-key state cap: stale bytes dropped from the key there, plus exact enumeration of all chunkings with <= 2 cuts and all uniform sizes (only that enumeration when the reduced key does not merge either)"
        if cap not in res.caps:
            res.caps.append(cap)
        r3 = chunkmc.few_cuts(_factory(cfg, kind, hint), stream, 2, uniform=True)
        try:
            r = chunkmc.search(_factory(cfg, kind, hint), stream, chunk_sizes=chunk_sizes, abstract=True, max_states=STATE_CAP[tier])
        except chunkmc.StateCap:
            res.count("searches_reduced_to_cut_enumeration")
            r = chunkmc.SearchResult()
            r.states = r3.paths
        res.evaluations += r3.evaluations
        res.transitions += r3.transitions
        for t, path in r3.terminals.items():
            r.terminals.setdefault(t, path)
    res.evaluations += r.evaluations
    res.states += r.states
    res.transitions += r.transitions
    if r.opaque:
        res.count("opaque_states_fell_back_to_path_keys")
    if r.states > 2:
        res.nontrivial.add(digest((cfg.name, kind, hint, stream)))
    clean = ((b"", False) if kind == "copy" else None)
    for (outs, extra), path in r.terminals.items():
        ok = outs == expected and extra != "crash"
        if ok:
            if kind == "copy":
                ok = extra == (b"", False)
            else:
                aw, _start = extra
                ok = aw == 0
        if ok:
            res.outcome("roundtrip-ok")
            continue
        sym = "crash" if extra == "crash" else ("wrong-packets" if outs != expected else "leftover")
        res.outcome(sym)
        res.violations.append(Violation(
            f"{kind}/{cfg.name.split('/')[0]}/{sym}",
            f"{cfg.name} {kind} hint={hint} stream={stream!r} chunking={list(path)}: got {outs!r} leftover={extra!r}, expected {expected!r}",
            dict(base_replay, path=list(path)),
        ))
    # merge validation: pure path enumeration must see exactly the same terminal observations
    if len(stream) <= PATH_VALIDATE[tier]:
        r2 = chunkmc.search(_factory(cfg, kind, hint), stream, merge=False)
        res.evaluations += r2.evaluations
        res.count("merge_validations")
        res.count("paths_enumerated_for_validation", r2.paths)
        if set(r2.terminals) != set(r.terminals):
            res.internal.append(f"merge validation failed for {cfg.name} {kind} hint={hint} stream={stream!r}: "
                                f"merged={sorted(map(repr, r.terminals))[:3]} paths={sorted(map(repr, r2.terminals))[:3]}")
    if len(res.samples) < 3:
        res.samples.append({"config": cfg.name, "path": kind, "hint": hint, "packets": [repr(p) for p in seq],
                            "stream": stream.decode("latin-1"), "states": r.states, "transitions": r.transitions,
                            "terminal_observations": len(r.terminals)})


def run_job(job: dict) -> JobResult:
    cfg = zoo.by_name(job["cfg"])
    res = JobResult()
    seqs = list(itertools.product(cfg.packets, repeat=job["L"]))
    for i, seq in enumerate(seqs):
        if i % job["parts"] != job["part"]:
            continue
        for kind, hint in _paths(cfg):
            if kind == "buf" and not cfg.hint_sensitive and hint != cfg.hints[-1] and job["L"] > 1:
                continue  # create_buffer ignores the hint: other hints only for single packets
            check_one(cfg, seq, kind, hint, job["tier"], res)
    return res


def replay(doc: dict) -> tuple[bool, str]:
    rp = doc["replay"]
    cfg = zoo.by_name(rp["cfg"])
    seq = tuple(cfg.packets[i] for i in rp["seq_idx"])
    stream, _ = make_stream(cfg, seq)
    expected = tuple(("P", repr(cfg.expected(p))) for p in seq)
    drv, outs, pos, crash = chunkmc._replay(_factory(cfg, rp["kind"], rp["hint"]), stream, tuple(rp["path"]))
    lines = [f"config={cfg.name} path={rp['kind']} hint={rp['hint']}", f"stream={stream!r}", f"chunking={rp['path']}"]
    pos = 0
    for k in rp["path"]:
        lines.append(f"  read {stream[pos:pos+k]!r}")
        pos += k
    lines.append(f"observed={outs!r} crash={crash} leftover={None if crash else drv.leftover()!r}")
    lines.append(f"expected={list(expected)!r}")
    bad = crash is not None or tuple(outs) != expected
    if not bad:
        lo = drv.leftover()
        bad = (lo != (b"", False)) if rp["kind"] == "copy" else (lo[0] != 0)
    if not rp["path"]:
        for p in seq:
            got = b"".join(StreamDataProducer(cfg.stream_protocol()).generate(p))
            if cfg.frame_ref and got != cfg.frame_ref(p):
                bad = True
                lines.append(f"producer frame {got!r} != reference {cfg.frame_ref(p)!r}")
    return bad, "\n".join(lines)
