"""C10 - cancelling or timing out a receive never loses data (schedule enumeration on the real asyncio loop, E2).

A peer writes a short stream in 1..3 writes; receive #1 runs in its own task under a canceller (direct task.cancel(), a
canceller task, move_on_after(1.0) or timeout(1.0)); afterwards the main task keeps receiving until end-of-stream.  The
explorer places every peer write and the cancel request at loop-iteration boundaries (mc/envsched.py), including the
same-iteration races and the exact coincidence of a read with the scope's deadline.
Blocking endpoints: recv_packet(timeout) ending in TimeoutError, arrival times around the deadline, then more receives.
"""
from __future__ import annotations

import asyncio
import itertools
import math
from typing import Any

from easynetwork.exceptions import StreamProtocolParseError
from easynetwork.lowlevel.api_async.backend._asyncio.backend import AsyncIOBackend
from easynetwork.lowlevel.api_async.endpoints.stream import AsyncStreamEndpoint
from easynetwork.lowlevel.api_sync.endpoints.stream import StreamEndpoint
from easynetwork.lowlevel.api_sync.transports.socket import SocketStreamTransport
from easynetwork.protocol import BufferedStreamProtocol, StreamProtocol
from easynetwork.serializers import StringLineSerializer

from .. import vloop
from ..core import Ctx, JobResult, Violation, digest, explore
from ..envsched import Chain, Placer
from ..world import VSelector, World

PROPERTY = "C10"
LEVEL = "exploration"
RULE = (
    "stream of 6 bytes (transport layers) / 3 line packets (endpoint layers) delivered in 1..3 writes (quick: all <= 2 cuts; "
    "thorough: all <= 3 cuts) + EOF; receive layers {recv(2), recv(64), recv_into(2), recv_into(64), AsyncStreamEndpoint copying, "
    "buffered}; cancellers {task.cancel() placed at a select boundary, canceller task woken at a select boundary (cancel runs before "
    "that iteration's I/O callbacks), move_on_after(1.0), timeout(1.0), the handler's yielded timeout (request receivers)}; every peer write / cancel is placed at every loop-iteration "
    "boundary: idle placements free, placements while the loop is busy are costed deviations (bound 3 quick / 4 thorough), plus the "
    "explicit 'coincide' of a write with the scope deadline; blocking StreamEndpoint.recv_packet(timeout) with arrival instants "
    "before/at-gap/after the deadline; TLS over the real socket adapter (TLS 1.2/1.3, client/server, recv/recv_into with 2/64-byte buffers): 6 plaintext bytes in 1..3 "
    "records or 17000 bytes in two records, peer gated on 'receive #1 is parked' or not, cancel (task.cancel / canceller task / scope.cancel) offered at every "
    "select() while receive #1 is pending, ciphertext delivery whole/fragmented/held (deviation bound 2 quick / 3 thorough); distinct_nontrivial = distinct (layer, canceller, schedule shape, outcome) observations "
    "among runs where receive #1 was actually cancelled or timed out"
)
ASSUMPTIONS = [
    "after receive #1 ended (result, cancellation or timeout) the same transport/endpoint is read by another task until end-of-stream",
    "timed peer writes never coincide with the deadline except through the explicit 'coincide' choice",
    "TLS layer (props/c10_tls.py): the peer is CPython's SSLObject; lost or duplicated ciphertext shows up as a TLS record error, a hang, or missing plaintext",
]
BOUNDS = {"quick": "<= 2 cuts, busy-placement bound 3; TLS layer: deviation bound 2 on half of the (version, role, receive kind, canceller) grid", "thorough": "<= 3 cuts, busy-placement bound 4; TLS layer: deviation bound 3 on the whole grid"}

STREAM = b"abcdef"
PACKETS = ["ab", "cd", "ef"]
PSTREAM = b"ab\ncd\nef\n"
LAYERS = ("recv2", "recv64", "into2", "into64", "ep-copy", "ep-buf", "srv-copy", "srv-buf")
CANCELLERS = ("task_cancel", "canceller_task", "move_on_after", "timeout", "yielded_timeout")


def cuts_for(n: int, tier: str) -> list[tuple[int, ...]]:
    out: list[tuple[int, ...]] = [()]
    out += [(i,) for i in range(1, n)]
    out += list(itertools.combinations(range(1, n), 2))
    if tier == "thorough":
        out += list(itertools.combinations(range(1, n), 3))
    return out


def run_async(ctx: Ctx, cfg: dict) -> dict:
    layer, kind = cfg["layer"], cfg["canceller"]
    is_ep = layer.startswith(("ep", "srv"))
    stream = PSTREAM if is_ep else STREAM
    bounds = [0] + list(cfg["cuts"]) + [len(stream)]
    pieces = [stream[a:b] for a, b in zip(bounds, bounds[1:])]
    world = World(ctx, horizon=600)
    sock = world.stream_socket()
    st: dict[str, Any] = {"ready": False, "reader": None, "wake": None, "cancel_applied_pending": None}

    def write(p: bytes):
        def act() -> None:
            sock.rx.put(p)
        return act

    def eof() -> None:
        sock.rx.eof = True

    peer = Chain("peer", [(f"W{i}", write(p)) for i, p in enumerate(pieces)] + [("EOF", eof)])
    chains = [peer]
    if kind == "task_cancel":
        def do_cancel() -> None:
            t = st["reader"]
            st["cancel_applied_pending"] = (t is not None and not t.done())
            if t is not None:
                t.cancel()
        chains.append(Chain("cancel", [("C", do_cancel)]))
    elif kind == "canceller_task":
        def wake() -> None:
            t = st["reader"]
            st["cancel_applied_pending"] = (t is not None and not t.done())
            if st["wake"] is not None and not st["wake"].done():
                st["wake"].set_result(None)
        chains.append(Chain("cancel", [("Cw", wake)]))
    placer = Placer(ctx, chains, coincide=kind in ("move_on_after", "timeout", "yielded_timeout"), gate=lambda: st["ready"], max_busy_points=cfg.get("max_busy", 40))
    placer.install(world)
    got: list[Any] = []
    info: dict[str, Any] = {"first": None}

    async def main(loop: Any) -> None:
        backend = AsyncIOBackend()
        tr = await backend.wrap_stream_socket(sock)
        if layer == "ep-copy":
            obj: Any = AsyncStreamEndpoint(tr, StreamProtocol(StringLineSerializer()), max_recv_size=64)
        elif layer == "ep-buf":
            obj = AsyncStreamEndpoint(tr, BufferedStreamProtocol(StringLineSerializer(limit=32)), max_recv_size=64)
        elif layer in ("srv-copy", "srv-buf"):
            # the low-level stream server's request receiver (what runs between two yields of a request handler)
            from easynetwork.lowlevel._asyncgen import SendAction
            from easynetwork.lowlevel._stream import BufferedStreamDataConsumer, StreamDataConsumer
            from easynetwork.lowlevel.api_async.servers.stream import _BufferedRequestReceiver, _RequestReceiver

            if layer == "srv-copy":
                obj = _RequestReceiver(transport=tr, consumer=StreamDataConsumer(StreamProtocol(StringLineSerializer())), max_recv_size=64, disconnect_error_filter=None)
            else:
                obj = _BufferedRequestReceiver(transport=tr, consumer=BufferedStreamDataConsumer(BufferedStreamProtocol(StringLineSerializer(limit=32)), 64), disconnect_error_filter=None)
        else:
            obj = tr
        size = 2 if layer.endswith("2") else 64

        async def srv_next(timeout: float | None) -> Any:
            try:
                act = await obj.next(timeout)
            except StopAsyncIteration:
                return None
            if isinstance(act, SendAction):
                return act.value
            raise act.exception

        async def recv_once() -> Any:
            if layer.startswith("srv"):
                return await srv_next(None)
            if is_ep:
                try:
                    return await obj.recv_packet()
                except ConnectionAbortedError:
                    return None
            if layer.startswith("recv"):
                d = await obj.recv(size)
                return d if d else None
            buf = bytearray(size)
            n = await obj.recv_into(buf)
            return bytes(buf[:n]) if n else None

        async def first() -> None:
            if kind == "move_on_after":
                with backend.move_on_after(1.0) as scope:
                    r = await recv_once()
                    got.append(r)
                info["first"] = "cancelled" if scope.cancelled_caught() else "completed"
            elif kind == "timeout":
                try:
                    with backend.timeout(1.0):
                        r = await recv_once()
                        got.append(r)
                    info["first"] = "completed"
                except TimeoutError:
                    info["first"] = "cancelled"
            elif kind == "yielded_timeout":
                try:
                    r = await srv_next(1.0)
                    got.append(r)
                    info["first"] = "completed"
                except TimeoutError:
                    info["first"] = "cancelled"
            else:
                r = await recv_once()
                got.append(r)
                info["first"] = "completed"

        if kind == "canceller_task":
            st["wake"] = loop.create_future()

            async def canceller() -> None:
                await st["wake"]
                t = st["reader"]
                if t is not None:
                    t.cancel()

            ct = loop.create_task(canceller())
        t1 = loop.create_task(first())
        st["reader"] = t1
        st["ready"] = True
        await asyncio.wait([t1])
        if t1.cancelled():
            info["first"] = "cancelled"
        elif t1.exception() is not None:
            raise t1.exception()
        polls = 0
        while not (got and got[-1] is None):
            if layer.startswith("srv") and kind == "yielded_timeout" and polls % 2 == 0:
                # the handler polls with a zero timeout every other yield: a request that is already buffered must
                # still be delivered (now or at the next yield), never dropped
                polls += 1
                try:
                    got.append(await srv_next(0))
                except TimeoutError:
                    pass
                continue
            polls += 1
            got.append(await recv_once())
        if kind == "canceller_task":
            ct.cancel()

    status, value, loop = vloop.run(world, main)
    return {"status": status, "value": repr(value) if status != "ok" else None, "got": [g for g in got if g is not None], "first": info["first"],
            "trace": placer.trace, "is_ep": is_ep}


def oracle_async(obs: dict) -> str | None:
    if obs["status"] == "deadlock":
        return "deadlock"
    if obs["status"] == "horizon":
        return "never-finishes"
    if obs["status"] != "ok":
        return "unexpected-exception"
    if obs["is_ep"]:
        if obs["got"] != PACKETS:
            return "packets-lost-or-duplicated"
    else:
        data = b"".join(obs["got"])
        if data != STREAM:
            if len(data) < len(STREAM):
                return "bytes-lost"
            return "bytes-duplicated-or-reordered"
    return None


def jobs(tier: str) -> list[dict]:
    out: list[dict] = []
    for layer in LAYERS:
        n = len(PSTREAM) if layer.startswith(("ep", "srv")) else len(STREAM)
        for kind in CANCELLERS:
            if (kind == "yielded_timeout") != layer.startswith("srv") and not (layer.startswith("srv") and kind in ("task_cancel", "canceller_task")):
                continue
            cs = cuts_for(n, tier)
            parts = 4 if tier == "quick" else 16
            for part in range(parts):
                out.append({"kind": "async", "layer": layer, "canceller": kind, "part": part, "parts": parts, "tier": tier})
    for proto in ("copy", "buf"):
        out.append({"kind": "sync", "proto": proto, "tier": tier})
    from . import c10_tls

    out += c10_tls.jobs(tier)
    return out


def run_async_job(job: dict, res: JobResult) -> None:
    layer, kind = job["layer"], job["canceller"]
    n = len(PSTREAM) if layer.startswith(("ep", "srv")) else len(STREAM)
    bound = 3 if job["tier"] == "quick" else 4
    for i, cuts in enumerate(cuts_for(n, job["tier"])):
        if i % job["parts"] != job["part"]:
            continue
        cfg = {"layer": layer, "canceller": kind, "cuts": list(cuts)}
        found: dict[str, tuple[Ctx, dict]] = {}

        def check(ctx: Ctx, obs: dict) -> None:
            res.evaluations += 1
            bad = oracle_async(obs)
            res.outcome(("first-" + str(obs["first"])) if bad is None else "VIOLATION:" + bad)
            if obs["first"] == "cancelled":
                shape = tuple((kind_, names) for _sel, kind_, names in obs["trace"])
                res.nontrivial.add(digest((layer, kind, shape, tuple(obs["got"]), bad)))
            if bad is not None:
                key = bad
                if key not in found or len(ctx.choices) < len(found[key][0].choices):
                    found[key] = (ctx, obs)

        stats = explore(lambda ctx: run_async(ctx, cfg), bound=bound, check=check, max_runs=60000)
        res.transitions += stats["points"]
        if stats["cap_hit"]:
            res.caps.append(f"max_runs hit for {cfg}")
        for bad, (ctx, obs) in found.items():
            fam = "external-buffer" if layer in ("into2", "into64", "ep-buf", "srv-buf") else "copying"
            res.violations.append(Violation(
                f"async/{fam}/{kind}/{bad}",
                f"layer={layer} canceller={kind} writes={[len(x) for x in _pieces(cfg)]}: receives after the cancelled receive #1 returned "
                f"{obs['got']!r} (status {obs['status']} {obs['value']}); schedule={obs['trace']} choices={ctx.choices}",
                {"kind": "async", "cfg": cfg, "choices": list(ctx.choices), "labels": [p[1] for p in ctx.points]},
            ))
        if len(res.samples) < 2:
            res.samples.append({"layer": layer, "canceller": kind, "cuts": list(cuts), "executions": stats["runs"], "busy_placement_bound": bound})


def _pieces(cfg: dict) -> list[bytes]:
    stream = PSTREAM if cfg["layer"].startswith(("ep", "srv")) else STREAM
    b = [0] + list(cfg["cuts"]) + [len(stream)]
    return [stream[x:y] for x, y in zip(b, b[1:])]


# ---------------------------------------------------------------------------------------------------------
# blocking endpoint: recv_packet(timeout) ending in TimeoutError must not lose what was received so far


def run_sync(ctx: Ctx, cfg: dict) -> dict:
    world = World(ctx, horizon=400)
    world.install_clock()
    sock = world.stream_socket()
    try:
        tr = SocketStreamTransport(sock, math.inf, selector_factory=lambda: VSelector(world))
        if cfg["proto"] == "copy":
            ep: Any = StreamEndpoint(tr, StreamProtocol(StringLineSerializer()), max_recv_size=64)
        else:
            ep = StreamEndpoint(tr, BufferedStreamProtocol(StringLineSerializer(limit=32)), max_recv_size=64)
        bounds = [0] + list(cfg["cuts"]) + [len(PSTREAM)]
        pieces = [PSTREAM[a:b] for a, b in zip(bounds, bounds[1:])]
        for when, p in zip(cfg["times"], pieces):
            world.at(when, (lambda p=p: sock.rx.put(p)))
        world.at(max(cfg["times"]) + 5.0, lambda: setattr(sock.rx, "eof", True))
        got: list[Any] = []
        timeouts = 0
        result = "ok"
        try:
            for _ in range(40):
                try:
                    got.append(ep.recv_packet(timeout=cfg["timeout"]))
                except TimeoutError:
                    timeouts += 1
                    if not cfg["timeout"]:
                        world.advance(0.25)  # a zero-timeout caller polls: time passes between polls
                except ConnectionAbortedError:
                    break
            else:
                result = "never-reaches-eof"
        except BaseException as exc:  # noqa: BLE001
            from ..core import Deadlock, HorizonHit

            if isinstance(exc, (Deadlock, HorizonHit)):
                result = type(exc).__name__
            else:
                raise
    finally:
        world.close_all()
        world.restore_clock()
    return {"result": result, "got": got, "timeouts": timeouts}


def run_sync_job(job: dict, res: JobResult) -> None:
    # arrival instants: a grid that never coincides with a multiple of the timeout (0.7): gaps shorter and longer than it
    grid = (0.0, 0.3, 0.95, 1.55, 2.9)
    n = len(PSTREAM)
    for cuts in cuts_for(n, job["tier"]):
        k = len(cuts) + 1
        for times in itertools.combinations_with_replacement(grid, k):
            for timeout in (0.7, 0):
                cfg = {"proto": job["proto"], "cuts": list(cuts), "times": list(times), "timeout": timeout}
                obs = run_sync(Ctx(), cfg)
                res.evaluations += 1
                res.transitions += obs["timeouts"] + len(obs["got"])
                ok = obs["result"] == "ok" and obs["got"] == PACKETS
                if obs["timeouts"]:
                    res.nontrivial.add(digest(("sync", job["proto"], tuple(cuts), tuple(times), timeout, obs["timeouts"], ok)))
                res.outcome(("sync-ok-after-%s-timeouts" % ("some" if obs["timeouts"] else "no")) if ok else "VIOLATION:sync")
                if not ok:
                    res.violations.append(Violation(
                        f"sync/{job['proto']}/packets-lost-after-timeout",
                        f"blocking StreamEndpoint ({job['proto']}) writes at {times} cuts={cuts} timeout={timeout}: got {obs['got']!r} result={obs['result']} after {obs['timeouts']} TimeoutError",
                        {"kind": "sync", "cfg": cfg, "choices": []},
                    ))


def run_job(job: dict) -> JobResult:
    if job["kind"] == "tls":
        from . import c10_tls

        return c10_tls.run_job(job)
    res = JobResult()
    if job["kind"] == "async":
        run_async_job(job, res)
    else:
        run_sync_job(job, res)
    return res


def replay(doc: dict) -> tuple[bool, str]:
    rp = doc["replay"]
    if rp["kind"] == "tls":
        from . import c10_tls

        return c10_tls.replay(doc)
    if rp["kind"] == "sync":
        obs = run_sync(Ctx(), rp["cfg"])
        bad = None if (obs["result"] == "ok" and obs["got"] == PACKETS) else "sync"
        return bad is not None, f"cfg={rp['cfg']}\nobserved={obs}"
    ctx = Ctx(rp["choices"])
    obs = run_async(ctx, rp["cfg"])
    bad = oracle_async(obs)
    lines = [f"cfg={rp['cfg']}", f"choices={rp['choices']}", "labels=" + ",".join(p[1] for p in ctx.points),
             f"peer writes={_pieces(rp['cfg'])}", f"placement trace (select#, when, events)={obs['trace']}",
             f"receive #1: {obs['first']}", f"data returned by completed receives: {obs['got']!r}", f"status={obs['status']} {obs['value']}", f"oracle: {bad}"]
    return bad is not None, "\n".join(lines)
