"""C12 (async TLS transport part): two tasks call AsyncTLSStreamTransport.send_all concurrently while a third task is
parked in recv; the wrapped (in-memory) transport suspends inside send_all.  Every start order x per-call checkpoint patterns of the leaf x sizes;
the peer (independent stdlib SSLObject) must decrypt exactly the two writes, each contiguous."""
from __future__ import annotations

import asyncio
import itertools
from typing import Any

from easynetwork.lowlevel.api_async.backend._asyncio.backend import AsyncIOBackend
from easynetwork.lowlevel.api_async.transports.tls import AsyncTLSStreamTransport

from .. import tlsrig, vloop
from ..core import Ctx, JobResult, Violation, digest
from ..world import World

SIZES = [(40000, 17), (17, 40000), (20000, 20000), (1, 1)]
PATTERNS = [(0,), (1,), (3,), (3, 0), (0, 3), (3, 1), (1, 3), (5, 0, 2)]  # checkpoints inside the i-th leaf send_all call


class PatternLeaf(tlsrig.MemTransport):
    """leaf transport whose i-th send_all() suspends for pattern[i] checkpoints (a slow write followed by a fast one...)"""

    pattern: tuple = (0,)
    _ncall = 0
    armed = False

    async def send_all(self, data: Any) -> None:
        if self.armed:
            self.send_checkpoints = self.pattern[self._ncall % len(self.pattern)] if self._ncall < len(self.pattern) else 0
            self._ncall += 1
        await super().send_all(data)


def run(cfg: dict) -> dict:
    world = World(Ctx(), horizon=4000)
    version, role = cfg["version"], cfg["role"]
    relay = tlsrig.make_peer_and_relay(version, role, script=[])
    world.env = relay.env
    out: dict[str, Any] = {}
    a = b"A" * cfg["sizes"][0]
    b = b"B" * cfg["sizes"][1]

    async def main(loop: Any) -> None:
        leaf = PatternLeaf(AsyncIOBackend(), send_checkpoints=0)
        leaf.pattern = tuple(cfg["pattern"])
        relay.link = tlsrig.AsyncLink(relay, leaf)
        tls = await AsyncTLSStreamTransport.wrap(leaf, tlsrig.lib_context(version, role), server_side=(role == "server"),
                                                 server_hostname=tlsrig.HOSTNAME if role == "client" else None)
        leaf.armed = True
        results: dict[str, str] = {}

        async def sender(name: str, data: bytes) -> None:
            try:
                if cfg["api"] == "send_all":
                    await tls.send_all(data)
                else:
                    await tls.send_all_from_iterable([data[:1], data[1:]])
                results[name] = "ok"
            except Exception as exc:  # noqa: BLE001
                results[name] = "raised:" + type(exc).__name__

        async def reader() -> None:
            try:
                await tls.recv(100)
                results["R"] = "returned"
            except asyncio.CancelledError:
                results["R"] = "cancelled"
                raise
            except Exception as exc:  # noqa: BLE001
                results["R"] = "raised:" + type(exc).__name__

        makers = {"A": lambda: sender("A", a), "B": lambda: sender("B", b), "R": reader}
        tasks = {n: loop.create_task(makers[n]()) for n in cfg["order"]}
        await asyncio.wait([tasks["A"], tasks["B"]])
        for _ in range(4):
            await asyncio.sleep(0)
        relay.drain()
        tasks["R"].cancel()
        await asyncio.wait([tasks["R"]])
        out["results"] = results
        out["received"] = bytes(relay.peer.received)
        out["peer_events"] = [e for e in relay.peer.events if e[0].endswith("error")]

    status, value, _loop = vloop.run(world, main)
    tlsrig.gc_tick()
    out["status"] = status
    out["value"] = repr(value)[:120] if status != "ok" else None
    out["expected"] = (a, b)
    return out


def oracle(obs: dict) -> str | None:
    if obs["status"] != "ok":
        return "hang-or-crash-" + obs["status"]
    r = obs["results"]
    if r.get("A") != "ok" or r.get("B") != "ok":
        return "send-failed"
    if obs["peer_events"]:
        return "peer-cannot-decrypt-the-stream"
    a, b = obs["expected"]
    if obs["received"] not in (a + b, b + a):
        return "plaintext-interleaved-or-lost"
    return None


def jobs(tier: str) -> list[dict]:
    tlsrig.ensure_cert()
    return [{"part": "tls", "version": v, "role": r, "tier": tier} for v in tlsrig.VERSIONS for r in tlsrig.ROLES]


def run_job(job: dict) -> JobResult:
    res = JobResult()
    for order in itertools.permutations("ABR"):
        for cp in PATTERNS:
            for sizes in SIZES:
                for api in ("send_all", "iter"):
                    cfg = {"version": job["version"], "role": job["role"], "order": list(order), "pattern": list(cp), "sizes": list(sizes), "api": api}
                    obs = run(cfg)
                    res.evaluations += 1
                    bad = oracle(obs)
                    res.outcome("tls-senders-ok" if bad is None else "VIOLATION:" + bad)
                    res.nontrivial.add(digest(("tls", tuple(order), cp, tuple(sizes), api, obs["received"][:1], bad)))
                    if bad and not any(v.key == f"async/tls/{bad}" for v in res.violations):
                        res.violations.append(Violation(f"async/tls/{bad}", f"{cfg}: results={obs.get('results')} peer received {len(obs.get('received', b''))} bytes, peer errors {obs.get('peer_events')} status={obs['status']} {obs['value']}",
                                                        {"part": "tls", "cfg": cfg, "choices": []}))
    res.samples.append({"part": "tls-concurrent-senders", "version": job["version"], "role": job["role"], "orders": 6, "leaf_send_checkpoint_patterns": [list(p) for p in PATTERNS], "sizes": SIZES})
    return res


def replay(doc: dict) -> tuple[bool, str]:
    obs = run(doc["replay"]["cfg"])
    bad = oracle(obs)
    obs["received"] = f"{len(obs.get('received', b''))} bytes"
    obs.pop("expected", None)
    return bad is not None, f"cfg={doc['replay']['cfg']}\nobserved={obs}\noracle: {bad}"
