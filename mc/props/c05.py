"""C05 - datagrams: one packet per datagram, boundaries preserved, errors isolated.

(A) protocol level, every serializer of the zoo + pickle (restricted unpickler): every packet of the alphabet round-trips through
    make_datagram / build_packet_from_datagram; every datagram sequence of length <= 3 over the variant set {valid(p) for two
    packets, truncated, one extra byte, two frames concatenated, empty} through ONE shared protocol object must give, datagram by
    datagram, exactly what a fresh protocol object gives for that datagram alone (explicit-state: the state is the sequence
    prefix; the protocol object must be stateless, which is what is checked).
(B) endpoint level: blocking DatagramEndpoint / UDPNetworkClient on a FakeSocket, AsyncDatagramEndpoint / AsyncUDPNetworkClient
    on the real asyncio loop: k sends => exactly k datagrams equal to make_datagram(p); k received datagrams => exactly k results.
"""
from __future__ import annotations

import asyncio
import errno
import itertools
import math
import pickle
from typing import Any

from easynetwork.clients.async_udp import AsyncUDPNetworkClient
from easynetwork.clients.udp import UDPNetworkClient
from easynetwork.exceptions import DatagramProtocolParseError, DeserializeError
from easynetwork.lowlevel.api_async.backend._asyncio.backend import AsyncIOBackend
from easynetwork.lowlevel.api_async.endpoints.datagram import AsyncDatagramEndpoint
from easynetwork.lowlevel.api_sync.endpoints.datagram import DatagramEndpoint
from easynetwork.lowlevel.api_sync.transports import base_selector as _base_selector
from easynetwork.lowlevel.api_sync.transports.socket import SocketDatagramTransport
from easynetwork.protocol import DatagramProtocol
from easynetwork.serializers import JSONSerializer, PickleSerializer, StringLineSerializer

from .. import vloop, zoo
from ..core import Ctx, JobResult, Violation, digest
from ..world import VSelector, World
from .c03 import _shim_selectors

PROPERTY = "C05"
LEVEL = "model_checking"
RULE = (
    "(A) for every serializer configuration: all packets round-trip; ALL datagram sequences of length <= 4 (thorough 5) over the "
    "variant set (2 valid packets, truncation at every offset of the first, extra byte, two frames concatenated, empty payload) through "
    "one shared DatagramProtocol, compared datagram by datagram with a fresh protocol object; for the base-class serializers every "
    "proper prefix and frame+extra byte must be a parse error; (B) sequences of <= 4 (thorough 5) datagrams over {valid a, valid b, malformed, "
    "empty, two concatenated, and at most one transport fault (EMSGSIZE reported by the socket between two datagrams; async subjects also with everything queued before the first receive)} through four endpoint/client implementations in both directions; (C) JSON-string datagrams of 1000..65527 bytes (65527 = largest UDP payload over IPv6) "
    "received and sent through the same four implementations, alone and around a malformed datagram: never truncated, split or merged; states = distinct (configuration, sequence prefix) "
    "reached, transitions = datagrams processed; distinct_nontrivial = distinct (configuration, sequence) containing a malformed datagram"
)
ASSUMPTIONS = ["pickle is driven through a restricted Unpickler (find_class always raises)", "datagrams are delivered whole by the fake kernel, truncated to the bufsize passed to recv()/recvfrom() exactly as a datagram socket does"]
BOUNDS = {"quick": "sequences <= 4; size band: 9 sizes alone + one third of the (size, bad, size) triples", "thorough": "sequences <= 5; size band: 9 sizes alone + all 81 (size, bad, size) triples"}


class _NoGlobals(pickle.Unpickler):
    def find_class(self, module: str, name: str) -> Any:
        raise pickle.UnpicklingError("globals are forbidden")


def all_cfgs() -> list[zoo.SerCfg]:
    cfgs = [c for c in zoo.configs()]
    cfgs.append(zoo.SerCfg("pickle", lambda: PickleSerializer(unpickler_cls=_NoGlobals), [{"a": 1}, [1, "x"], None], buffered=False, datagram_only=True))
    return cfgs


def outcome(proto: DatagramProtocol, d: bytes) -> tuple:
    try:
        return ("P", repr(proto.build_packet_from_datagram(d)))
    except DatagramProtocolParseError as exc:
        return ("E", type(exc.error).__name__)
    except Exception as exc:  # noqa: BLE001
        return ("X", type(exc).__name__)


def variants(cfg: zoo.SerCfg) -> list[tuple[str, bytes]]:
    proto = cfg.datagram_protocol()
    p0, p1 = cfg.packets[0], cfg.packets[-1]
    d0, d1 = proto.make_datagram(p0), proto.make_datagram(p1)
    out = [("valid0", d0), ("valid1", d1)]
    for off in range(0, len(d0)):
        out.append((f"trunc{off}", d0[:off]))
    out.append(("extra", d0 + b"\x00"))
    out.append(("extra-sep", d0 + b"\n"))
    out.append(("concat", d0 + d1))
    # de-duplicate payloads, keep order
    seen = set()
    uniq = []
    for n, d in out:
        if d not in seen:
            seen.add(d)
            uniq.append((n, d))
    return uniq


def run_protocol_job(cfg: zoo.SerCfg, tier: str, res: JobResult) -> None:
    proto = cfg.datagram_protocol()
    # round trip of every packet
    for p in cfg.packets:
        res.evaluations += 1
        try:
            d = proto.make_datagram(p)
            back = cfg.datagram_protocol().build_packet_from_datagram(d)
            ok = back == p and isinstance(d, bytes)
        except Exception as exc:  # noqa: BLE001
            ok, back = False, repr(exc)
        res.outcome("roundtrip-ok" if ok else "VIOLATION:roundtrip")
        if not ok:
            res.violations.append(Violation(f"protocol/{cfg.name.split('/')[0]}/roundtrip", f"{cfg.name}: datagram of {p!r} decodes to {back!r}", {"part": "A", "cfg": cfg.name, "seq": ["valid0"]}))
    vs = variants(cfg)
    ref = {n: outcome(cfg.datagram_protocol(), d) for n, d in vs}
    for n, d in vs:
        if ref[n][0] == "X":
            res.outcome("VIOLATION:escape")
            res.violations.append(Violation(f"protocol/{cfg.name.split('/')[0]}/non-parse-error-escapes", f"{cfg.name}: datagram {d!r} -> {ref[n]}", {"part": "A", "cfg": cfg.name, "seq": [n]}))
    if cfg.name.startswith(("filebased", "genreader")):
        # default one-shot deserialize derived from the incremental interface: prefixes and extra bytes are errors
        for n, d in vs:
            if (n.startswith("trunc") or n in ("extra", "concat")) and ref[n][0] != "E":
                res.outcome("VIOLATION:base-class-accepts-malformed")
                res.violations.append(Violation(f"protocol/{cfg.name.split('/')[0]}/malformed-datagram-accepted", f"{cfg.name}: malformed datagram {d!r} ({n}) -> {ref[n]}", {"part": "A", "cfg": cfg.name, "seq": [n]}))
    # reduce the variant set for sequences: 2 valid + up to 6 malformed of distinct outcome/shape
    keep = [v for v in vs if v[0].startswith("valid")]
    mal = [v for v in vs if not v[0].startswith("valid")]
    step = max(1, len(mal) // 6)
    keep += mal[::step][:6]
    maxlen = 4 if tier == "quick" else 5
    states = set()
    for L in range(1, maxlen + 1):
        for seq in itertools.product(keep, repeat=L):
            shared = cfg.datagram_protocol() if L == 1 else None
            shared = cfg.datagram_protocol()
            got = []
            for n, d in seq:
                got.append(outcome(shared, d))
                res.transitions += 1
            res.evaluations += 1
            names = tuple(n for n, _ in seq)
            for i in range(1, L + 1):
                states.add(names[:i])
            exp = [ref[n] for n in names]
            if any(not n.startswith("valid") for n in names):
                res.nontrivial.add(digest((cfg.name, names)))
            if got != exp:
                res.outcome("VIOLATION:datagram-result-depends-on-history")
                if not any(v.key.endswith("history-dependent") and cfg.name in v.message for v in res.violations):
                    res.violations.append(Violation(f"protocol/{cfg.name.split('/')[0]}/history-dependent", f"{cfg.name}: sequence {names} gives {got}, each datagram alone gives {exp}",
                                                    {"part": "A", "cfg": cfg.name, "seq": list(names)}))
            else:
                res.outcome("sequence-ok")
    res.states += len(states)
    if len(res.samples) < 2:
        res.samples.append({"part": "protocol", "config": cfg.name, "variants": [n for n, _ in keep], "reference_outcomes": {n: ref[n] for n, _ in keep}})


# ---------------------------------------------------------------------------------------------------------
# (B) endpoints

EP_DGRAMS = {"a": b'{"a":1}', "b": b"[2]", "bad": b"{oops", "empty": b"", "two": b'{"a":1}[2]', "fault": None}  # fault: a transport error (EMSGSIZE) reported between datagrams
EP_PACKETS = {"a": {"a": 1}, "b": [2]}
EP_REF = {"a": ("P", {"a": 1}), "b": ("P", [2]), "bad": ("E",), "empty": ("E",), "two": ("E",)}  # (a fault is not a datagram: no entry)


def _rx_item(EP_DGRAMS: dict, k: str) -> Any:
    if EP_DGRAMS[k] is None:
        return OSError(errno.EMSGSIZE, "Message too long")
    return EP_DGRAMS[k]



def run_endpoint(subject: str, seq: tuple[str, ...], EP_DGRAMS: dict = EP_DGRAMS, EP_PACKETS: dict = EP_PACKETS, prefetch: bool = False) -> dict:
    world = World(Ctx(), horizon=600)
    sock = world.dgram_socket()
    proto = DatagramProtocol(JSONSerializer())
    got: list[tuple] = []
    sends = [k for k in seq if k in EP_PACKETS]
    if subject in ("sync-endpoint", "sync-client"):
        world.install_clock()
        saved = _base_selector.selectors
        try:
            if subject == "sync-endpoint":
                subj: Any = DatagramEndpoint(SocketDatagramTransport(sock, math.inf, selector_factory=lambda: VSelector(world)), proto)
            else:
                _base_selector.selectors = _shim_selectors(world)  # type: ignore[assignment]
                subj = UDPNetworkClient(sock, proto, retry_interval=math.inf)
            for k in seq:
                sock.rxd.append((_rx_item(EP_DGRAMS, k), ("127.0.0.1", 40000)))
            for k in seq:
                try:
                    got.append(("P", subj.recv_packet(timeout=0)))
                except DatagramProtocolParseError:
                    got.append(("E",))
                except Exception as exc:  # noqa: BLE001
                    got.append(("X", type(exc).__name__))
            try:
                subj.recv_packet(timeout=0)
                got.append(("EXTRA",))
            except TimeoutError:
                pass
            for k in sends:
                subj.send_packet(EP_PACKETS[k])
        finally:
            _base_selector.selectors = saved  # type: ignore[assignment]
            sent = [p for p, _a in sock.txd]
            world.close_all()
            world.restore_clock()
        return {"got": got, "sent": sent}

    async def main(loop: Any) -> None:
        backend = AsyncIOBackend()
        if subject == "async-endpoint":
            tr = await backend.wrap_connected_datagram_socket(sock)
            subj: Any = AsyncDatagramEndpoint(tr, proto)
        else:
            subj = AsyncUDPNetworkClient(sock, proto, backend)
            await subj.wait_connected()
        for k in seq:
            sock.rxd.append((_rx_item(EP_DGRAMS, k), ("127.0.0.1", 40000)))
        if prefetch:
            # everything (datagrams and faults) reaches the endpoint's queue before the application asks for the first packet
            for _ in range(2 * len(seq) + 2):
                await asyncio.sleep(0)
        for k in seq:
            try:
                got.append(("P", await subj.recv_packet()))
            except DatagramProtocolParseError:
                got.append(("E",))
            except Exception as exc:  # noqa: BLE001
                got.append(("X", type(exc).__name__))
        try:
            with backend.timeout(1.0):
                await subj.recv_packet()
            got.append(("EXTRA",))
        except TimeoutError:
            pass
        for k in sends:
            await subj.send_packet(EP_PACKETS[k])

    status, value, loop = vloop.run(world, main)
    sent = [p for p, _a in sock.txd]
    if status != "ok":
        got.append(("STATUS", status, repr(value)[:80]))
    return {"got": got, "sent": sent}


def run_endpoint_job(subject: str, tier: str, res: JobResult) -> None:
    maxlen = 4 if tier == "quick" else 5
    states = set()
    for L in range(1, maxlen + 1):
        for seq in itertools.product(EP_DGRAMS, repeat=L):
            nfault = seq.count("fault")
            if nfault > 1 or (tier == "quick" and nfault and L == maxlen):
                continue  # at most one transport fault per sequence (quick: not in the longest sequences)
            for prefetch in ((False, True) if (nfault and subject.startswith("async")) else (False,)):
                obs = run_endpoint(subject, seq, prefetch=prefetch)
                res.evaluations += 1
                res.transitions += L
                for i in range(1, L + 1):
                    states.add(seq[:i])
                exp = [EP_REF[k] for k in seq if k != "fault"]
                exp_sent = [EP_DGRAMS[k] for k in seq if k in EP_PACKETS]
                if any(k not in EP_PACKETS for k in seq):
                    res.nontrivial.add(digest((subject, seq, prefetch)))
                got = obs["got"]
                if nfault:
                    # a transport fault is reported as OSError by some receive call (at most once per fault, plus the time-outs of the calls
                    # it displaced); the DATAGRAMS still yield exactly their results, in order
                    oserrors = [g for g in got if g[0] == "X" and g[1] in ("OSError", "ConnectionAbortedError", "TimeoutError")]
                    got = [g for g in got if g not in oserrors]
                bad = None
                if got != exp:
                    bad = "received-results-differ-from-per-datagram-reference" if not nfault else "datagram-lost-or-altered-around-a-transport-fault"
                elif obs["sent"] != exp_sent:
                    bad = "sent-datagrams-differ"
                res.outcome(f"{subject}-ok" if bad is None else "VIOLATION:" + bad)
                if bad and not any(v.key == f"endpoint/{subject}/{bad}" for v in res.violations):
                    res.violations.append(Violation(f"endpoint/{subject}/{bad}", f"{subject} datagrams {seq} (prefetch={prefetch}): results {obs['got']} expected {exp}; sent {obs['sent']} expected {exp_sent}",
                                                    {"part": "B", "subject": subject, "seq": list(seq), "prefetch": prefetch}))
    res.states += len(states)
    res.samples.append({"part": "endpoint", "subject": subject, "alphabet": {k: (v.decode() if v is not None else "transport fault EMSGSIZE") for k, v in EP_DGRAMS.items()}, "max_sequence": maxlen})


# (C) size band: datagrams up to the largest UDP payload (65527 bytes over IPv6; 65507 over IPv4) are neither truncated nor split
SIZE_BAND = (1000, 8192, 8193, 65506, 65507, 65508, 65520, 65526, 65527)


def size_tables() -> tuple[dict, dict, dict]:
    dgrams = {f"s{n}": b'"' + bytes(97 + (i % 23) for i in range(n - 2)) + b'"' for n in SIZE_BAND}
    dgrams["bad"] = b"{oops"
    packets = {k: v[1:-1].decode() for k, v in dgrams.items() if k != "bad"}
    ref = {k: ("P", packets[k]) if k in packets else ("E",) for k in dgrams}
    return dgrams, packets, ref


def run_size_job(subject: str, tier: str, res: JobResult) -> None:
    dgrams, packets, ref = size_tables()
    names = [f"s{n}" for n in SIZE_BAND]
    seqs = [(a,) for a in names] + [(a, "bad", b) for a in names for b in names if tier != "quick" or (SIZE_BAND.index(int(a[1:])) + SIZE_BAND.index(int(b[1:]))) % 3 == 0]
    for seq in seqs:
        obs = run_endpoint(subject, seq, dgrams, packets)
        res.evaluations += 1
        res.transitions += len(seq)
        exp = [ref[k] for k in seq]
        exp_sent = [dgrams[k] for k in seq if k in packets]
        res.nontrivial.add(digest((subject, "size", seq)))
        bad = None
        if obs["got"] != exp:
            bad = "large-datagram-not-delivered-intact"
        elif obs["sent"] != exp_sent:
            bad = "large-packet-not-sent-as-one-intact-datagram"
        res.outcome(f"{subject}-size-ok" if bad is None else "VIOLATION:" + bad)
        if bad and not any(v.key == f"endpoint/{subject}/{bad}" for v in res.violations):
            short = [(g[0], len(g[1]) if len(g) > 1 and isinstance(g[1], str) else g[1:]) for g in obs["got"]]
            res.violations.append(Violation(f"endpoint/{subject}/{bad}", f"{subject} datagram sizes {seq}: results (kind, length) {short}; sent lengths {[len(x) for x in obs['sent']]}",
                                            {"part": "C", "subject": subject, "seq": list(seq)}))
    res.states += len(seqs)
    res.samples.append({"part": "size-band", "subject": subject, "sizes": list(SIZE_BAND), "sequences": len(seqs)})


def jobs(tier: str) -> list[dict]:
    return [{"part": "A", "cfg": c.name, "tier": tier} for c in all_cfgs()] + [{"part": p, "subject": s, "tier": tier} for p in ("B", "C") for s in ("sync-endpoint", "sync-client", "async-endpoint", "async-client")]


def run_job(job: dict) -> JobResult:
    res = JobResult()
    if job["part"] == "A":
        cfg = next(c for c in all_cfgs() if c.name == job["cfg"])
        run_protocol_job(cfg, job["tier"], res)
    elif job["part"] == "C":
        run_size_job(job["subject"], job["tier"], res)
    else:
        run_endpoint_job(job["subject"], job["tier"], res)
    return res


def replay(doc: dict) -> tuple[bool, str]:
    rp = doc["replay"]
    if rp["part"] == "B":
        obs = run_endpoint(rp["subject"], tuple(rp["seq"]), prefetch=rp.get("prefetch", False))
        exp = [EP_REF[k] for k in rp["seq"] if k != "fault"]
        exp_sent = [EP_DGRAMS[k] for k in rp["seq"] if k in EP_PACKETS]
        got = [g for g in obs["got"] if not ("fault" in rp["seq"] and g[0] == "X" and g[1] in ("OSError", "ConnectionAbortedError", "TimeoutError"))]
        return got != exp or obs["sent"] != exp_sent, f"subject={rp['subject']} seq={rp['seq']}\nobserved={obs}\nexpected results={exp} sent={exp_sent}"
    if rp["part"] == "C":
        dgrams, packets, ref = size_tables()
        obs = run_endpoint(rp["subject"], tuple(rp["seq"]), dgrams, packets)
        exp = [ref[k] for k in rp["seq"]]
        exp_sent = [dgrams[k] for k in rp["seq"] if k in packets]
        short = [(g[0], len(g[1]) if len(g) > 1 and isinstance(g[1], str) else g[1:]) for g in obs["got"]]
        return obs["got"] != exp or obs["sent"] != exp_sent, (f"subject={rp['subject']} sizes={rp['seq']}\nresults (kind, length)={short}\n"
                                                               f"sent lengths={[len(x) for x in obs['sent']]} expected {[len(x) for x in exp_sent]}")
    cfg = next(c for c in all_cfgs() if c.name == rp["cfg"])
    vs = dict(variants(cfg))
    shared = cfg.datagram_protocol()
    got = [outcome(shared, vs[n]) for n in rp["seq"]]
    exp = [outcome(cfg.datagram_protocol(), vs[n]) for n in rp["seq"]]
    bad = got != exp or any(g[0] == "X" for g in got)
    if rp["seq"] == ["valid0"]:
        p = cfg.packets[0]
        bad = bad or cfg.datagram_protocol().build_packet_from_datagram(cfg.datagram_protocol().make_datagram(p)) != p
    return bad, f"config={cfg.name} sequence={rp['seq']}\ndatagrams={[vs[n] for n in rp['seq']]}\nshared protocol: {got}\nfresh protocol each: {exp}"
