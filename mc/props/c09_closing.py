"""C09 while the library itself is closing: a reader task is parked in recv()/recv_into() when another task calls aclose()
(the library's close_notify goes out, the close waits for the peer's).  The peer then (a) answers with its close_notify,
(b) ends the connection WITHOUT one (k relay steps after it saw ours), or (c) stays silent until the shutdown timeout.
In standard-compatible mode the parked reader may report a clean end-of-stream only in (a); in every case a close that
returns normally has sent the library's close_notify (the peer saw it).  With standard-compatible mode disabled an abrupt
end is a clean end-of-stream and no close_notify is owed."""
from __future__ import annotations

import asyncio
import ssl
from typing import Any

from easynetwork.lowlevel.api_async.backend._asyncio.backend import AsyncIOBackend
from easynetwork.lowlevel.api_async.transports.tls import AsyncTLSStreamTransport

from .. import tlsrig, vloop
from ..core import Ctx, JobResult, Violation, digest
from ..world import World

PEERS = ("answers", "cuts", "silent")


def run(cfg: dict) -> dict:
    version, role, std = cfg["version"], cfg["role"], cfg["std"]
    world = World(Ctx(), horizon=4000)
    relay = tlsrig.make_peer_and_relay(version, role, script=[], auto_reply_close=(cfg["peer"] == "answers"))
    st = {"seen_steps": 0, "cut_done": False}
    out: dict[str, Any] = {"reader": None, "close": None}

    def env(w: Any, sel: Any, timeout: float | None) -> None:
        relay.env(w, sel, timeout)
        if cfg["peer"] == "cuts" and relay.peer.saw_close_notify and not st["cut_done"]:
            if st["seen_steps"] >= cfg["cut_delay"]:
                st["cut_done"] = True
                relay.link.deliver_eof(False)  # the connection ends: raw EOF, no close_notify from the peer
            st["seen_steps"] += 1

    world.env = env

    async def main(loop: Any) -> None:
        leaf = tlsrig.MemTransport(AsyncIOBackend())
        relay.link = tlsrig.AsyncLink(relay, leaf)
        tls = await AsyncTLSStreamTransport.wrap(leaf, tlsrig.lib_context(version, role), server_side=(role == "server"),
                                                 server_hostname=tlsrig.HOSTNAME if role == "client" else None, standard_compatible=std,
                                                 shutdown_timeout=2.0)

        async def reader() -> None:
            try:
                if cfg["recv"] == "recv":
                    d = await tls.recv(100)
                else:
                    buf = bytearray(100)
                    d = bytes(buf[: await tls.recv_into(buf)])
                out["reader"] = ("eof",) if not d else ("data", len(d))
            except asyncio.CancelledError:
                out["reader"] = ("cancelled",)
                raise
            except Exception as exc:  # noqa: BLE001
                out["reader"] = ("error", type(exc).__name__, isinstance(exc, (ssl.SSLError, OSError)))

        async def closer() -> None:
            try:
                await tls.aclose()
                out["close"] = ("returned",)
            except Exception as exc:  # noqa: BLE001
                out["close"] = ("raised", type(exc).__name__)

        rt = loop.create_task(reader())
        for _ in range(3 + cfg["closer_delay"]):
            await asyncio.sleep(0)
        out["reader_parked"] = not rt.done()
        ct = loop.create_task(closer())
        await asyncio.wait([rt, ct], timeout=60.0)
        out["pending"] = [n for n, t in (("reader", rt), ("closer", ct)) if not t.done()]
        for t in (rt, ct):
            t.cancel()
        relay.drain()
        out["leaf_closed"] = leaf.is_closing()

    status, value, _loop = vloop.run(world, main)
    out["status"] = status
    out["error"] = None if status == "ok" else repr(value)[:160]
    out["peer_saw_close_notify"] = relay.peer.saw_close_notify
    out["elapsed"] = round(world.clock, 3)
    tlsrig.gc_tick()
    return out


def oracle(cfg: dict, obs: dict) -> str | None:
    if obs["status"] != "ok":
        return "hang-or-crash:" + obs["status"]
    if obs.get("pending"):
        return "never-finishes:" + "+".join(obs["pending"])
    if not obs.get("reader_parked"):
        return None  # (the reader ended before the close began: the main C09 scenarios)
    r, c = obs["reader"], obs["close"]
    if cfg["std"]:
        if cfg["peer"] != "answers" and r == ("eof",):
            return "parked-reader-got-clean-end-of-stream-without-the-peers-close_notify"
        if c == ("returned",) and not obs["peer_saw_close_notify"]:
            return "close-returned-without-sending-close_notify"
    if r is not None and r[0] == "data":
        return "phantom-data"
    if r is not None and r[0] == "error" and not r[2]:
        return "reader-raised-unexpected-" + r[1]
    if cfg["peer"] == "answers" and cfg["std"] and r != ("eof",):
        return "clean-close-reported-as-error-to-the-parked-reader"
    if not obs["leaf_closed"]:
        return "wrapped-transport-left-open"
    return None


def jobs(tier: str) -> list[dict]:
    tlsrig.ensure_cert()
    return [{"kind": "closing", "version": v, "role": r, "tier": tier} for v in tlsrig.VERSIONS for r in tlsrig.ROLES]


def run_job(job: dict) -> JobResult:
    res = JobResult()
    for std in (True, False):
        for recv in ("recv", "recv_into"):
            for peer in PEERS:
                for closer_delay in ((0, 2) if job["tier"] == "quick" else (0, 1, 2, 3)):
                    for cut_delay in ((0, 1, 3) if peer == "cuts" else (0,)):
                        cfg = {"version": job["version"], "role": job["role"], "std": std, "recv": recv, "peer": peer, "closer_delay": closer_delay, "cut_delay": cut_delay}
                        obs = run(cfg)
                        res.evaluations += 1
                        res.transitions += 2
                        bad = oracle(cfg, obs)
                        res.outcome(f"closing-{peer}-reader-{obs['reader'][0] if obs['reader'] else 'none'}" if bad is None else "VIOLATION:" + bad)
                        res.nontrivial.add(digest(("closing", job["version"], job["role"], std, recv, peer, closer_delay, cut_delay, obs["reader"], obs["close"])))
                        key = f"closing/std={std}/{peer}/{bad}"
                        if bad and not any(v.key == key for v in res.violations):
                            res.violations.append(Violation(key, f"{cfg}: reader={obs['reader']} close={obs['close']} peer_saw_close_notify={obs['peer_saw_close_notify']} "
                                                                 f"leaf_closed={obs.get('leaf_closed')} status={obs['status']} {obs['error']} t={obs['elapsed']}",
                                                            {"kind": "closing", "cfg": cfg}))
    res.samples.append({"kind": "reader parked while the library closes", "version": job["version"], "role": job["role"]})
    return res


def replay(doc: dict) -> tuple[bool, str]:
    cfg = doc["replay"]["cfg"]
    obs = run(cfg)
    bad = oracle(cfg, obs)
    return bad is not None, f"cfg={cfg}\nreader={obs['reader']} close={obs['close']} peer_saw_close_notify={obs['peer_saw_close_notify']} status={obs['status']} {obs['error']}\noracle: {bad}"
