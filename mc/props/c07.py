"""C07 - receive buffering is bounded by the configured limit (explicit-state, engine E5).

(upper) an unterminated payload fed under every chunking with reads <= r: the bytes held without having produced a
        packet or an error never exceed limit + r + len(separator) (a LimitOverrunError must have been raised before);
        the buffer-filling consumer's buffer never exceeds max(limit, hint).
(lower) a terminated frame with payload + separator <= limit-1 is never answered with LimitOverrunError, under any
        chunking, on either path - alone, and as 2-3 such frames delivered in reads that may be longer than the limit.
"""
from __future__ import annotations

import itertools
from dataclasses import dataclass
from typing import Any, Callable

from easynetwork.protocol import BufferedStreamProtocol, StreamProtocol
from easynetwork.serializers import JSONSerializer, StringLineSerializer
from easynetwork.serializers.wrapper import Base64EncoderSerializer

from .. import chunkmc, zoo
from ..core import JobResult, Violation, digest

PROPERTY = "C07"
LEVEL = "model_checking"
RULE = (
    "limits {4, 8, 13} x separator lengths 1..3 x read sizes r in {1,2,3,5,limit,limit+3}: (upper) one unterminated payload "
    "of length limit+sep+r+2 per shape, ALL chunkings with reads <= r, invariant checked in every reached state; (lower) "
    "terminated frames of every payload length 0..limit+sep+2 and all 2-3 frame sequences of safe frames, ALL chunkings "
    "(reads unbounded); both receive paths; distinct_nontrivial = distinct (config, limit, r, path, stream) searches"
)
ASSUMPTIONS = [
    "held bytes = bytes received and not yet turned into a packet or a parse error (driver bookkeeping over the real consumer)",
    "the band between 'safely under' (payload+sep <= limit-1) and 'over' is unconstrained, as the statement says",
]
BOUNDS = {"quick": "limits {4, 8}; r in {1, 3, limit, limit+3}", "thorough": "limits {4, 8, 13}; r in {1,2,3,5,limit,limit+3}"}

E_LIMIT = ("E", "LimitOverrunError")


@dataclass
class BCfg:
    name: str
    family: str
    sep: bytes
    make: Callable[[int], Any]
    buffered: bool
    unterminated: Callable[[int], list[bytes]]  # total length -> list of unterminated payload shapes
    frame: Callable[[int], bytes | None]  # payload length -> complete valid frame payload (without separator)
    hints: tuple[int, ...] = (64,)
    min_limit: int = 1
    frame_overhead: int = 0  # bytes of a frame that are neither payload nor separator (length prefix)


def bconfigs() -> list[BCfg]:
    out: list[BCfg] = []
    for nl, sep in (("LF", b"\n"), ("CRLF", b"\r\n")):
        out.append(BCfg(f"line/{nl}", "sep", sep, (lambda limit, nl=nl: StringLineSerializer(nl, limit=limit)), True,
                        lambda n: [b"1" * n, (b"1" * n)[:-1] + b"\r"], lambda n: b"1" * n if n >= 1 else None))
    for sep in (b"|", b"\r\n", b"#~#"):
        out.append(BCfg(f"autosep/{len(sep)}", "sep", sep, (lambda limit, sep=sep: zoo.SepSer(sep, limit=limit)), True,
                        (lambda n, sep=sep: [b"1" * n, b"1" * (n - len(sep) + 1) + sep[:-1]]), lambda n: b"1" * n if n >= 1 else None))
    out.append(BCfg("json/lines", "sep", b"\n", lambda limit: JSONSerializer(limit=limit), False,
                    lambda n: [b"1" * n, b'"' + b"1" * (n - 1), b"[" * n],
                    lambda n: (b"1" * n if n < 3 else b'"' + b"1" * (n - 2) + b'"') if n >= 1 else None))
    out.append(BCfg("json/raw", "raw", b"", lambda limit: JSONSerializer(limit=limit, use_lines=False), False,
                    lambda n: [b"1" * n, b'"' + b"1" * (n - 1), b"[" * n, b'{"1":[' + b"1," * n, b'"\\"' + b"\\\\" * n, b" " * 3 + b"[" + b" " * n],
                    lambda n: (b"[" + b"1" * (n - 2) + b"]" if n >= 3 else None)))
    out.append(BCfg("filebased/len", "file", b"", lambda limit: zoo.LenFileSer(limit=limit), True,
                    lambda n: [bytes([200]) + b"1" * (n - 1)], lambda n: bytes([n]) + b"1" * n if n >= 0 else None, hints=(3, 64), frame_overhead=1))
    out.append(BCfg("base64", "sep", b"\r\n", lambda limit: Base64EncoderSerializer(StringLineSerializer("LF"), limit=limit), True,
                    lambda n: [b"A" * n], lambda n: None, min_limit=8))
    return out


def bby_name(name: str) -> BCfg:
    for c in bconfigs():
        if c.name == name:
            return c
    raise KeyError(name)


LIMITS = {"quick": (4, 8), "thorough": (4, 8, 13)}


def _reads(limit: int, tier: str) -> tuple[int, ...]:
    return (1, 3, limit, limit + 3) if tier == "quick" else (1, 2, 3, 5, limit, limit + 3)


def jobs(tier: str) -> list[dict]:
    out = []
    for cfg in bconfigs():
        for limit in LIMITS[tier]:
            if limit < cfg.min_limit:
                continue
            for r in _reads(limit, tier):
                out.append({"cfg": cfg.name, "limit": limit, "r": r, "mode": "upper", "tier": tier})
            out.append({"cfg": cfg.name, "limit": limit, "r": 0, "mode": "lower", "tier": tier})
    return out


def _factory(cfg: BCfg, limit: int, kind: str, hint: int):
    if kind == "copy":
        return lambda: chunkmc.CopyDriver(StreamProtocol(cfg.make(limit)))
    return lambda: chunkmc.BufDriver(BufferedStreamProtocol(cfg.make(limit)), hint)


def _paths(cfg: BCfg) -> list[tuple[str, int]]:
    return [("copy", 0)] + ([("buf", h) for h in cfg.hints] if cfg.buffered else [])


def run_upper(cfg: BCfg, limit: int, r: int, res: JobResult) -> None:
    s = len(cfg.sep)
    bound = limit + r + s
    n = limit + s + r + 2
    for stream in cfg.unterminated(n):
        for kind, hint in _paths(cfg):
            bad: list[tuple] = []

            def step(drv: Any, outs: list, pos: int, path: tuple) -> None:
                if drv.pending > bound:
                    bad.append(("held", drv.pending, path))
                if kind == "buf" and drv.max_buffer_size > max(limit, hint):
                    bad.append(("buffer_size", drv.max_buffer_size, path))

            rr = chunkmc.search(_factory(cfg, limit, kind, hint), stream, max_chunk=r, step=step)
            res.evaluations += rr.evaluations
            res.states += rr.states
            res.transitions += rr.transitions
            res.nontrivial.add(digest((cfg.name, limit, r, kind, hint, stream)))
            crashed = [(t, p) for t, p in rr.terminals.items() if t[1] == "crash"]
            limit_seen = all(E_LIMIT in t[0] for t in rr.terminals)
            if bad or crashed:
                what, val, path = bad[0] if bad else ("crash", crashed[0][0][0][-1], crashed[0][1])
                res.outcome("unbounded" if bad else "crash")
                res.violations.append(Violation(
                    f"{kind}/{cfg.family}/upper/{what}",
                    f"{cfg.name} limit={limit} r={r} {kind} hint={hint} unterminated stream={stream!r} chunking={list(path)}: {what}={val!r} exceeds "
                    f"limit+read+sep={bound}" if bad else f"{cfg.name} limit={limit} r={r} {kind} stream={stream!r} chunking={list(path)} crashed: {val!r}",
                    {"mode": "upper", "cfg": cfg.name, "limit": limit, "r": r, "kind": kind, "hint": hint, "stream": stream.decode("latin-1"), "path": list(path)},
                ))
            else:
                res.outcome("bounded+limit-error-raised" if limit_seen else "bounded")
            if len(res.samples) < 2:
                res.samples.append({"mode": "upper", "config": cfg.name, "limit": limit, "read_size": r, "path": kind, "stream": stream.decode("latin-1"),
                                    "states": rr.states, "transitions": rr.transitions, "bound_on_held_bytes": bound})


def run_lower(cfg: BCfg, limit: int, res: JobResult, tier: str) -> None:
    s = len(cfg.sep)
    safe_frames: list[bytes] = []
    streams: list[tuple[bytes, int]] = []  # (stream, number of safe frames)
    for n in range(0, limit + s + 3):
        p = cfg.frame(n)
        if p is None:
            continue
        total = len(p) + s
        if cfg.family == "raw":
            total = len(p)
        if total <= limit - 1:
            safe_frames.append(p + cfg.sep)
    for f in safe_frames:
        streams.append((f, 1))
    longest = sorted(safe_frames, key=len)[-3:]
    picks = sorted(set(longest + sorted(safe_frames, key=len)[:1]), key=len)
    for L in (2, 3):
        for combo in itertools.product(picks, repeat=L):
            streams.append((b"".join(combo), L))
    for stream, nframes in streams:
        for kind, hint in _paths(cfg):
            rr = chunkmc.search(_factory(cfg, limit, kind, hint), stream)
            res.evaluations += rr.evaluations
            res.states += rr.states
            res.transitions += rr.transitions
            res.nontrivial.add(digest((cfg.name, limit, "lower", kind, hint, stream)))
            for (outs, extra), path in rr.terminals.items():
                npk = sum(1 for t in outs if t[0] == "P")
                if E_LIMIT in outs or extra == "crash" or npk != nframes:
                    sym = "safe-frame-rejected-for-size" if E_LIMIT in outs else ("crash" if extra == "crash" else "wrong-packet-count")
                    res.outcome(sym)
                    res.violations.append(Violation(
                        f"{kind}/{cfg.family}/lower/{sym}",
                        f"{cfg.name} limit={limit} {kind} hint={hint} stream of {nframes} safe frame(s) {stream!r} chunking={list(path)}: observed {outs!r}",
                        {"mode": "lower", "cfg": cfg.name, "limit": limit, "kind": kind, "hint": hint, "stream": stream.decode("latin-1"), "path": list(path), "nframes": nframes},
                    ))
                else:
                    res.outcome("safe-frames-accepted")
    if len(res.samples) < 3 and streams:
        res.samples.append({"mode": "lower", "config": cfg.name, "limit": limit, "streams": len(streams), "example": streams[-1][0].decode("latin-1")})


def run_job(job: dict) -> JobResult:
    res = JobResult()
    cfg = bby_name(job["cfg"])
    if job["mode"] == "upper":
        run_upper(cfg, job["limit"], job["r"], res)
    else:
        run_lower(cfg, job["limit"], res, job["tier"])
    return res


def replay(doc: dict) -> tuple[bool, str]:
    rp = doc["replay"]
    cfg = bby_name(rp["cfg"])
    stream = rp["stream"].encode("latin-1")
    limit = rp["limit"]
    fac = _factory(cfg, limit, rp["kind"], rp["hint"])
    drv = fac()
    outs: list = []
    pos = 0
    lines = [f"config={cfg.name} limit={limit} path={rp['kind']} hint={rp['hint']} mode={rp['mode']}", f"stream={stream!r}"]
    bad = False
    bound = limit + rp.get("r", 0) + len(cfg.sep)
    for k in rp["path"]:
        try:
            outs.extend(drv.feed(stream[pos:pos + k]))
        except Exception as exc:
            lines.append(f"  read {stream[pos:pos+k]!r} -> crash {type(exc).__name__}: {exc}")
            bad = True
            break
        pos += k
        lines.append(f"  read {stream[pos-k:pos]!r} -> held={drv.pending} outputs={outs!r}")
        if rp["mode"] == "upper" and drv.pending > bound:
            bad = True
            lines.append(f"  !! held {drv.pending} > limit+read+sep = {bound}")
        if rp["mode"] == "upper" and rp["kind"] == "buf" and drv.max_buffer_size > max(limit, rp["hint"]):
            bad = True
    if rp["mode"] == "lower":
        if E_LIMIT in outs or sum(1 for t in outs if t[0] == "P") != rp["nframes"] or any(t[0] == "X" for t in outs):
            bad = True
    return bad, "\n".join(lines)
