"""C11 - a timeout is a budget for the whole blocking operation (complete enumeration of arrival schedules, virtual clock).

The bytes of a packet arrive in 1..3 bursts after delays from {0, 0.4, 1.0, 2.5} (or never); the blocking StreamEndpoint /
TCPNetworkClient / UDPNetworkClient is called with timeout T in {0, 0.3, 2.2, 5, None} and retry_interval in {inf, 0.7};
spurious readiness is a costed environment deviation.  Oracle: with A the instant the last needed byte became available,
the call returns the packet at virtual time A iff A < T, otherwise raises TimeoutError exactly T after it started; T = 0
never waits.  Iterators share one budget across packets (blocking and asynchronous).
A transport that returns short reads while more is already available (what a TLS socket does: one record per read) with
T = 0 is a separately keyed configuration.
"""
from __future__ import annotations

import asyncio
import itertools
import math
import types
from typing import Any

from easynetwork.clients.async_tcp import AsyncTCPNetworkClient
from easynetwork.clients.tcp import TCPNetworkClient
from easynetwork.clients.udp import UDPNetworkClient
from easynetwork.lowlevel.api_async.backend._asyncio.backend import AsyncIOBackend
from easynetwork.lowlevel.api_sync.endpoints.stream import StreamEndpoint
from easynetwork.lowlevel.api_sync.transports import base_selector as _base_selector
from easynetwork.lowlevel.api_sync.transports.socket import SocketStreamTransport
from easynetwork.protocol import BufferedStreamProtocol, DatagramProtocol, StreamProtocol
from easynetwork.serializers import StringLineSerializer

from .. import vloop
from ..core import Ctx, Deadlock, HorizonHit, JobResult, Violation, digest, explore
from ..world import VSelector, World
from .c03 import _shim_selectors

PROPERTY = "C11"
LEVEL = "exploration"
RULE = (
    "packet b'abc\\n' (and two packets for iterators) split into 1..3 bursts at every cut; burst delays: ALL tuples over {0, 0.4, 1.0, "
    "2.5, never}; T in {0, 0.3, 2.2, 5, None} x retry_interval in {inf, 0.7} x subjects {StreamEndpoint copy/buffered, "
    "TCPNetworkClient, UDPNetworkClient (one datagram), ClientRecvIterator, AsyncClientRecvIterator}, max_recv_size 64 and 1/2 (reads that fill the buffer exactly); spurious readable events as "
    "costed deviations (bound 2); schedules with an arrival within 1 ms of a deadline are skipped and counted (ties are "
    "unspecified); blocking SEND paths (send_all, send_all_from_iterable via sendmsg / fallbacks, StreamEndpoint.send_packet): chunk sequences {(5,5),(1,0,0),(2,5)} "
    "(thorough + (5,5,5),(7,1,2)) with every partial-write / EAGAIN / unblock-delay answer (C04's explicit-state harness), T in {3.0, 0} x retry_interval {1.0, inf}, judged for time only; UDPNetworkClient.send_packet with a socket answering EAGAIN until 0.2..3.0 s / never, T in {0, 0.5, 2.2, None} x retry {inf, 0.3, 0.7}; "
    "distinct_nontrivial = distinct (subject, T, retry, arrival schedule, outcome, number of waits)"
)
ASSUMPTIONS = [
    "processing costs 0 virtual seconds: 'at most T of waiting in total' is checked as exact equality of the virtual elapsed time",
    "lock contention: two real threads on one TCPNetworkClient under the baton scheduler (mc/vthreads.py, props/c12_threads.py), preemption bound 2 (thorough 3)",
    "plain TCP never returns a short read while more is queued; the TLS-like short-read transport is a separate configuration, run both on an emulated short-read socket and on the REAL blocking SSLStreamTransport against a stdlib peer (mc/tlsrig.py)",
]
BOUNDS = {"quick": "<= 2 bursts for iterators, <= 3 bursts for single receives", "thorough": "same alphabet, spurious bound 3"}

DELAYS = (0.0, 0.4, 1.0, 2.5, None)
TIMEOUTS = (0, 0.3, 2.2, 5.0, None)
RETRIES = (None, 0.7)
PACKET = b"abc\n"


def schedules(nbytes: int, max_bursts: int) -> list[list[tuple[float | None, int]]]:
    """[(arrival time or None, number of bytes)] for every cut pattern and delay tuple."""
    out = []
    for nb in range(1, max_bursts + 1):
        for cuts in itertools.combinations(range(1, nbytes), nb - 1):
            b = [0] + list(cuts) + [nbytes]
            sizes = [y - x for x, y in zip(b, b[1:])]
            for ds in itertools.product(DELAYS, repeat=nb):
                t = 0.0
                sched: list[tuple[float | None, int]] = []
                dead = False
                for d, n in zip(ds, sizes):
                    if d is None or dead:
                        dead = True
                        sched.append((None, n))
                    else:
                        t = round(t + d, 6)
                        sched.append((t, n))
                if any(a is None for a, _ in sched[:-1]) and sched[-1][0] is None and [a for a, _ in sched].count(None) > 1 and ds.count(None) > 1:
                    continue  # several 'never' are the same schedule as one
                out.append(sched)
    # de-duplicate
    uniq = []
    seen = set()
    for s in out:
        k = tuple(s)
        if k not in seen:
            seen.add(k)
            uniq.append(s)
    return uniq


def tie(sched: list, T: float | None, retry: float | None, t0: float = 0.0) -> bool:
    if T is None:
        return False
    # (bytes with arrival 0.0 are in the kernel before the call starts: not a tie, even for T = 0)
    return any(a is not None and a != 0.0 and abs(a - (t0 + T)) < 1e-3 for a, _ in sched)


def run_recv(ctx: Ctx, cfg: dict) -> dict:
    world = World(ctx, horizon=60)
    world.install_clock()
    saved = _base_selector.selectors
    subject = cfg["subject"]
    T = cfg["T"]
    retry = math.inf if cfg["retry"] is None else cfg["retry"]
    short = cfg.get("short_reads", False)
    try:
        if subject == "udp":
            sock = world.dgram_socket()
        else:
            sock = world.stream_socket()
        data = cfg.get("data", PACKET.decode("latin-1")).encode("latin-1")
        pos = 0
        for a, n in cfg["sched"]:
            piece = data[pos:pos + n]
            pos += n
            if a is None:
                continue
            if subject == "udp":
                act = (lambda piece=piece: sock.rxd.append((piece, ("127.0.0.1", 40000))))
            else:
                act = (lambda piece=piece: sock.rx.put(piece))
            if a == 0.0:
                act()
            else:
                world.at(a, act)
        if short:
            # a TLS-like transport: one 'record' (burst) per read even if more is already available
            burst_sizes = [n for _a, n in cfg["sched"]]
            state = {"i": 0}

            def rp(s: Any, avail: int, bufsize: int) -> int:
                n = min(burst_sizes[state["i"]] if state["i"] < len(burst_sizes) else avail, avail)
                state["i"] += 1
                return n

            world.recv_policy = rp
        spur = {"n": 0}

        def env(w: World, sel: Any, timeout: float | None) -> None:
            if spur["n"] < 3 and not sock.readable():
                if ctx.choose(2, "spurious-readable", costed=True):
                    spur["n"] += 1
                    sock.spurious_read = True

        polls_forever = cfg["T"] is None and cfg["retry"] is not None and any(a is None for a, _ in cfg["sched"])
        if cfg.get("spurious", True) and subject != "udp" and not polls_forever:
            world.env = env
        if subject in ("ep-copy", "ep-buf"):
            proto: Any = StreamProtocol(StringLineSerializer()) if subject == "ep-copy" else BufferedStreamProtocol(StringLineSerializer(limit=32))
            tr = SocketStreamTransport(sock, retry, selector_factory=lambda: VSelector(world))
            subj: Any = StreamEndpoint(tr, proto, max_recv_size=cfg.get("rsize", 64))
        elif subject in ("tcp", "tcp-iter"):
            _base_selector.selectors = _shim_selectors(world)  # type: ignore[assignment]
            subj = TCPNetworkClient(sock, StreamProtocol(StringLineSerializer()), retry_interval=retry, max_recv_size=cfg.get("rsize", 64))
        else:
            _base_selector.selectors = _shim_selectors(world)  # type: ignore[assignment]
            subj = UDPNetworkClient(sock, DatagramProtocol(StringLineSerializer()), retry_interval=retry)
        t0 = world.clock
        events: list[tuple] = []
        try:
            if subject == "tcp-iter":
                for p in subj.iter_received_packets(timeout=T):
                    events.append(("P", p, round(world.clock - t0, 6)))
                events.append(("stop", round(world.clock - t0, 6)))
            else:
                p = subj.recv_packet(timeout=T)
                events.append(("P", p, round(world.clock - t0, 6)))
        except TimeoutError:
            events.append(("timeout", round(world.clock - t0, 6)))
        except Deadlock:
            events.append(("deadlock", round(world.clock - t0, 6)))
        except HorizonHit:
            events.append(("spin", round(world.clock - t0, 6)))
        except OSError as exc:
            events.append(("oserror", type(exc).__name__, round(world.clock - t0, 6)))
        waits = [w for w in world.waits]
    finally:
        _base_selector.selectors = saved  # type: ignore[assignment]
        mw = world.max_positive_wait
        world.close_all()
        world.restore_clock()
    return {"events": events, "waits": waits, "max_positive_wait": mw, "spurious": spur["n"]}


def completion_times(cfg: dict) -> list[float]:
    """instant at which each frame of cfg['data'] is complete (inf if never)."""
    data = cfg.get("data", PACKET.decode("latin-1")).encode("latin-1")
    pos = 0
    arrival_of_byte: list[float] = []
    for a, n in cfg["sched"]:
        arrival_of_byte += [math.inf if a is None else a] * n
    # a byte cannot arrive before the previous one
    for i in range(1, len(arrival_of_byte)):
        arrival_of_byte[i] = max(arrival_of_byte[i], arrival_of_byte[i - 1])
    out = []
    if cfg["subject"] == "udp":
        return [arrival_of_byte[-1]] if all(a is not None for a, _ in cfg["sched"]) else [math.inf]
    for i, b in enumerate(data):
        if b == 0x0A:
            out.append(arrival_of_byte[i])
    return out


def oracle(cfg: dict, obs: dict) -> str | None:
    T = math.inf if cfg["T"] is None else cfg["T"]
    comp = completion_times(cfg)
    ev = obs["events"]
    if not ev:
        return "no-result"
    last = ev[-1]
    if last[0] == "spin":
        # no budget, nothing ever arrives, finite retry interval: the call legitimately polls forever
        if cfg["T"] is None and all(c == math.inf for c in comp):
            return None
        return "spins"
    if cfg["T"] == 0 and obs["max_positive_wait"] > 0:
        return "zero-timeout-waited"
    if cfg["subject"] == "tcp-iter":
        got = [e for e in ev if e[0] == "P"]
        expect = [c for c in comp if c < T or (c == 0 and T == 0)]
        if len(got) != len(expect):
            if len(got) < len(expect):
                return "iterator-stopped-before-budget-was-used" if last[-1] < T - 1e-6 else "packet-available-in-time-not-returned"
            return "packet-returned-after-budget"
        for g, c in zip(got, expect):
            if abs(g[2] - c) > 1e-6:
                return "packet-returned-late"
        if last[0] == "stop":
            if T != math.inf and abs(last[1] - T) > 1e-6:
                return "iterator-budget-not-exact" if last[1] > T else "iterator-stopped-before-budget-was-used"
        elif last[0] == "deadlock":
            if T != math.inf:
                return "blocks-forever"
        else:
            return "unexpected-" + last[0]
        return None
    A = comp[0] if comp else math.inf
    if last[0] == "P":
        if not (A < T or (A == 0 and T == 0)):
            return "returned-after-budget"
        if abs(last[2] - A) > 1e-6:
            return "returned-late"
        return None
    if last[0] == "timeout":
        if cfg["T"] is None:
            return "timeout-without-timeout"
        if A < T or (A == 0 and T == 0):
            return "timeout-although-data-arrived-in-time"
        if last[1] > T + 1e-6:
            return "budget-exceeded"
        if last[1] < T - 1e-6:
            return "timeout-raised-early"
        return None
    if last[0] == "deadlock":
        return None if (T == math.inf and A == math.inf) else "blocks-forever"
    return "unexpected-" + str(last[0])


def configs(tier: str) -> list[dict]:
    out = []
    scheds1 = schedules(len(PACKET), 3)
    for subject in ("ep-copy", "ep-buf", "tcp"):
        for T in TIMEOUTS:
            for retry in RETRIES:
                for s in scheds1:
                    out.append({"subject": subject, "T": T, "retry": retry, "sched": s})
    # reads that fill the receive buffer exactly (max_recv_size 1 or 2 with bursts of that size)
    for subject in ("ep-copy", "ep-buf", "tcp"):
        for rsize in (1, 2):
            for T in (0.3, 2.2, 5.0):
                for s in scheds1:
                    if all(n % rsize == 0 or a is None for a, n in s) and len(s) >= 2:
                        out.append({"subject": subject, "T": T, "retry": None, "sched": s, "rsize": rsize})
    for T in TIMEOUTS:
        for retry in RETRIES:
            for d in DELAYS:
                out.append({"subject": "udp", "T": T, "retry": retry, "sched": [(d, len(PACKET))]})
    two = "ab\ncd\n"
    for T in (0, 0.3, 2.2, 5.0):
        for retry in RETRIES:
            for s in schedules(len(two), 2 if tier == "quick" else 3):
                out.append({"subject": "tcp-iter", "T": T, "retry": retry, "sched": s, "data": two})
    # TLS-like short reads (separately keyed)
    for subject in ("ep-copy", "ep-buf"):
        for T in (0, 0.3, None):
            for cuts in ((1,), (2,), (3,), (1, 3)):
                b = [0] + list(cuts) + [len(PACKET)]
                s = [(0.0, y - x) for x, y in zip(b, b[1:])]
                out.append({"subject": subject, "T": T, "retry": None, "sched": s, "short_reads": True, "spurious": False})
    return out


def run_async_iter(cfg: dict) -> dict:
    world = World(Ctx(), horizon=600)
    sock = world.stream_socket()
    data = cfg["data"].encode("latin-1")
    pos = 0
    pre = []
    for a, n in cfg["sched"]:
        piece = data[pos:pos + n]
        pos += n
        if a is None:
            continue
        if a == 0.0:
            sock.rx.put(piece)
        else:
            world.at(a, (lambda piece=piece: sock.rx.put(piece)))
    events: list[tuple] = []

    async def main(loop: Any) -> None:
        backend = AsyncIOBackend()
        client = AsyncTCPNetworkClient(sock, StreamProtocol(StringLineSerializer()), backend)
        await client.wait_connected()
        t0 = world.clock
        async for p in client.iter_received_packets(timeout=cfg["T"]):
            events.append(("P", p, round(world.clock - t0, 4)))
        events.append(("stop", round(world.clock - t0, 4)))

    status, value, loop = vloop.run(world, main)
    if status != "ok":
        events.append((status, round(world.clock, 4)))
    return {"events": events, "waits": [], "max_positive_wait": 0.0, "spurious": 0}


def jobs(tier: str) -> list[dict]:
    parts = 48 if tier == "quick" else 96
    return ([{"part": p, "parts": parts, "tier": tier} for p in range(parts)] + [{"part": -1, "parts": 1, "tier": tier}] + real_tls_jobs(tier) + _thread_jobs(tier)
            + [{"part": "send", "path": path, "parts": 1, "tier": tier} for path in SEND_PATHS] + [{"part": "udp-send", "parts": 1, "tier": tier}])


# blocking send_packet / send_all: the budget across partial writes and retry-interval wake-ups (the send loops of C04's harness, judged
# here for time only: a wait that ends because the socket became writable before the retry interval elapsed must still be deducted)
SEND_PATHS = ("send_all", "iter_sendmsg", "iter_noiov", "iter_nosendmsg", "endpoint")
SEND_SIZES = {"quick": [(5, 5), (1, 0, 0), (2, 5)], "thorough": [(5, 5), (1, 0, 0), (2, 5), (5, 5, 5), (7, 1, 2)]}


def run_udp_send(cfg: dict) -> dict:
    """UDPNetworkClient.send_packet(timeout=T) with a socket that answers EAGAIN until `unblock` seconds have passed (None: never)."""
    world = World(Ctx(), horizon=600)
    world.install_clock()
    sock = world.dgram_socket()
    saved = _base_selector.selectors
    T, retry, unblock = cfg["T"], cfg["retry"], cfg["unblock"]
    sock.tx_blocked = True

    def policy(s: Any, data: bytes) -> BaseException | None:
        return BlockingIOError(11, "would block") if s.tx_blocked else None

    sock.dgram_send_policy = policy
    if unblock is not None:
        world.at(world.clock + unblock, lambda: setattr(sock, "tx_blocked", False))
    try:
        _base_selector.selectors = _shim_selectors(world)  # type: ignore[assignment]
        subj = UDPNetworkClient(sock, DatagramProtocol(StringLineSerializer()), retry_interval=math.inf if retry is None else retry)
        t0 = world.clock
        try:
            subj.send_packet("x", timeout=T)
            ev: tuple = ("ok", round(world.clock - t0, 6))
        except TimeoutError:
            ev = ("timeout", round(world.clock - t0, 6))
        except Deadlock:
            ev = ("deadlock", round(world.clock - t0, 6))
        except HorizonHit:
            ev = ("spin", round(world.clock - t0, 6))
        except OSError as exc:
            ev = ("oserror", type(exc).__name__, round(world.clock - t0, 6))
    finally:
        _base_selector.selectors = saved  # type: ignore[assignment]
        sent = len(sock.txd)
        world.close_all()
        world.restore_clock()
    return {"event": ev, "sent": sent}


def oracle_udp_send(cfg: dict, obs: dict) -> str | None:
    T, unblock = cfg["T"], cfg["unblock"]
    ev = obs["event"]
    in_time = unblock is not None and (T is None or unblock < T - 1e-9)
    if ev[0] in ("spin", "oserror"):
        return "udp-send-" + ev[0]
    if ev[0] == "deadlock":
        return None if (T is None and unblock is None) else "udp-send-blocks-forever"
    if in_time:
        if ev[0] != "ok":
            return "udp-send-timeout-although-writable-in-time"
        if abs(ev[1] - unblock) > 1e-6:
            return "udp-send-completed-at-the-wrong-time"
        return None if obs["sent"] == 1 else "udp-send-datagram-count"
    if T is None:
        return None
    if ev[0] != "timeout":
        return "udp-send-no-timeout"
    if abs(ev[1] - T) > 1e-6:
        return "udp-send-budget-exceeded" if ev[1] > T else "udp-send-timeout-too-early"
    return None if obs["sent"] == 0 else "udp-send-datagram-sent-despite-timeout"


def run_udp_send_job(res: JobResult) -> None:
    for T in (0, 0.5, 2.2, None):
        for retry in (None, 0.3, 0.7):
            for unblock in (0.2, 0.45, 0.9, 1.5, 3.0, None):
                if T is None and unblock is None:
                    continue
                cfg = {"T": T, "retry": retry, "unblock": unblock}
                obs = run_udp_send(cfg)
                res.evaluations += 1
                bad = oracle_udp_send(cfg, obs)
                res.outcome("udp-send-" + obs["event"][0] if bad is None else "VIOLATION:" + bad)
                res.nontrivial.add(digest(("udp-send", T, retry, unblock, obs["event"])))
                key = f"udp-send/{bad}"
                if bad and not any(v.key == key for v in res.violations):
                    res.violations.append(Violation(key, f"UDPNetworkClient.send_packet {cfg}: {obs}", {"part": "udp-send", "cfg": cfg}))
    res.samples.append({"part": "udp-send-budget"})


def run_send_job(job: dict, res: JobResult) -> None:
    from ..core import explore
    from . import c04

    for timeout, retry in ((3.0, 1.0), (3.0, None), (0, None)):
        for sizes in SEND_SIZES[job["tier"]]:
            if job["path"] == "send_all" and 0 in sizes:
                continue
            cfg = {"path": job["path"], "timeout": timeout, "retry": retry, "sizes": list(sizes), "costed": False, "two_delays_upto": 2}
            found: dict[str, tuple] = {}

            def check(ctx: Any, obs: dict, cfg: dict = cfg, found: dict = found) -> bool:
                res.evaluations += 1
                bad = c04.oracle_sync(obs)
                timing = bad is not None and any(w in bad for w in ("budget", "timeout", "spin", "block"))
                res.outcome("send-" + obs["result"][0] if not timing else "VIOLATION:" + bad)
                if any(ctx.choices):
                    res.nontrivial.add(digest(("send", cfg["path"], timeout, retry, tuple(cfg["sizes"]), obs["result"], round(obs["elapsed"], 3))))
                if timing and bad not in found:
                    found[bad] = (ctx, obs)
                return timing

            stats = explore(lambda ctx, cfg=cfg: c04.run_sync(ctx, cfg), bound=10 ** 9, check=check, use_states=True, max_runs=60000, violation_budget=200)
            res.transitions += stats["points"]
            res.states += stats["states"]
            if stats["cap_hit"]:
                res.caps.append("send max_runs")
            for bad, (ctx, obs) in found.items():
                key = f"send/{cfg['path']}/{bad}"
                if not any(v.key == key for v in res.violations):
                    res.violations.append(Violation(key, f"{cfg['path']} chunks={cfg['sizes']} timeout={timeout} retry_interval={retry}: {obs['result']} elapsed={obs['elapsed']:.3f} "
                                                         f"wire={obs['wire']!r} choices={ctx.choices}", {"part": "send", "cfg": cfg, "choices": list(ctx.choices)}))
    res.samples.append({"part": "send-budget", "path": job["path"]})


def _key(cfg: dict, bad: str) -> str:
    if cfg.get("short_reads"):
        return f"tls-like-short-read/{cfg['subject']}/T={cfg['T']}/{bad}"
    return f"{cfg['subject']}/{bad}"


def _thread_jobs(tier: str) -> list[dict]:
    from . import c12_threads

    return c12_threads.jobs_c11(tier)


def run_job(job: dict) -> JobResult:
    if job["part"] == "threads":
        from . import c12_threads

        return c12_threads.run_job(job)
    res = JobResult()
    if job["part"] == "send":
        run_send_job(job, res)
        return res
    if job["part"] == "udp-send":
        run_udp_send_job(res)
        return res
    if job["part"] == -2:
        run_real_tls_job(res)
        return res
    if job["part"] == -1:
        # asynchronous iterator: the budget is shared across packets (loop timing adds ~1 us per busy iteration: 1 ms tolerance)
        two = "ab\ncd\n"
        for T in (0.3, 2.2, 5.0):
            for s in schedules(len(two), 2):
                cfg = {"subject": "async-iter", "T": T, "retry": None, "sched": s, "data": two}
                if tie(s, T, None):
                    res.count("skipped_ties")
                    continue
                obs = run_async_iter(cfg)
                res.evaluations += 1
                comp = completion_times({**cfg, "subject": "tcp-iter"})
                got = [e for e in obs["events"] if e[0] == "P"]
                expect = [c for c in comp if c < T]
                last = obs["events"][-1]
                bad = None
                if len(got) != len(expect) or any(abs(g[2] - c) > 1e-3 for g, c in zip(got, expect)):
                    bad = "packets-vs-budget-mismatch"
                elif last[0] != "stop" or abs(last[1] - T) > 1e-3:
                    bad = "iterator-budget-not-exact"
                res.outcome("async-iter-ok" if bad is None else "VIOLATION:" + bad)
                res.nontrivial.add(digest(("async-iter", T, tuple(s), tuple(e[0] for e in obs["events"]))))
                if bad:
                    res.violations.append(Violation(f"async-iter/{bad}", f"AsyncClientRecvIterator T={T} schedule={s}: events={obs['events']} expected completions {comp}",
                                                    {"cfg": cfg, "choices": [], "async": True}))
        return res
    for i, cfg in enumerate(configs(job["tier"])):
        if i % job["parts"] != job["part"]:
            continue
        if tie(cfg["sched"], cfg["T"], cfg["retry"]):
            res.count("skipped_ties")
            continue
        found: dict[str, tuple[Ctx, dict]] = {}

        def check(ctx: Ctx, obs: dict) -> None:
            res.evaluations += 1
            bad = oracle(cfg, obs)
            res.outcome((obs["events"][-1][0] if obs["events"] else "none") if bad is None else "VIOLATION:" + bad)
            res.nontrivial.add(digest((cfg["subject"], cfg["T"], cfg["retry"], cfg.get("rsize"), tuple(cfg["sched"]), tuple(e[0] for e in obs["events"]), len(obs["waits"]), obs["spurious"])))
            if bad is not None and (bad not in found or len(ctx.choices) < len(found[bad][0].choices)):
                found[bad] = (ctx, obs)

        stats = explore(lambda ctx: run_recv(ctx, cfg), bound=2 if job["tier"] == "quick" else 3, check=check, max_runs=5000)
        res.transitions += stats["points"]
        for bad, (ctx, obs) in found.items():
            res.violations.append(Violation(
                _key(cfg, bad),
                f"{cfg['subject']} T={cfg['T']} retry_interval={cfg['retry']} max_recv_size={cfg.get('rsize', 64)} arrivals={cfg['sched']}{' (short reads)' if cfg.get('short_reads') else ''}: events={obs['events']} "
                f"waits={obs['waits']} expected completion at {completion_times(cfg)} choices={ctx.choices}",
                {"cfg": cfg, "choices": list(ctx.choices)},
            ))
        if len(res.samples) < 2 and len(cfg["sched"]) >= 2:
            res.samples.append({"subject": cfg["subject"], "timeout": cfg["T"], "retry_interval": cfg["retry"], "arrivals": cfg["sched"], "executions": stats["runs"]})
    return res


def replay(doc: dict) -> tuple[bool, str]:
    rp = doc["replay"]
    if rp.get("part") == "threads":
        from . import c12_threads

        return c12_threads.replay(doc)
    if rp.get("part") == "udp-send":
        obs = run_udp_send(rp["cfg"])
        bad = oracle_udp_send(rp["cfg"], obs)
        return bad is not None, f"cfg={rp['cfg']}\nobserved={obs}\noracle: {bad}"
    if rp.get("part") == "send":
        from ..core import Ctx as _Ctx
        from . import c04

        obs = c04.run_sync(_Ctx(rp["choices"]), rp["cfg"])
        bad = c04.oracle_sync(obs)
        return bad is not None, f"cfg={rp['cfg']}\nchoices={rp['choices']}\nresult={obs['result']} elapsed={obs['elapsed']:.3f} wire={obs['wire']!r}\noracle: {bad}"
    cfg = rp["cfg"]
    if "sched" in cfg:
        cfg["sched"] = [tuple(x) for x in cfg["sched"]]
    if rp.get("real_tls"):
        obs = run_real_tls(cfg)
        first = obs["events"][0] if obs["events"] else ("none",)
        return not (first[0] == "P" and first[1] == "abc"), f"cfg={cfg}\nevents={obs['events']}"
    if rp.get("async"):
        obs = run_async_iter(cfg)
        return True, f"cfg={cfg}\nevents={obs['events']}"
    ctx = Ctx(rp["choices"])
    obs = run_recv(ctx, cfg)
    bad = oracle(cfg, obs)
    return bad is not None, f"cfg={cfg}\nchoices={rp['choices']}\nevents={obs['events']}\nwaits={obs['waits']}\nexpected completion={completion_times(cfg)}\noracle: {bad}"


# ---------------------------------------------------------------------------------------------------------
# the same short-read configuration on the REAL blocking TLS transport (mc/tlsrig.py): the peer writes one packet as two
# TLS records, both are in the kernel before recv_packet(timeout=T) is called


def run_real_tls(cfg: dict) -> dict:
    import math as _math

    from easynetwork.lowlevel.api_sync.transports.socket import SSLStreamTransport

    from .. import tlsrig

    world = World(Ctx(), horizon=4000)
    pieces = [b"ab", b"c\n"] if cfg["records"] == 2 else [b"abc\n"]
    relay = tlsrig.make_peer_and_relay(cfg["version"], "client", script=[("write", p) for p in pieces])
    link = tlsrig.BlockingLink(relay)
    relay.link = link
    world.env = relay.env
    world.install_clock()
    tr = None
    events: list[tuple] = []
    try:
        tr = SSLStreamTransport(link.lib_sock, tlsrig.lib_context(cfg["version"], "client"), _math.inf, server_hostname=tlsrig.HOSTNAME,
                                selector_factory=lambda: VSelector(world))
        proto: Any = StreamProtocol(StringLineSerializer()) if cfg["subject"] == "ep-copy" else BufferedStreamProtocol(StringLineSerializer(limit=32))
        ep = StreamEndpoint(tr, proto, max_recv_size=64)
        for _ in range(6):
            relay.drain()  # both records reach the kernel buffer of the library's socket
        t0 = world.clock
        for attempt in range(2):
            try:
                p = ep.recv_packet(timeout=cfg["T"])
                events.append(("P", p, round(world.clock - t0, 6)))
                break
            except TimeoutError:
                events.append(("timeout", round(world.clock - t0, 6)))
    except (Deadlock, HorizonHit) as exc:
        events.append((type(exc).__name__,))
    except Exception as exc:  # noqa: BLE001
        events.append(("error", type(exc).__name__, str(exc)[:80]))
    finally:
        world.restore_clock()
        if tr is not None:
            try:
                tr.close()
            except Exception:
                pass
        link.close()
    return {"events": events}


def real_tls_jobs(tier: str) -> list[dict]:
    return [{"part": -2, "parts": 1, "tier": tier}]


def run_real_tls_job(res: JobResult) -> None:
    from .. import tlsrig

    tlsrig.ensure_cert()
    for version in tlsrig.VERSIONS:
        for subject in ("ep-copy", "ep-buf"):
            for records in (1, 2):
                for T in (0, 0.3):
                    cfg = {"subject": subject, "version": version, "records": records, "T": T}
                    obs = run_real_tls(cfg)
                    res.evaluations += 1
                    first = obs["events"][0] if obs["events"] else ("none",)
                    ok = first[0] == "P" and first[1] == "abc"
                    res.nontrivial.add(digest(("real-tls", subject, version, records, T, tuple(e[0] for e in obs["events"]))))
                    res.outcome("real-tls-ok" if ok else "VIOLATION:real-tls")
                    if not ok:
                        res.violations.append(Violation(
                            f"tls-like-short-read/{subject}/T={T}/timeout-although-data-arrived-in-time",
                            f"REAL SSLStreamTransport (TLS {version}), packet b'abc\\n' sent as {records} record(s), all in the kernel before the call: "
                            f"recv_packet(timeout={T}) -> {obs['events']}",
                            {"cfg": cfg, "choices": [], "real_tls": True},
                        ))
    res.samples.append({"part": "real blocking TLS transport", "packet": "abc\\n as 1 or 2 records already in the kernel", "timeouts": [0, 0.3]})
