"""C19 - connection racing returns one socket and leaks none (schedule / fault enumeration on the real asyncio loop).

Subject: BaseAsyncDNSResolver._staggered_race_connection_impl (happy eyeballs) and _create_connection_impl (sequential) with
the real AsyncIOBackend (task group, cancel scopes, move_on_after) on the virtual loop.  The harness resolver's connect_socket()
awaits a future per attempt; the module's ``_socket`` name is replaced by a shim whose ``socket`` class is a tracked FakeSocket.
"""
from __future__ import annotations

import asyncio
import errno
import itertools
import socket as _real_socket
import types
from typing import Any

from easynetwork.lowlevel.api_async.backend._asyncio.backend import AsyncIOBackend
from easynetwork.lowlevel.api_async.backend._common import dns_resolver as _dns_mod
from easynetwork.lowlevel.api_async.backend._common.dns_resolver import BaseAsyncDNSResolver

from .. import vloop
from ..core import Ctx, JobResult, Violation, digest, explore
from ..envsched import Chain, Placer
from ..world import FakeSocket, World

PROPERTY = "C19"
LEVEL = "exploration"
RULE = (
    "address lists of 1..3 entries (thorough 1..4) over families {v4, v6} in every order; per attempt an outcome in {connects, "
    "ECONNREFUSED, hangs (ETIMEDOUT at t=100), socket() fails, bind() fails}, plus a local address of one family only with a "
    "multi-family remote host; the completion of every attempt and one external "
    "task.cancel() are placed at every loop-iteration boundary and relative to the 0.25 s stagger timer (apply now | let the timer "
    "fire | coincide with it); busy placements are costed deviations (bound 2 quick / 3 thorough); sequential "
    "_create_connection_impl likewise; distinct_nontrivial = distinct (address list, outcomes, result class, sockets created, "
    "placement shape) observations"
)
ASSUMPTIONS = [
    "a connect attempt that 'hangs' fails with ETIMEDOUT at virtual t = 100 unless it was cancelled before (a real kernel gives up too)",
    "the socket factory of the resolver module is replaced in the harness process (module name `_socket`), nothing in /repo is edited",
]
BOUNDS = {"quick": "<= 3 addresses, busy-placement bound 2", "thorough": "<= 4 addresses, busy-placement bound 3"}

STAGGER = 0.25
OUTCOMES = ("ok", "refused", "hang", "nosock", "nobind")


class _Shim(types.ModuleType):
    def __init__(self, world: World, fail_creation: set[int], created: list) -> None:
        super().__init__("socket_shim")
        self.__dict__.update({k: v for k, v in vars(_real_socket).items() if not k.startswith("__")})
        self._world = world
        self._fail = fail_creation
        self._created = created
        self._count = 0

        def factory(family: int = _real_socket.AF_INET, type: int = _real_socket.SOCK_STREAM, proto: int = 0) -> FakeSocket:
            idx = self._count
            self._count += 1
            if idx in self._fail:
                raise OSError(errno.EMFILE, "Too many open files")
            s = FakeSocket(world, family, type)
            s.tag = f"attempt{idx}"
            s.connected = False
            created.append(s)
            return s

        self.socket = factory  # type: ignore[assignment]


class HarnessResolver(BaseAsyncDNSResolver):
    def __init__(self, attempts: dict) -> None:
        super().__init__()
        self.attempts = attempts  # port -> {"sock":..., "fut":...}

    async def connect_socket(self, socket: Any, address: Any) -> None:
        fut = asyncio.get_running_loop().create_future()
        self.attempts[address[1]] = {"sock": socket, "fut": fut}
        try:
            await fut
        finally:
            self.attempts[address[1]]["ended"] = True
        socket.connected = True
        socket.peername = address


def addrinfo(fams: tuple[str, ...]) -> list[tuple]:
    out = []
    for i, f in enumerate(fams):
        if f == "4":
            out.append((_real_socket.AF_INET, _real_socket.SOCK_STREAM, 6, "", ("127.0.0.%d" % (i + 1), 9000 + i)))
        else:
            out.append((_real_socket.AF_INET6, _real_socket.SOCK_STREAM, 6, "", ("::%d" % (i + 1), 9000 + i, 0, 0)))
    return out


def run_race(ctx: Ctx, cfg: dict) -> dict:
    fams: tuple[str, ...] = tuple(cfg["fams"])
    outcomes: tuple[str, ...] = tuple(cfg["outcomes"])  # indexed by position in the ORIGINAL address list
    world = World(ctx, horizon=900)
    created: list[FakeSocket] = []
    attempts: dict[int, dict] = {}
    infos = addrinfo(fams)
    mode = cfg["mode"]
    # the library reorders the list: creation index k corresponds to the k-th STARTED attempt; faults are attached to ports
    port_outcome = {9000 + i: o for i, o in enumerate(outcomes)}
    st: dict[str, Any] = {"task": None, "cancel_applied": False, "ok_applied": [], "order": []}
    _l4 = (_real_socket.AF_INET, _real_socket.SOCK_STREAM, 6, "", ("127.0.0.9", 0))
    _l6 = (_real_socket.AF_INET6, _real_socket.SOCK_STREAM, 6, "", ("::9", 0, 0, 0))
    # local address: none / both families / ONE family only (an attempt of the other family then fails with
    # "no matching local address" after its socket was created)
    local = {"v4only": [_l4], "v6only": [_l6], "both": [_l4, _l6]}.get(cfg.get("local") or ("both" if "nobind" in outcomes else ""), None)

    shim = _Shim(world, set(), created)

    class TrackedSocket(FakeSocket):
        """what the resolver module gets when it calls ``_socket.socket(family, type, proto)``"""

        def __init__(self, family: int = _real_socket.AF_INET, type: int = _real_socket.SOCK_STREAM, proto: int = 0, fileno: Any = None) -> None:
            # attempts are started in the order of the (reordered) address list: the call counter identifies the attempt
            order = st["order"]
            k = len(order)
            port = st["started_ports"][k] if k < len(st["started_ports"]) else None
            order.append(port)
            if port is not None and port_outcome.get(port) == "nosock":
                raise OSError(errno.EMFILE, "Too many open files")
            super().__init__(world, family, type)
            self.tag = f"attempt-port{port}"
            self.connected = False
            self._fail_bind = port is not None and port_outcome.get(port) == "nobind"
            created.append(self)

        def bind(self, address: Any) -> None:
            if self._fail_bind:
                raise OSError(errno.EADDRNOTAVAIL, "Cannot assign requested address")
            super().bind(address)

    shim.socket = TrackedSocket  # type: ignore[assignment]
    # order in which the library will start the attempts
    if mode == "race":
        reordered = _dns_mod._interleave_addrinfos(_dns_mod._prioritize_ipv6_over_ipv4(infos))
    else:
        reordered = list(infos)
    st["started_ports"] = [a[4][1] for a in reordered]

    def complete(port: int, how: str):
        def act() -> None:
            a = attempts.get(port)
            if a is None or a["fut"].done():
                return
            if how == "ok":
                st["ok_applied"].append(port)
                a["fut"].set_result(None)
            elif how == "refused":
                a["fut"].set_exception(ConnectionRefusedError(errno.ECONNREFUSED, "refused"))
            else:
                a["fut"].set_exception(TimeoutError(errno.ETIMEDOUT, "timed out"))
        return act

    chains: list[Chain] = []
    chain_by_port: dict[int, Chain] = {}
    for i, o in enumerate(outcomes):
        port = 9000 + i
        if o in ("ok", "refused"):
            c = Chain(f"a{i}", [(f"{o}{i}", complete(port, o))])
            c.hold = True
            chain_by_port[port] = c
            chains.append(c)
    if cfg["cancel"]:
        def do_cancel() -> None:
            t = st["task"]
            if t is not None and not t.done():
                st["cancel_applied"] = True
                t.cancel()
        chains.append(Chain("cancel", [("X", do_cancel)]))

    placer = Placer(ctx, chains, coincide=True, gate=lambda: st["task"] is not None, max_busy_points=40)

    def env(w: World, sel: Any, timeout: float | None) -> None:
        # a completion can only be delivered once the attempt is really waiting in connect()
        for port, c in chain_by_port.items():
            a = attempts.get(port)
            c.hold = a is None or a["fut"].done()
        for i, o in enumerate(outcomes):
            port = 9000 + i
            a = attempts.get(port)
            if o == "hang" and a is not None and not a.get("timed"):
                a["timed"] = True
                w.at(100.0 + i * 0.01, complete(port, "timeout"))
        placer(w, sel, timeout)

    world.env = env
    world.env_pending = placer.pending
    out: dict[str, Any] = {}
    saved = _dns_mod._socket
    _dns_mod._socket = shim  # type: ignore[assignment]
    try:
        async def main(loop: Any) -> None:
            backend = AsyncIOBackend()
            resolver = HarnessResolver(attempts)

            async def connect() -> Any:
                if mode == "race":
                    return await resolver._staggered_race_connection_impl(backend, remote_addrinfo=infos, local_addrinfo=local, happy_eyeballs_delay=STAGGER)
                return await resolver._create_connection_impl(remote_addrinfo=infos, local_addrinfo=local)

            t = loop.create_task(connect())
            st["task"] = t
            await asyncio.wait([t])
            if t.cancelled():
                out["result"] = ("cancelled",)
            elif t.exception() is not None:
                exc = t.exception()
                n = len(exc.exceptions) if isinstance(exc, BaseExceptionGroup) else -1
                out["result"] = ("error", type(exc).__name__, n)
            else:
                s = t.result()
                out["result"] = ("socket", created.index(s) if s in created else -1, not s.closed_flag)
            for _ in range(3):
                await asyncio.sleep(0)
            out["open"] = [s.tag for s in created if not s.closed_flag]
            out["created"] = len(created)
            out["unfinished_attempts"] = sorted(p for p, a in attempts.items() if not a.get("ended"))
            me = asyncio.current_task()
            out["other_tasks"] = len([x for x in asyncio.all_tasks(loop) if x is not me and not x.done()])

        status, value, loop = vloop.run(world, main)
    finally:
        _dns_mod._socket = saved  # type: ignore[assignment]
    out["status"] = status
    out["value"] = repr(value) if status != "ok" else None
    out["cancel_applied"] = st["cancel_applied"]
    out["ok_applied"] = st["ok_applied"]
    out["trace"] = placer.trace
    out["time"] = round(world.clock, 3)
    out["attempts_started"] = len(st["order"])
    return out


def oracle(cfg: dict, obs: dict) -> str | None:
    if obs["status"] in ("deadlock", "horizon"):
        return "hang-" + obs["status"]
    if obs["status"] != "ok":
        return "unexpected-exception"
    r = obs["result"]
    if obs["other_tasks"]:
        return "attempt-task-left-running"
    if obs["unfinished_attempts"]:
        return "connect-attempt-left-pending"
    if r[0] == "socket":
        if r[1] < 0 or not r[2]:
            return "returned-socket-closed-or-unknown"
        if len(obs["open"]) != 1:
            return "socket-leaked-after-success"
        if not obs["ok_applied"]:
            return "success-without-any-successful-connect"
    elif r[0] == "error":
        if obs["open"]:
            return "socket-leaked-after-failure"
        if obs["ok_applied"] and not obs["cancel_applied"]:
            return "failure-reported-although-an-attempt-connected"
        if r[1] not in ("ExceptionGroup", "BaseExceptionGroup"):
            return "failure-not-reported-as-exception-group"
        if cfg["mode"] == "race" and r[2] != len(cfg["outcomes"]) and not obs["cancel_applied"]:
            return "exception-group-does-not-carry-one-error-per-attempt"
    elif r[0] == "cancelled":
        if not obs["cancel_applied"]:
            return "cancelled-without-cancel-request"
        if obs["open"]:
            return "socket-leaked-after-cancellation"
    return None


def configs(tier: str) -> list[dict]:
    out: list[dict] = []
    maxn = 3 if tier == "quick" else 4
    for n in range(1, maxn + 1):
        for fams in itertools.product("46", repeat=n):
            for outs in itertools.product(OUTCOMES, repeat=n):
                faults = sum(1 for o in outs if o in ("nosock", "nobind"))
                if faults > 1 or (n == 4 and (faults or outs.count("hang") > 1)):
                    continue
                if tier == "quick" and n == 3 and (outs.count("hang") + faults > 1):
                    continue
                for cancel in (False, True):
                    if cancel and n >= 3 and tier == "quick" and fams not in (("4", "6", "4"), ("6", "6", "4")):
                        continue
                    out.append({"mode": "race", "fams": list(fams), "outcomes": list(outs), "cancel": cancel})
    for n in (1, 2, 3):
        for outs in itertools.product(OUTCOMES, repeat=n):
            if sum(1 for o in outs if o in ("nosock", "nobind")) > 1:
                continue
            for cancel in (False, True):
                out.append({"mode": "seq", "fams": ["4", "6", "4"][:n], "outcomes": list(outs), "cancel": cancel})
    # a local address of ONE family with a multi-family remote host
    for mode in ("race", "seq"):
        for fams in (("4", "6"), ("6", "4"), ("6", "4", "6"), ("4", "4", "6")):
            for outs in itertools.product(("ok", "refused"), repeat=len(fams)):
                for loc in ("v4only", "v6only"):
                    for cancel in (False, True):
                        out.append({"mode": mode, "fams": list(fams), "outcomes": list(outs), "cancel": cancel, "local": loc})
    return out


def jobs(tier: str) -> list[dict]:
    cs = configs(tier)
    parts = 64 if tier == "quick" else 192
    return [{"part": p, "parts": parts, "tier": tier} for p in range(parts)]


def run_job(job: dict) -> JobResult:
    res = JobResult()
    bound = 2 if job["tier"] == "quick" else 3
    for i, cfg in enumerate(configs(job["tier"])):
        if i % job["parts"] != job["part"]:
            continue
        found: dict[str, tuple[Ctx, dict]] = {}

        def check(ctx: Ctx, obs: dict) -> None:
            res.evaluations += 1
            bad = oracle(cfg, obs)
            res.outcome(f"{cfg['mode']}-{obs['result'][0] if 'result' in obs else obs['status']}" if bad is None else "VIOLATION:" + bad)
            shape = tuple((k, names) for _s, k, names in obs["trace"])
            res.nontrivial.add(digest((cfg["mode"], tuple(cfg["fams"]), tuple(cfg["outcomes"]), cfg.get("local"), obs.get("result"), obs.get("created"), shape)))
            if bad is not None and (bad not in found or len(ctx.choices) < len(found[bad][0].choices)):
                found[bad] = (ctx, obs)

        stats = explore(lambda ctx: run_race(ctx, cfg), bound=bound, check=check, max_runs=20000)
        res.transitions += stats["points"]
        if stats["cap_hit"]:
            res.caps.append("max_runs")
        for bad, (ctx, obs) in found.items():
            res.violations.append(Violation(
                f"{cfg['mode']}/{bad}",
                f"{cfg['mode']} addresses={cfg['fams']} outcomes={cfg['outcomes']} local={cfg.get('local')} cancel={cfg['cancel']}: result={obs.get('result')} open={obs.get('open')} "
                f"created={obs.get('created')} ok_applied={obs['ok_applied']} schedule={obs['trace']} status={obs['status']} {obs['value']} choices={ctx.choices}",
                {"cfg": cfg, "choices": list(ctx.choices)},
            ))
        if len(res.samples) < 2 and len(cfg["fams"]) >= 2:
            res.samples.append({"mode": cfg["mode"], "families": cfg["fams"], "outcomes": cfg["outcomes"], "external_cancel": cfg["cancel"], "executions": stats["runs"]})
    return res


def replay(doc: dict) -> tuple[bool, str]:
    rp = doc["replay"]
    ctx = Ctx(rp["choices"])
    obs = run_race(ctx, rp["cfg"])
    bad = oracle(rp["cfg"], obs)
    lines = [f"cfg={rp['cfg']}", f"choices={rp['choices']}", "labels=" + ",".join(p[1] for p in ctx.points)] + [f"  {k}={v!r}" for k, v in obs.items()] + [f"oracle: {bad}"]
    return bad is not None, "\n".join(lines)
