"""C15 - Stream server: each request reaches the handler exactly once, in order.

Subject: the REAL ``AsyncTCPNetworkServer`` (+ ``build_lowlevel_stream_server_handler``) and the REAL low-level
``AsyncStreamServer.serve`` over ``ListenerSocketAdapter`` on a fake listener socket, on the virtual loop (E2).  One
execution = one server, one client connection whose request stream is cut into chunks; every chunk (and the final
disconnect) is an environment event placed by the explorer (untimed: at any loop-iteration boundary; timed: after a
delay that never coincides with a yielded timeout's deadline).  Handler shapes are enumerated.  The oracle is a reference
model (the list of frames + the documented handler contract) run in lockstep with what the handler generators observed.
"""
from __future__ import annotations

import errno
import gc
import itertools
from typing import Any

from easynetwork.converter import AbstractPacketConverter
from easynetwork.exceptions import StreamProtocolParseError
from easynetwork.lowlevel.api_async.backend._asyncio.stream.listener import AcceptedSocketFactory, ListenerSocketAdapter
from easynetwork.lowlevel.api_async.servers.stream import AsyncStreamServer
from easynetwork.protocol import BufferedStreamProtocol, StreamProtocol
from easynetwork.serializers.line import StringLineSerializer
from easynetwork.servers.async_tcp import AsyncTCPNetworkServer
from easynetwork.servers.handlers import AsyncStreamRequestHandler

from .. import vloop
from ..core import Ctx, JobResult, Violation, digest, explore
from ..srvrig import Ev, Recorder, RigBackend, Script, quiet_logger, wait_until
from ..world import World

PROPERTY = "C15"
LEVEL = "exploration"
RULE = (
    "request streams: every sequence of 1..3 (thorough 1..4) frames over {valid, malformed} (valid frames are the distinct lines "
    "a, bb, c, a.. by position; thorough adds repeated frames) + disconnect after every frame and inside every frame; ALL chunkings "
    "with <= 3 cuts and all uniform chunk sizes; arrival of every chunk and of the disconnect (EOF or reset) as an environment "
    "event: family 'cut' = each event when the loop idles, crossed with every handler shape; family 'place' = events placed by the "
    "explorer at ANY loop-iteration boundary (free for <= 3 chunks, costed deviations otherwise); family 'time' = timed arrivals, "
    "every chunk after a delay in {0.21, 0.63, 1.63} s and the disconnect after {0.27, 1.27} s (every sum of delays stays >= 50 ms "
    "away from every deadline of a yielded timeout) crossed with per-yield timeouts {None, 1.0, 0}; handler shapes: requests per "
    "generator k in {1, 2, inf}, timeout pattern per yield, on_connection in {coroutine, generator consuming one request}, parse "
    "error caught / not caught, client.aclose() at request j in {never, 1, 2}, 0/1 checkpoint of work per request; receive paths: "
    "StreamProtocol (copying) and BufferedStreamProtocol; APIs: AsyncTCPNetworkServer and low-level AsyncStreamServer; "
    "distinct_nontrivial = distinct (configuration class, handler log) pairs of executions with a non-default placement or a chunked stream"
)
ASSUMPTIONS = [
    "line-based protocol (StringLineSerializer, ascii): a malformed frame is a line with a non-ascii byte; frame contents are irrelevant to the server beyond identity; "
    "the request carried by frame 'c' has the value None (converter), so that a path confusing 'no request' with 'request None' loses it",
    "an arrival never shares a loop iteration with the expiry of a yielded timeout (C10's subject): untimed events are withheld while a loop timer is due within 10 ms or a zero-delay timeout is being delivered; timed delays keep >= 50 ms from deadlines",
    "after a connection reset (as opposed to EOF) requests not yet handed to the handler may be lost: only order/exactly-once of the delivered prefix is required; the handler ignores whatever send_packet raises after a reset (counted, not judged: C20's subject)",
    "a request whose bytes reached the transport but not yet the server's parser when a zero-delay timeout is yielded may legitimately time out (one checkpoint is needed to fetch it); a request already parsed-and-buffered by the server may not",
    "when on_connection is a generator and the handler itself closes the client inside it, on_disconnection may or may not run (documentation is ambiguous)",
    "one client per execution; TLS listeners and server shutdown with live clients are C08/C17/C18's subject",
]
BOUNDS = {
    "quick": "<= 3 frames, <= 3 cuts; placement: ALL placements of <= 2 chunks + disconnect for streams of <= 2 frames, 1 deviation for 3 chunks",
    "thorough": "<= 4 frames, <= 3 cuts; placement: ALL placements of <= 2 chunks + disconnect (<= 2 frames) and of 3 chunks (2-frame streams), 1 deviation for 3-frame streams",
}

FRAME_BYTES = {"a": b"a\n", "b": b"bb\n", "c": b"c\n", "X": b"\xff\n"}
FRAME_VALUE: dict = {"a": "a", "b": "bb", "c": None}  # the request carried by frame "c" has the VALUE None (converter below)


class NoneForC(AbstractPacketConverter[Any, str]):
    """Requests: the line 'c' becomes the packet None (a receive path testing the packet instead of catching StopIteration would
    drop it when it is served from the buffer); responses are strings and pass through."""

    __slots__ = ()

    def create_from_dto_packet(self, packet: str) -> Any:
        return None if packet == "c" else packet

    def convert_to_dto_packet(self, obj: Any) -> str:
        return str(obj)

DELAYS = (0.21, 0.63, 1.63)
END_DELAYS = (0.27, 1.27)
TAU = 1.0
TOL = 0.010
HORIZON = 3000


# ---------------------------------------------------------------------------------------------------------
# handlers


class Shape:
    def __init__(self, cfg: dict) -> None:
        self.k = cfg.get("k", 0)  # 0 = inf
        self.taus = tuple(cfg.get("taus", (None,)))
        self.onconn = cfg.get("onconn", "coro")
        self.catch = cfg.get("catch", True)
        self.aclose_at = cfg.get("aclose_at", 0)
        self.work = cfg.get("work", 0)


class Body:
    """The generator body shared by handle() / on_connection() of the high-level handler and by the low-level callback."""

    def __init__(self, rec: Recorder, script: Script, shape: Shape) -> None:
        self.rec = rec
        self.script = script
        self.shape = shape
        self.nyield = 0

    async def gen(self, client: Any, kind: str, slots: int):
        import asyncio

        rec, script, shape = self.rec, self.script, self.shape
        g = rec.gen_start(kind)
        rec.add("gen-start", kind)
        try:
            n = 0
            while not slots or n < slots:
                n += 1
                tau = shape.taus[self.nyield % len(shape.taus)]
                self.nyield += 1
                y = rec.yield_begin(g, tau)
                if tau == 0:
                    script.hold += 1
                try:
                    try:
                        req = yield tau
                    finally:
                        if tau == 0:
                            script.hold -= 1
                except TimeoutError:
                    rec.yield_end(y, "timeout")
                    rec.add("timeout")
                    continue
                except StreamProtocolParseError:
                    rec.yield_end(y, "item")
                    rec.items += 1
                    rec.add("err")
                    if not shape.catch:
                        raise
                    resp = "err"
                except GeneratorExit:
                    rec.yield_end(y, "exit")
                    rec.gen_exit(g)
                    rec.add("gen-exit", kind)
                    raise
                except BaseException as exc:
                    rec.yield_end(y, "other")
                    rec.add("thrown", type(exc).__name__)
                    raise
                else:
                    rec.yield_end(y, "item")
                    rec.items += 1
                    rec.add("req", req)
                    resp = "ok:" + str(req)
                for _ in range(shape.work):
                    await asyncio.sleep(0)
                try:
                    await client.send_packet(resp)
                except Exception as exc:  # noqa: BLE001 - only legitimate after the peer reset the connection (checked by the oracle)
                    rec.send_failed = getattr(rec, "send_failed", 0) + 1
                    rec.send_failed_types = getattr(rec, "send_failed_types", set()) | {type(exc).__name__}
                if shape.aclose_at == rec.items:
                    try:
                        await client.aclose()
                    except Exception:  # noqa: BLE001 - idem
                        rec.send_failed = getattr(rec, "send_failed", 0) + 1
                    rec.add("aclose")
        finally:
            rec.gen_final(g)
            rec.add("gen-final", kind)


class HLHandler(AsyncStreamRequestHandler):
    def __init__(self, body: Body) -> None:
        self.body = body

    def handle(self, client: Any) -> Any:
        return self.body.gen(client, "h", self.body.shape.k)

    def on_connection(self, client: Any) -> Any:
        self.body.rec.add("conn")
        if self.body.shape.onconn in ("gen", "gen2"):
            return self.body.gen(client, "oc", 2 if self.body.shape.onconn == "gen2" else 1)  # gen2: two handshake requests, each with its own yielded timeout
        return self._noop()

    async def _noop(self) -> None:
        return None

    async def on_disconnection(self, client: Any) -> None:
        self.body.rec.add("disc")
        self.body.rec.disc_closing = bool(client.is_closing())  # informational only (not part of C15's statement)


# ---------------------------------------------------------------------------------------------------------
# one execution


def stream_of(cfg: dict) -> tuple[bytes, list[tuple[str, int]]]:
    """(bytes sent by the client, [(frame kind, index of its last byte)] of the COMPLETE frames)."""
    data = b"".join(FRAME_BYTES[f] for f in cfg["frames"])
    cut = cfg.get("cut")
    if cut is not None:
        data = data[:cut]
    frames = []
    pos = 0
    for f in cfg["frames"]:
        pos += len(FRAME_BYTES[f])
        if pos <= len(data):
            frames.append((f, pos - 1))
    return data, frames


def run_one(ctx: Ctx, cfg: dict) -> dict:
    import asyncio

    world = World(ctx, horizon=HORIZON)
    pl = cfg.get("place", "costed")
    script = Script(world, ctx, place=pl != "none", place_costed=pl != "free", lane_costed=pl != "free", max_waits=cfg.get("max_waits", 1))
    rec = Recorder(world, script)
    shape = Shape(cfg)
    body = Body(rec, script, shape)
    data, frames = stream_of(cfg)
    sizes = cfg["chunks"]
    assert sum(sizes) == len(data), (sizes, data)
    arrival = cfg.get("arrival") or [None] * len(sizes)
    csock = world.stream_socket()
    csock.tag = "client"
    serializer = StringLineSerializer()
    proto: Any = StreamProtocol(serializer, NoneForC()) if cfg["proto"] == "copy" else BufferedStreamProtocol(serializer, NoneForC())
    out: dict = {"tie": 0}

    def put(chunk: bytes) -> None:
        if not csock.closed_flag:
            csock.rx.put(chunk)

    def end() -> None:
        if csock.closed_flag:
            return
        if cfg.get("end", "eof") == "eof":
            csock.rx.eof = True
        else:
            csock.rx.error = ConnectionResetError(errno.ECONNRESET, "reset by peer")

    async def main(loop: Any) -> None:
        backend = RigBackend(world)
        mrs = cfg.get("mrs") or 16384
        if cfg["api"] == "hl":
            server = AsyncTCPNetworkServer(None, 0, proto, HLHandler(body), backend=backend, logger=quiet_logger(), max_recv_size=mrs)
            task = loop.create_task(server.serve_forever())
            up = await wait_until(server.is_serving)
            lsock = backend.tcp_listener_socks[0]
        else:
            lsock = world.listener_socket()
            lsock.tag = "listener"
            quiet_logger()
            ll = AsyncStreamServer(ListenerSocketAdapter(backend, lsock, AcceptedSocketFactory()), proto, mrs)

            def cb(client: Any) -> Any:
                return body.gen(client, "h", shape.k)

            task = loop.create_task(ll.serve(cb, disconnect_error_filter=lambda exc: isinstance(exc, ConnectionError)))
            await asyncio.sleep(0)
            up = True
        out["up"] = up
        events = [Ev("connect", lambda: lsock.accept_q.append(csock))]
        pos = 0
        for i, n in enumerate(sizes):
            chunk = data[pos:pos + n]
            pos += n
            events.append(Ev(f"chunk{i}", (lambda c=chunk: put(c)), arrival[i]))
        events.append(Ev("end", end, cfg.get("end_delay")))
        script.lane(events)
        script.start(loop)
        await script.quiescent()
        out["serving"] = server.is_serving() if cfg["api"] == "hl" else not task.done()
        out["closed"] = csock.closed_flag
        out["alive"] = sorted(k[0] for k in rec.alive.values())
        out["tx"] = bytes(csock.tx.total)
        out["iterations"] = loop.iterations
        if cfg["api"] == "hl":
            await server.shutdown()
            await task
            await server.server_close()
        else:
            task.cancel()
            try:
                await task
            except asyncio.CancelledError:
                pass
            await ll.aclose()
        out["open_after"] = [s.tag for s in world.open_sockets()]

    status, value, loop = vloop.run(world, main)
    out["status"] = status if status != "exc" else "exc:" + repr(value)[:200]
    out["log"] = list(rec.log)
    out["yields"] = rec.yields
    out["overlap"] = list(rec.overlap)
    out["exits"] = dict(rec.exits)
    out["finals"] = dict(rec.finals)
    out["applied"] = list(script.applied)
    out["placed_busy"] = script.placed_busy
    out["disc_closing"] = getattr(rec, "disc_closing", None)
    out["send_failed"] = getattr(rec, "send_failed", 0)
    out["send_failed_types"] = sorted(getattr(rec, "send_failed_types", ()))
    out["unhandled"] = [u.get("exception") or u.get("message") for u in vloop.collect_unhandled(loop)]
    # availability of each complete frame: logical clock (number of events applied before it became complete) and time
    avail = []
    ends = []
    pos = 0
    for i, n in enumerate(sizes):
        pos += n
        ends.append(pos - 1)
    label_at = {lab: (k + 1, t) for k, (lab, t, _s) in enumerate(script.applied)}
    for f, last in frames:
        ci = next(i for i, e in enumerate(ends) if e >= last)
        avail.append((f,) + label_at.get(f"chunk{ci}", (10 ** 9, float("inf"))))
    out["avail"] = avail
    out["end_at"] = label_at.get("end", (10 ** 9, float("inf")))
    return out


# ---------------------------------------------------------------------------------------------------------
# reference model (lockstep with the observed yields)


class Mismatch(Exception):
    def __init__(self, symptom: str, detail: str) -> None:
        super().__init__(symptom, detail)
        self.symptom = symptom
        self.detail = detail


def reference(cfg: dict, obs: dict) -> tuple[list[tuple], bytes, dict]:
    """The log the handler MUST have observed, the bytes the client MUST have received, and notes.  The times / logical
    clocks at which the handler yielded are taken from the observation (they are inputs of the model, the handler being
    harness code); wherever the documentation leaves latitude the observed outcome is followed and noted."""
    shape = Shape(cfg)
    hl = cfg["api"] == "hl"
    avail = obs["avail"]  # (kind, seq, t) per complete frame
    end_seq, end_t = obs["end_at"]
    reset = cfg.get("end", "eof") == "reset"
    yields = obs["yields"]
    exp: list[tuple] = []
    tx = bytearray()
    notes = {"near-deadline": 0, "reset-truncated": 0, "disc-either": False, "zero-tau-transport": 0, "ended": ""}
    st = {"n": 0, "yi": 0, "closing": False, "nyield": 0}
    valid_pos = {"n": 0}

    def outcome(y: dict) -> str:
        """what the yield must resume with: 'item' | 'timeout' | 'exit' (or follow the observation within latitude)"""
        tau = y["tau"]
        seen = y["outcome"]
        if st["closing"]:
            return "exit"
        nxt = avail[st["n"]] if st["n"] < len(avail) else None
        # (logical clock, time) at which the awaited thing (next complete frame, else the disconnect) happened
        if nxt is not None:
            what, w_seq, w_t = "item", nxt[1], nxt[2]
        else:
            what, w_seq, w_t = "exit", end_seq, end_t
        if reset and nxt is not None and seen == "exit" and end_seq <= y["seq_resume"]:
            # connection reset applied before this yield resumed: undelivered requests may be dropped with it
            notes["reset-truncated"] += 1
            return "exit"
        if tau is None:
            return what
        if tau == 0:
            if w_seq <= y["seq"]:
                # it had happened before the yield
                if what == "item" and (cfg.get("mrs") or not (st["n"] > 0 and avail[st["n"] - 1][1] == w_seq)):
                    # its bytes were in the transport, not yet in the server's parser: fetching them needs a checkpoint
                    notes["zero-tau-transport"] += 1
                    if seen == "timeout":
                        notes["zero-tau-transport-timed-out"] = notes.get("zero-tau-transport-timed-out", 0) + 1
                    return seen if seen in ("item", "timeout") else "item"
                if what == "exit":
                    return seen if seen in ("exit", "timeout") else "exit"
                return "item"
            return "timeout"
        deadline = y["t"] + tau
        if w_seq <= y["seq"] or w_t < deadline - TOL:
            return what
        if w_t > deadline + TOL:
            return "timeout"
        notes["near-deadline"] += 1
        return seen if seen in (what, "timeout") else what

    def run_gen(kind: str, slots: int) -> str:
        exp.append(("gen-start", kind))
        n = 0
        while not slots or n < slots:
            n += 1
            if st["yi"] >= len(yields):
                left = [a[0] for a in avail[st["n"]:]]
                if left and not st["closing"]:
                    raise Mismatch("request-lost", f"requests {left} were never handed to a handler (no further yield was observed)")
                raise Mismatch("generator-never-reached-its-next-yield", f"the model expects yield #{st['yi'] + 1} of generator {kind!r}")
            y = yields[st["yi"]]
            st["yi"] += 1
            o = outcome(y)
            if y["outcome"] != o:
                sym = {("item", "timeout"): "spurious-timeout", ("timeout", "item"): "missing-timeout", ("item", "exit"): "request-lost",
                       ("exit", "item"): "request-delivered-after-close" if st["closing"] else "phantom-request",
                       ("timeout", "exit"): "generator-closed-instead-of-timeout", ("exit", "timeout"): "timeout-instead-of-generator-close",
                       }.get((o, y["outcome"]), f"yield-resumed-with-{y['outcome']}-instead-of-{o}")
                raise Mismatch(sym, f"yield #{st['yi']} (generator {kind!r}, timeout={y['tau']}, at t={y['t']:.4f}) resumed with {y['outcome']!r} at "
                                    f"t={(y['t_resume'] or 0):.4f}; the reference model says {o!r}"
                                    + (f" (next request {avail[st['n']][0]!r} complete at t={avail[st['n']][2]:.4f})" if st["n"] < len(avail) else f" (no request left; disconnect at t={end_t:.4f})"))
            if o == "timeout":
                exp.append(("timeout",))
                if y["outcome"] == "timeout" and y["tau"] and abs(y["t_resume"] - (y["t"] + y["tau"])) > 0.002:
                    raise Mismatch("timeout-at-wrong-time", f"yield at t={y['t']:.4f} tau={y['tau']} resumed with TimeoutError at t={y['t_resume']:.4f}")
                continue
            if o == "exit":
                exp.append(("gen-exit", kind))
                exp.append(("gen-final", kind))
                return "exit"
            f = avail[st["n"]][0]
            st["n"] += 1
            if f == "X":
                exp.append(("err",))
                if not shape.catch:
                    exp.append(("gen-final", kind))
                    return "raised"
                tx.extend(b"err\n")
            else:
                exp.append(("req", FRAME_VALUE[f]))
                tx.extend(b"ok:" + str(FRAME_VALUE[f]).encode() + b"\n")
            if shape.aclose_at == st["n"]:
                exp.append(("aclose",))
                st["closing"] = True
        exp.append(("gen-final", kind))
        return "done"

    if not hl:
        notes["ended"] = run_gen("h", shape.k)
        return exp, bytes(tx), notes
    exp.append(("conn",))
    if shape.onconn in ("gen", "gen2"):
        r = run_gen("oc", 2 if shape.onconn == "gen2" else 1)
        if r in ("raised", "exit"):
            notes["ended"] = "oc-" + r
            return exp, bytes(tx), notes  # documented: on_disconnection is not called
        if st["closing"]:
            notes["disc-either"] = True
    r = "done"
    while not st["closing"]:
        r = run_gen("h", shape.k)
        if r != "done":
            break
    notes["ended"] = "h-" + r
    exp.append(("disc",))
    return exp, bytes(tx), notes


def oracle(cfg: dict, obs: dict) -> tuple[str | None, str, dict]:
    """(symptom or None, message, notes)"""
    if obs["status"] != "ok":
        sym = {"deadlock": "hang", "horizon": "livelock"}.get(obs["status"].split(":")[0], "execution-raised-" + obs["status"][4:].split("(")[0])
        return sym, f"status={obs['status']} log={obs.get('log')}", {}
    if not obs.get("up"):
        return "server-not-up", "", {}
    try:
        exp, tx, notes = reference(cfg, obs)
    except Mismatch as m:
        return m.symptom, m.detail + f" | observed log={obs['log']}", {}
    log = list(obs["log"])
    exp_cmp = list(exp)
    if notes.get("disc-either") and log and log[-1][0] == "disc" and not (exp_cmp and exp_cmp[-1][0] == "disc"):
        log = log[:-1]
    elif notes.get("disc-either") and exp_cmp and exp_cmp[-1][0] == "disc" and not (log and log[-1][0] == "disc"):
        exp_cmp = exp_cmp[:-1]
    if log != exp_cmp:
        i = next((k for k, (a, b) in enumerate(zip(log, exp_cmp)) if a != b), min(len(log), len(exp_cmp)))
        got = log[i] if i < len(log) else ("<nothing>",)
        want = exp_cmp[i] if i < len(exp_cmp) else ("<nothing>",)
        sym = classify(got, want)
        return sym, f"entry #{i}: handler observed {got}, reference says {want} | observed={log} | reference={exp_cmp}", notes
    if obs["overlap"]:
        return "two-generators-alive", f"{obs['overlap']}", notes
    if obs["alive"]:
        return "generator-left-suspended", f"alive at quiescence: {obs['alive']}", notes
    bad = [g for g, n in obs["finals"].items() if n != 1] + [g for g, n in obs["exits"].items() if n > 1]
    if bad:
        return "generator-closed-twice", f"finals={obs['finals']} exits={obs['exits']}", notes
    if not obs["closed"]:
        return "connection-not-closed", "the client socket is still open at quiescence", notes
    if obs["send_failed"] and cfg.get("end", "eof") != "reset":
        return "send-failed-without-reset", f"send_packet/aclose raised {obs['send_failed_types']} {obs['send_failed']} time(s) although the peer never reset the connection", notes
    if obs["tx"] != tx and not (obs["send_failed"] and tx.startswith(obs["tx"])):
        return "responses-differ", f"client received {obs['tx']!r}, reference {tx!r}", notes
    if not obs["serving"]:
        return "server-stopped", "the server is not serving any more after the connection ended", notes
    if obs["open_after"]:
        return "socket-leak-after-shutdown", f"{obs['open_after']}", notes
    if obs["tie"]:
        return None, "", notes
    return None, "", notes


def classify(got: tuple, want: tuple) -> str:
    g, w = got[0], want[0]
    if w == "req" and g == "req":
        return "wrong-request-order-or-duplicate"
    if w in ("req", "err") and g == "timeout":
        return "spurious-timeout"
    if w == "timeout" and g in ("req", "err"):
        return "missing-timeout"
    if w in ("req", "err") and g in ("gen-exit", "disc", "<nothing>", "gen-final"):
        return "request-lost"
    if w == "err" and g == "req" or w == "req" and g == "err":
        return "parse-error-at-wrong-position"
    if g == "thrown":
        return "unexpected-exception-thrown-" + str(got[1])
    if w == "gen-exit" and g in ("req", "err"):
        return "request-delivered-after-close"
    if w == "gen-exit":
        return "generator-not-closed-on-disconnect"
    if w == "disc" or g == "disc":
        return "on_disconnection-not-as-documented"
    if g in ("req", "err") and w in ("gen-exit", "<nothing>", "gen-final", "disc"):
        return "request-after-close-or-phantom-request"
    return f"log-differs-{g}-instead-of-{w}"


# ---------------------------------------------------------------------------------------------------------
# enumeration


def chunkings(n: int, max_cuts: int = 3) -> list[tuple[int, ...]]:
    """all chunkings with <= max_cuts cuts + all uniform chunk sizes"""
    out = set()
    for k in range(0, min(max_cuts, n - 1) + 1):
        for cuts in itertools.combinations(range(1, n), k):
            b = (0,) + cuts + (n,)
            out.add(tuple(b[i + 1] - b[i] for i in range(len(b) - 1)))
    for size in range(1, n + 1):
        sizes = [size] * (n // size)
        if n % size:
            sizes.append(n % size)
        out.add(tuple(sizes))
    return sorted(out, key=lambda s: (len(s), s))


def frame_strings(maxn: int, extra: bool = False) -> list[str]:
    """every sequence of 1..maxn frames over {valid, malformed}; valid frames are distinct lines (a, bb, c, a) by position"""
    valid = "abca"
    out = []
    for n in range(1, maxn + 1):
        for pat in itertools.product("VX", repeat=n):
            out.append("".join(valid[i] if p == "V" else "X" for i, p in enumerate(pat)))
    if extra:
        out += ["aa", "aaa", "aXa", "bab", "cc"]  # repeated frames
    return out


def streams(maxn: int, extra: bool = False, midcuts: bool = True) -> list[dict]:
    """frames + where the client disconnects: after the last frame, or at every byte position inside the last frame (a
    disconnect inside/after an earlier frame is the same byte stream as a shorter frame string, enumerated there)"""
    out = []
    for fs in frame_strings(maxn, extra):
        total = sum(len(FRAME_BYTES[f]) for f in fs)
        out.append({"frames": fs, "cut": None})
        if midcuts:
            last = len(FRAME_BYTES[fs[-1]])
            for cut in range(total - last + 1, total):
                out.append({"frames": fs, "cut": cut})
    return out


def mk_shapes(ks: tuple, tauss: tuple, ocs: tuple, catches: tuple, acs: tuple, works: tuple) -> list[dict]:
    return [{"k": k, "taus": taus, "onconn": oc, "catch": catch, "aclose_at": ac, "work": work}
            for k in ks for taus in tauss for oc in ocs for catch in catches for ac in acs for work in works]


# family -> tier -> list of sub-plans
PLAN: dict[str, dict[str, list[dict]]] = {
    # every chunking x every handler shape; every event is applied when the loop idles (no placement choice)
    "cut": {
        "quick": [dict(maxn=3, max_cuts=3, slim_from=3, ends=("eof",), mrs=(None,),
                       shapes=mk_shapes((1, 2, 0), ((None,), (0, None)), ("coro", "gen"), (True, False), (0, 1, 2), (0,)))],
        "thorough": [dict(maxn=4, extra=True, max_cuts=3, slim_from=4, ends=("eof", "reset"), mrs=(None, 3),
                          shapes=mk_shapes((1, 2, 0), ((None,), (0, None), (TAU,), (None, 0)), ("coro", "gen"), (True, False), (0, 1, 2), (0,)))],
    },
    # every event placed by the explorer at ANY loop-iteration boundary (free), incl. withholding it until a timeout fired
    "place": {
        "quick": [dict(maxn=2, chunks=(1, 2), free=True, ends=("eof",), nocatch=True,
                       shapes=mk_shapes((1,), ((None,), (TAU,), (0, None)), ("coro",), (True,), (0,), (1,))
                       + mk_shapes((0,), ((None,),), ("coro", "gen"), (True,), (0, 1), (0,))),
                  dict(maxn=3, chunks=(3,), free=False, bound=1, ends=("eof",), midcuts=False,
                       shapes=mk_shapes((1, 0), ((None,), (TAU,)), ("coro",), (True,), (0,), (1,)))],
        "thorough": [dict(maxn=2, chunks=(1, 2), free=True, ends=("eof", "reset"), nocatch=True,
                          shapes=mk_shapes((1, 0), ((None,), (TAU,), (0, None)), ("coro",), (True,), (0, 1), (1,))
                          + mk_shapes((1, 0), ((None,), (TAU,)), ("gen",), (True,), (0,), (0,))
                          + mk_shapes((2,), ((None, TAU),), ("coro",), (True,), (0, 2), (0,))),
                     dict(strings=("ab", "aX", "Xb"), chunks=(3,), free=True, ends=("eof",), midcuts=False,
                          shapes=mk_shapes((1, 0), ((None,), (TAU,)), ("coro",), (True,), (0,), (1,))
                          + mk_shapes((1,), ((0, None),), ("coro",), (True,), (0,), (1,))
                          + mk_shapes((2,), ((None, TAU),), ("coro",), (True,), (0,), (0,))),
                     dict(maxn=3, chunks=(2, 3), free=False, bound=1, ends=("eof",), midcuts=True, only_len=3,
                          shapes=mk_shapes((1, 0), ((None,), (TAU,), (0, None)), ("coro",), (True,), (0, 1), (1,))
                          + mk_shapes((1,), ((None,),), ("gen",), (True,), (0,), (0,)))],
    },
    # timed arrivals x per-yield timeouts
    "time": {
        "quick": [dict(maxn=2, chunks=(1, 2), midcuts=True, nocatch=True,
                       shapes=mk_shapes((1, 0), ((TAU,), (None, TAU), (0, TAU)), ("coro", "gen"), (True,), (0,), (0,))
                       + mk_shapes((2,), ((TAU,),), ("coro",), (True,), (0, 2), (0,))
                       + mk_shapes((1,), ((TAU, None), (None, TAU)), ("gen2",), (True,), (0,), (0,)))],
        "thorough": [dict(maxn=3, chunks=(1, 2, 3), midcuts=True, nocatch=True,
                          shapes=mk_shapes((1, 0), ((TAU,), (None, TAU), (TAU, None), (0, TAU)), ("coro", "gen"), (True,), (0,), (0,))
                          + mk_shapes((2,), ((TAU,), (None, TAU)), ("coro",), (True,), (0, 2), (0,))
                          + mk_shapes((1, 0), ((TAU, None), (None, TAU), (TAU,)), ("gen2",), (True,), (0,), (0,)))],
    },
}
NOCATCH = {"place": {"k": 0, "taus": (None,), "onconn": "coro", "catch": False, "aclose_at": 0, "work": 1},
           "time": {"k": 0, "taus": (TAU,), "onconn": "coro", "catch": False, "aclose_at": 0, "work": 0}}
PARTS = {"quick": {"cut": (6, 2), "place": (10, 4), "time": (6, 3)}, "thorough": {"cut": (40, 12), "place": (60, 24), "time": (44, 16)}}


def shapes_for(plan: dict, fam: str, frames: str, api: str) -> list[dict]:
    out = []
    shapes = list(plan["shapes"])
    if plan.get("nocatch") and fam in NOCATCH:
        shapes.append(NOCATCH[fam])
    for sh in shapes:
        if not sh["catch"] and "X" not in frames:
            continue  # identical behaviour without a malformed frame
        if sh["aclose_at"] > len(frames):
            continue  # never reached
        if api == "ll" and (sh["onconn"] != "coro" or not sh["catch"]):
            continue  # low-level API: no on_connection hook; an exception leaving the callback is the caller's business (C17)
        out.append(sh)
    return out


def plan_streams(plan: dict) -> list[dict]:
    if "strings" in plan:
        return [{"frames": fs, "cut": None} for fs in plan["strings"]]
    sts = streams(plan["maxn"], plan.get("extra", False), plan.get("midcuts", True))
    if plan.get("only_len"):
        sts = [st for st in sts if len(st["frames"]) == plan["only_len"]]
    return sts


def jobs(tier: str) -> list[dict]:
    out: list[dict] = []
    for fam in ("place", "time", "cut"):
        for api in ("hl", "ll"):
            for proto in ("copy", "buf"):
                nparts = PARTS[tier][fam][0 if api == "hl" else 1]
                for part in range(nparts):
                    out.append({"family": fam, "api": api, "proto": proto, "part": part, "parts": nparts, "tier": tier})
    return out


def configs(job: dict) -> Any:
    """the configurations of one job (a slice of its family's product)"""
    tier, fam, api, proto = job["tier"], job["family"], job["api"], job["proto"]
    idx = 0
    base = {"api": api, "proto": proto}
    for plan in PLAN[fam][tier]:
        for st in plan_streams(plan):
            data, _fr = stream_of({"frames": st["frames"], "cut": st["cut"]})
            n = len(data)
            for sh in shapes_for(plan, fam, st["frames"], api):
                if fam == "cut":
                    for ch in chunkings(n, plan["max_cuts"]):
                        if len(st["frames"]) >= plan["slim_from"] and len(ch) > 3 and len(set(ch)) > 2:
                            continue  # longest streams: 3-cut chunkings only when near-uniform
                        idx += 1
                        if idx % job["parts"] != job["part"]:
                            continue
                        for end in plan["ends"]:
                            if end == "reset" and len(ch) > 2:
                                continue
                            for mrs in plan["mrs"]:
                                if mrs and (sh["taus"] != (None,) or sh["onconn"] != "coro" or sh["aclose_at"]):
                                    continue
                                yield {**base, **st, **sh, "chunks": list(ch), "end": end, "place": "none", "bound": 0, "mrs": mrs}
                    continue
                for ch in chunkings(n, max(plan["chunks"]) - 1):
                    if len(ch) not in plan["chunks"]:
                        continue
                    idx += 1
                    if idx % job["parts"] != job["part"]:
                        continue
                    if fam == "place":
                        for end in plan["ends"]:
                            if end == "reset" and len(ch) > 1:
                                continue
                            yield {**base, **st, **sh, "chunks": list(ch), "end": end, "place": "free" if plan["free"] else "costed",
                                   "bound": 0 if plan["free"] else plan["bound"], "max_waits": 1}
                    else:
                        for arr in itertools.product(DELAYS, repeat=len(ch)):
                            for ed in END_DELAYS:
                                yield {**base, **st, **sh, "chunks": list(ch), "arrival": list(arr), "end": "eof", "end_delay": ed,
                                       "place": "none", "bound": 0}


# ---------------------------------------------------------------------------------------------------------
# job runner


def cfg_class(cfg: dict) -> tuple:
    return (cfg["api"], cfg["proto"], cfg["frames"], cfg.get("cut"), cfg["k"], tuple(cfg["taus"]), cfg["onconn"], cfg["catch"], cfg["aclose_at"])


def run_job(job: dict) -> JobResult:
    res = JobResult()
    fam = job["family"]
    for cfg in configs(job):
        found: dict[str, tuple[Ctx, dict, str]] = {}

        def check(ctx: Ctx, obs: dict, cfg: dict = cfg) -> None:
            res.evaluations += 1
            if res.evaluations % 1000 == 0:
                gc.collect()  # abandoned loops/tasks are cyclic garbage: keep the workers' memory flat
            sym, msg, notes = oracle(cfg, obs)
            if sym is None:
                res.outcome(f"{fam}:ended-" + notes.get("ended", "?"))
                for k in ("near-deadline", "reset-truncated", "zero-tau-transport", "zero-tau-transport-timed-out"):
                    if notes.get(k):
                        res.count(k, notes[k])
                ntimeouts = sum(1 for e in obs["log"] if e[0] == "timeout")
                if ntimeouts:
                    res.count("executions_with_TimeoutError")
                if any(e[0] == "err" for e in obs["log"]):
                    res.count("executions_with_parse_error")
                if sum(1 for e in obs["log"] if e == ("gen-start", "h")) > 1:
                    res.count("executions_with_generator_restart")
                if obs["placed_busy"]:
                    res.count("executions_with_busy_placement")
                if obs["unhandled"]:
                    res.count("executions_with_loop_exception_handler_calls")
                for t in obs["send_failed_types"]:
                    res.count("info_send_packet_after_peer_reset_raised_" + t)
                if obs["disc_closing"] is False:
                    res.count("info_on_disconnection_saw_is_closing_False")
            else:
                res.outcome("VIOLATION:" + sym)
                if sym not in found:
                    found[sym] = (ctx, obs, msg)
            if any(ctx.choices) or len(cfg["chunks"]) > 1:
                res.nontrivial.add(digest((cfg_class(cfg), obs["log"], obs["tx"] if "tx" in obs else None)))
            return sym is not None  # (lets explore() abandon a configuration whose broken run no longer replays deterministically)

        stats = explore(lambda ctx, cfg=cfg: run_one(ctx, cfg), bound=cfg["bound"], check=check, max_runs=60000)
        res.transitions += stats["points"]
        if stats["cap_hit"]:
            res.caps.append(f"{fam} max_runs")
        for sym, (ctx, obs, msg) in found.items():
            res.violations.append(Violation(
                f"{cfg['api']}/{cfg['proto']}/{fam}/{sym}",
                f"{describe(cfg)}: {msg} | events applied={[(a, round(t, 4)) for a, t, _ in obs.get('applied', [])]} choices={ctx.choices}",
                {"cfg": cfg, "choices": list(ctx.choices), "labels": [p[1] for p in ctx.points]},
            ))
        if len(res.samples) < 3 and len(cfg["chunks"]) > 1 and stats["runs"] > 1:
            res.samples.append({"config": describe(cfg), "executions": stats["runs"], "choice_points_max": stats["max_depth"]})
    return res


def describe(cfg: dict) -> str:
    return (f"{cfg['api']}/{cfg['proto']} frames={cfg['frames']!r} cut={cfg.get('cut')} chunks={cfg['chunks']} arrival={cfg.get('arrival')} "
            f"end={cfg.get('end')}@{cfg.get('end_delay')} k={cfg['k'] or 'inf'} taus={tuple(cfg['taus'])} on_connection={cfg['onconn']} "
            f"catch={cfg['catch']} aclose_at={cfg['aclose_at']} work={cfg['work']} place={cfg.get('place')}")


def replay(doc: dict) -> tuple[bool, str]:
    rp = doc["replay"]
    cfg = rp["cfg"]
    ctx = Ctx(rp["choices"])
    obs = run_one(ctx, cfg)
    sym, msg, notes = oracle(cfg, obs)
    lines = [describe(cfg), f"choices={rp['choices']}", "labels=" + ",".join(p[1] for p in ctx.points),
             f"events applied (label, virtual time, select#)={obs['applied']}", f"status={obs['status']}",
             "handler log:"]
    lines += [f"  {e}" for e in obs["log"]]
    lines.append("yields: " + "; ".join(f"tau={y['tau']} t={y['t']:.4f}->{y['outcome']}@{(y['t_resume'] or 0):.4f}" for y in obs["yields"]))
    lines.append(f"client received={obs.get('tx')!r} closed={obs.get('closed')} serving={obs.get('serving')} open_after={obs.get('open_after')}")
    lines.append(f"oracle: {sym} {msg}")
    return sym is not None, "\n".join(lines)
