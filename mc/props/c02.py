"""C02 - parsing depends only on the bytes; a bad frame costs exactly one error; resumption after a size rejection.

Explicit-state search (engine E5) over byte streams built from frame kinds
{valid, undecodable, largest-safe, at-the-limit band, just over, far over}, against an independent reference
frame decoder.  Frame i of a stream is made of digit chr(ord('1')+i) only, so that "derived from frame j" is
decidable on the packets that come out.
"""
from __future__ import annotations

import base64
import binascii
import itertools
import json
import struct
from dataclasses import dataclass
from typing import Any, Callable

from easynetwork.protocol import BufferedStreamProtocol, StreamProtocol
from easynetwork.serializers import JSONSerializer, NamedTupleStructSerializer, StringLineSerializer
from easynetwork.serializers.wrapper import Base64EncoderSerializer

from .. import chunkmc, zoo
from ..core import JobResult, Violation, digest

PROPERTY = "C02"
LEVEL = "model_checking"
RULE = (
    "byte streams = every sequence (quick: <= 2 frames + all [pre, X, post] triples; thorough: <= 3 frames + [pre, X, Y, post]) "
    "over the frame kinds {valid-short, valid, undecodable, largest-safe (frame+sep = limit-1), band-low (= limit), "
    "band-high (payload = limit), over-by-1, far-over}; each stream fed under EVERY chunking to both real consumers "
    "(explicit-state, merged on canonical consumer heap) and compared with an independent frame-by-frame reference decoder; "
    "distinct_nontrivial = distinct (config, limit, path, stream) searches containing a malformed or size-critical frame"
)
ASSUMPTIONS = [
    "safely within the limit means frame payload + separator <= limit-1 (derived from both scanners, DESIGN.md C02)",
    "what is reported FOR a frame in the band/over the limit is unconstrained, as the statement allows; only resumption after its terminator is checked",
    "length-prefixed (file-based) and fixed-size framing have no in-band terminator: only safe frames are enumerated there",
]
BOUNDS = {"quick": "limits {8, 9}, base64 limit 16; <= 2 frames + triples", "thorough": "limits {6, 8, 9}: <= 3 frames + quadruples; limit 16: <= 2 frames + triples"}

LIMITS = {"quick": (8, 9), "thorough": (6, 8, 9, 16)}
DIGITS = "1234"


@dataclass
class FCfg:
    name: str
    family: str
    sep: bytes
    make: Callable[[int], Any]  # limit -> serializer
    valid: Callable[[str, int], bytes | None]  # (digit, payload length) -> payload
    undec: Callable[[str, int], bytes | None]
    ref: Callable[[bytes], tuple]  # payload (without separator) -> token
    buffered: bool = True
    resync: bool = True  # has an in-band terminator
    converter: Callable[[], Any] | None = None
    limits: tuple[int, ...] | None = None
    hints: tuple[int, ...] = (64,)

    def protos(self, limit: int):
        conv = self.converter() if self.converter else None
        return StreamProtocol(self.make(limit), conv), (BufferedStreamProtocol(self.make(limit), conv) if self.buffered else None)


def _tokP(p: Any) -> tuple:
    return ("P", repr(p))


E_INC = ("E", "IncrementalDeserializeError")
E_CONV = ("E", "PacketConversionError")
E_LIMIT = ("E", "LimitOverrunError")


def _line_cfg(nl: str, sep: bytes, enc: str, keep: bool) -> FCfg:
    def valid(d: str, n: int) -> bytes | None:
        if n < 1:
            return None
        if enc == "utf-8" and n >= 3:
            return "é".encode() + d.encode() * (n - 2)
        return d.encode() * n

    def undec(d: str, n: int) -> bytes | None:
        return b"\xff" + d.encode() * (n - 1) if n >= 1 else None

    def ref(payload: bytes) -> tuple:
        data = payload + sep if keep else payload
        try:
            return _tokP(data.decode(enc))
        except UnicodeError:
            return E_INC

    return FCfg(f"line/{nl}/{enc}/keep={int(keep)}", "sep", sep,
                lambda limit: StringLineSerializer(nl, encoding=enc, keep_end=keep, limit=limit), valid, undec, ref)


def _autosep_cfg(sep: bytes) -> FCfg:
    def ref(payload: bytes) -> tuple:
        try:
            return _tokP(payload.decode("ascii"))
        except UnicodeError:
            return E_INC

    return FCfg(f"autosep/{len(sep)}", "sep", sep, lambda limit: zoo.SepSer(sep, limit=limit),
                lambda d, n: d.encode() * n if n >= 1 else None,
                lambda d, n: b"\xff" + d.encode() * (n - 1) if n >= 1 else None, ref)


def _jsonl_cfg() -> FCfg:
    def valid(d: str, n: int) -> bytes | None:
        if n >= 3:
            return b'"' + d.encode() * (n - 2) + b'"'
        return d.encode() * n if n >= 1 else None

    def undec(d: str, n: int) -> bytes | None:
        return b"{" + d.encode() * (n - 1) if n >= 2 else None

    def ref(payload: bytes) -> tuple:
        try:
            return _tokP(json.loads(payload.decode("utf-8")))
        except (ValueError, UnicodeError):
            return E_INC

    return FCfg("json/lines", "sep", b"\n", lambda limit: JSONSerializer(limit=limit), valid, undec, ref, buffered=False)


def _conv_cfg() -> FCfg:
    def ref(payload: bytes) -> tuple:
        try:
            s = payload.decode("ascii")
        except UnicodeError:
            return E_INC
        try:
            return _tokP(int(s))
        except ValueError:
            return E_CONV

    return FCfg("conv/line+int", "sep", b"\n", lambda limit: StringLineSerializer("LF", limit=limit),
                lambda d, n: d.encode() * n if n >= 1 else None,
                lambda d, n: b"x" + d.encode() * (n - 1) if n >= 1 else None, ref, converter=lambda: zoo.IntStrConverter())


def _b64_cfg(sep: bytes) -> FCfg:
    def valid(d: str, n: int) -> bytes | None:
        if n < 4 or n % 4:
            return None
        return base64.urlsafe_b64encode(d.encode() * (n // 4 * 3))

    def undec(d: str, n: int) -> bytes | None:
        return d.encode() * n if n % 4 == 1 else None

    def ref(payload: bytes) -> tuple:
        try:
            raw = base64.urlsafe_b64decode(payload)
        except binascii.Error:
            return E_INC
        try:
            return _tokP(raw.decode("utf-8"))
        except UnicodeError:
            return E_INC

    return FCfg(f"base64/sep={sep!r}", "sep", sep,
                lambda limit: Base64EncoderSerializer(StringLineSerializer("LF", encoding="utf-8"), separator=sep, limit=limit),
                valid, undec, ref, limits=(16,))


def _file_cfg() -> FCfg:
    def ref(frame: bytes) -> tuple:
        body = frame[1:]
        return E_INC if b"\xff" in body else _tokP(body)

    return FCfg("filebased/len", "file", b"", lambda limit: zoo.LenFileSer(limit=limit),
                lambda d, n: bytes([n - 1]) + d.encode() * (n - 1) if n >= 1 else None,
                lambda d, n: bytes([n - 1]) + b"\xff" + d.encode() * (n - 2) if n >= 2 else None, ref, resync=False,
                hints=(3, 5, 64))


def _nt_cfg() -> FCfg:
    def ref(frame: bytes) -> tuple:
        x, name = struct.unpack("!h3s", frame)
        try:
            return _tokP(zoo.Point(x, name.rstrip(b"\0").decode("utf-8")))
        except UnicodeError:
            return E_INC

    return FCfg("namedtuple/!h3s", "fixed", b"", lambda limit: NamedTupleStructSerializer(zoo.Point, {"x": "h", "name": "3s"}, format_endianness="!"),
                lambda d, n: b"\x00\x07" + d.encode() * 3 if n == 5 else None,
                lambda d, n: b"\x00\x07\xff" + d.encode() * 2 if n == 5 else None, ref, resync=False, limits=(8,), hints=(1, 5, 8, 64))


def fconfigs() -> list[FCfg]:
    out = [
        _line_cfg("LF", b"\n", "ascii", False),
        _line_cfg("CR", b"\r", "ascii", False),
        _line_cfg("CRLF", b"\r\n", "ascii", False),
        _line_cfg("CRLF", b"\r\n", "ascii", True),
        _line_cfg("LF", b"\n", "utf-8", False),
        _autosep_cfg(b"|"),
        _autosep_cfg(b"\r\n"),
        _autosep_cfg(b"#~#"),
        _jsonl_cfg(),
        _conv_cfg(),
        _b64_cfg(b"\r\n"),
        _file_cfg(),
        _nt_cfg(),
    ]
    return out


def fby_name(name: str) -> FCfg:
    for c in fconfigs():
        if c.name == name:
            return c
    raise KeyError(name)


# frame kinds: name -> (class, total payload length as function of limit and seplen)
def kinds(cfg: FCfg, limit: int) -> dict[str, tuple[str, str, int]]:
    s = len(cfg.sep)
    if not cfg.resync:
        if cfg.family == "fixed":
            return {"V": ("safe", "valid", 5), "U": ("safe", "undec", 5)}
        # file based: frame length T (header included) <= limit-1 is safe
        return {"V1": ("safe", "valid", 1), "V": ("safe", "valid", 3), "U": ("safe", "undec", 3), "SAFEMAX": ("safe", "valid", limit - 1), "V5": ("safe", "valid", 5)}
    def cls(n: int) -> str:
        # the class follows from the size alone (a 3-byte payload is not "safely within" limit 6 with a 3-byte separator)
        return "safe" if n <= limit - 1 - s else ("band" if n <= limit else "over")

    table = {
        "V1": ("valid", 1),
        "V": ("valid", 3),
        "U": ("undec", 3),
        "SAFEMAX": ("valid", limit - 1 - s),
        "USAFEMAX": ("undec", limit - 1 - s),
        "BANDLO": ("valid", limit - s),
        "BANDHI": ("valid", limit),
        "OVER1": ("valid", limit + 1),
        "FAR": ("valid", 2 * limit + 3),
    }
    return {k: (cls(n), what, n) for k, (what, n) in table.items()}


def _round_b64(cfg: FCfg, what: str, n: int) -> int:
    return n


def build_stream(cfg: FCfg, limit: int, kseq: tuple[str, ...]) -> tuple[bytes, list[tuple[str, bytes]]] | None:
    ks = kinds(cfg, limit)
    frames = []
    for i, k in enumerate(kseq):
        cls, what, n = ks[k]
        d = DIGITS[i]
        payload = (cfg.valid if what == "valid" else cfg.undec)(d, n)
        if payload is None and cfg.name.startswith("base64"):
            # base64 payloads exist only for some lengths: move to the nearest length of the same class
            for dn in (1, 2, 3, -1, -2, -3):
                if cls == "safe" and n + dn > limit - 1 - len(cfg.sep):
                    continue
                if cls == "band" and not (limit - len(cfg.sep) <= n + dn <= limit):
                    continue
                if cls == "over" and n + dn <= limit:
                    continue
                payload = (cfg.valid if what == "valid" else cfg.undec)(d, n + dn)
                if payload is not None:
                    break
        if payload is None:
            return None
        frames.append((cls, payload))
    return b"".join(p + cfg.sep for _c, p in frames), frames


def matches(cfg: FCfg, frames: list[tuple[str, bytes]], outs: tuple) -> bool:
    """NFA match of the observed token sequence against the per-frame expectations."""
    m = len(frames)
    refs = [cfg.ref(p) for _c, p in frames]
    sepchars = set(cfg.sep.decode("latin-1"))

    def foreign(tok: tuple, i: int) -> bool:
        if tok[0] != "P":
            return False
        return any(DIGITS[j] in tok[1] for j in range(m) if j != i)

    from functools import lru_cache

    @lru_cache(maxsize=None)
    def go(oi: int, fi: int) -> bool:
        if fi == m:
            return oi == len(outs)
        cls = frames[fi][0]
        if cls in ("safe", "band"):
            if oi < len(outs) and outs[oi] == refs[fi] and go(oi + 1, fi + 1):
                return True
            if cls == "safe":
                return False
        # middle: >= 1 token, at least one LimitOverrunError, no packet derived from another frame
        seen_limit = False
        j = oi
        while j < len(outs):
            tok = outs[j]
            if tok[0] == "X" or foreign(tok, fi):
                return False
            if tok == E_LIMIT:
                seen_limit = True
            j += 1
            if seen_limit and go(j, fi + 1):
                return True
        return False

    return go(0, 0)


def kind_sequences(cfg: FCfg, limit: int, tier: str) -> list[tuple[str, ...]]:
    ks = list(kinds(cfg, limit))
    seqs: list[tuple[str, ...]] = []
    if limit >= 16:
        tier = "quick"  # the largest limit (longest streams, ~4x the states per stream) keeps the quick sequence alphabet in both tiers
    maxfull = 2 if tier == "quick" else 3
    for L in range(1, maxfull + 1):
        seqs.extend(itertools.product(ks, repeat=L))
    pre = [k for k in ("V", "U") if k in ks]
    post = [k for k in ("V1", "V", "U") if k in ks]
    if tier == "quick":
        seqs.extend((a, x, b) for a in pre for x in ks for b in post)
    else:
        seqs.extend((a, x, y, b) for a in pre for x in ks for y in ks for b in post)
    if not cfg.resync:
        # several small frames per read, longer than the limit in total (F6 shape)
        seqs.extend(itertools.product(ks, repeat=maxfull + 1))
    return sorted(set(seqs), key=lambda s: (len(s), s))


def jobs(tier: str) -> list[dict]:
    out = []
    for cfg in fconfigs():
        for limit in cfg.limits or LIMITS[tier]:
            nseq = len(kind_sequences(cfg, limit, tier))
            parts = max(1, min(24, nseq // 12))
            for part in range(parts):
                out.append({"cfg": cfg.name, "limit": limit, "part": part, "parts": parts, "tier": tier})
    out.append({"cfg": "json/raw", "limit": 16, "part": 0, "parts": 1, "tier": tier})
    return out


def _factory(cfg: FCfg, limit: int, kind: str, hint: int):
    if kind == "copy":
        return lambda: chunkmc.CopyDriver(cfg.protos(limit)[0])
    return lambda: chunkmc.BufDriver(cfg.protos(limit)[1], hint)


def _classify(cfg: FCfg, frames: list, kind: str, outs: tuple, extra: Any) -> str:
    classes = {c for c, _ in frames}
    if extra == "crash":
        return "crash"
    if classes == {"safe"}:
        return "safe-stream-differs-from-reference"
    return "resume-after-size-rejection"


def run_stream(cfg: FCfg, limit: int, kseq: tuple[str, ...], res: JobResult, tier: str) -> None:
    built = build_stream(cfg, limit, kseq)
    if built is None:
        res.count("kind_sequences_not_constructible")
        return
    stream, frames = built
    paths = [("copy", 0)] + ([("buf", h) for h in cfg.hints] if cfg.buffered else [])
    all_safe = all(c == "safe" for c, _ in frames)
    for kind, hint in paths:
        try:
            r = chunkmc.search(_factory(cfg, limit, kind, hint), stream, max_states=40000)
        except chunkmc.StateCap:
            res.caps.append("state cap") if "state cap" not in res.caps else None
            r = chunkmc.few_cuts(_factory(cfg, limit, kind, hint), stream, 2, uniform=True)
            r.states = r.paths
        res.evaluations += r.evaluations
        res.states += r.states
        res.transitions += r.transitions
        if any(k not in ("V", "V1") for k in kseq):
            res.nontrivial.add(digest((cfg.name, limit, kind, hint, stream)))
        for (outs, extra), path in r.terminals.items():
            ok = extra != "crash" and matches(cfg, frames, outs)
            if ok and all_safe:
                ok = (extra == (b"", False)) if kind == "copy" else (extra[0] == 0)
            if ok:
                res.outcome("all-safe-ok" if all_safe else "resumed-ok")
                continue
            sym = _classify(cfg, frames, kind, outs, extra)
            res.outcome(sym)
            res.violations.append(Violation(
                f"{kind}/{cfg.family}/{sym}",
                f"{cfg.name} limit={limit} {kind} hint={hint} frames={kseq} stream={stream!r} chunking={list(path)}: observed {outs!r} "
                f"leftover={extra!r}; reference {[cfg.ref(p) if c == 'safe' else (c, cfg.ref(p)) for c, p in frames]!r}",
                {"cfg": cfg.name, "limit": limit, "kseq": list(kseq), "kind": kind, "hint": hint, "path": list(path)},
            ))
        if len(res.samples) < 3 and not all_safe:
            res.samples.append({"config": cfg.name, "limit": limit, "frames": list(kseq), "stream": stream.decode("latin-1"), "path": kind,
                                "states": r.states, "transitions": r.transitions, "distinct_terminal_observations": len(r.terminals)})


RAW_STREAMS = [
    b'{"1":1}[2,"]"]"3\\""',
    b'7\n"22"{"3":[{}]}',
    b'[1] \n {"2":"}{"}\n8 ',
    b'{"1":}[2]',
    b'[1,]{"2":2}',
    b'nul\n[2]',
    b'"\xff1"[2]',
    b' \n[1]\n\n7\n',
]


# raw JSON with an independent reference: documents and stray closing brackets at document boundaries (a stray closer is a
# one-byte malformed frame: one error, exactly that byte consumed, later documents intact)
RAW_REF_PIECES = {"D1": (b'{"1":1}', ("P", repr({"1": 1}))), "D2": (b"[2,2]", ("P", repr([2, 2]))), "D3": (b'"3"', ("P", repr("3"))),
                  "C1": (b"]", E_INC), "C2": (b"}", E_INC)}


def run_raw_json_reference(res: JobResult) -> None:
    names = list(RAW_REF_PIECES)
    for L in (1, 2, 3):
        for seq in itertools.product(names, repeat=L):
            if not any(n.startswith("C") for n in seq):
                continue
            stream = b"".join(RAW_REF_PIECES[n][0] for n in seq)
            expected = tuple(RAW_REF_PIECES[n][1] for n in seq)
            fac = lambda: chunkmc.CopyDriver(StreamProtocol(JSONSerializer(use_lines=False, limit=32)))  # noqa: E731
            r = chunkmc.search(fac, stream)
            res.evaluations += r.evaluations
            res.states += r.states
            res.transitions += r.transitions
            res.nontrivial.add(digest(("json/raw/ref", stream)))
            for (outs, extra), path in r.terminals.items():
                if outs == expected and extra == (b"", False):
                    res.outcome("raw-json-reference-ok")
                    continue
                res.outcome("raw-json-reference-differs")
                res.violations.append(Violation(
                    "copy/json-raw/differs-from-reference" if extra != "crash" else "copy/json-raw/crash",
                    f"json raw stream={stream!r} ({seq}) chunking={list(path)}: observed {outs!r} leftover={extra!r}; reference {expected!r}",
                    {"cfg": "json/raw", "stream": stream.decode("latin-1"), "path": list(path), "expected": [list(e) for e in expected]},
                ))


def run_raw_json(res: JobResult) -> None:
    run_raw_json_reference(res)
    """Raw JSON has no independent framing reference: chunking invariance against the whole-stream-at-once run."""
    for stream in RAW_STREAMS:
        fac = lambda: chunkmc.CopyDriver(StreamProtocol(JSONSerializer(use_lines=False, limit=32)))  # noqa: E731
        r = chunkmc.search(fac, stream)
        res.evaluations += r.evaluations
        res.states += r.states
        res.transitions += r.transitions
        res.nontrivial.add(digest(("json/raw", stream)))
        drv, outs, _pos, crash = chunkmc._replay(fac, stream, (len(stream),))
        whole = (tuple(outs), "crash" if crash else drv.leftover())
        for (outs2, extra), path in r.terminals.items():
            if (outs2, extra) == whole and extra != "crash":
                res.outcome("raw-json-invariant")
                continue
            res.outcome("raw-json-differs")
            res.violations.append(Violation(
                "copy/json-raw/chunking-dependent" if extra != "crash" else "copy/json-raw/crash",
                f"json raw stream={stream!r} chunking={list(path)}: observed {outs2!r} leftover={extra!r}; whole stream at once gives {whole!r}",
                {"cfg": "json/raw", "stream": stream.decode("latin-1"), "path": list(path)},
            ))


def run_job(job: dict) -> JobResult:
    res = JobResult()
    if job["cfg"] == "json/raw":
        run_raw_json(res)
        return res
    cfg = fby_name(job["cfg"])
    seqs = kind_sequences(cfg, job["limit"], job["tier"])
    for i, kseq in enumerate(seqs):
        if i % job["parts"] == job["part"]:
            run_stream(cfg, job["limit"], kseq, res, job["tier"])
    return res


def replay(doc: dict) -> tuple[bool, str]:
    rp = doc["replay"]
    if rp["cfg"] == "json/raw":
        stream = rp["stream"].encode("latin-1")
        fac = lambda: chunkmc.CopyDriver(StreamProtocol(JSONSerializer(use_lines=False, limit=32)))  # noqa: E731
        d1, o1, _p, c1 = chunkmc._replay(fac, stream, (len(stream),))
        d2, o2, _p, c2 = chunkmc._replay(fac, stream, tuple(rp["path"]))
        w1 = (tuple(o1), "crash" if c1 else d1.leftover())
        w2 = (tuple(o2), "crash" if c2 else d2.leftover())
        if rp.get("expected") is not None:
            exp = tuple(tuple(e) for e in rp["expected"])
            return w2 != (exp, (b"", False)), f"stream={stream!r}\nchunking {rp['path']}: {w2!r}\nreference: {exp!r}"
        return w1 != w2 or bool(c2), f"stream={stream!r}\nwhole: {w1!r}\nchunking {rp['path']}: {w2!r}"
    cfg = fby_name(rp["cfg"])
    stream, frames = build_stream(cfg, rp["limit"], tuple(rp["kseq"]))
    drv, outs, _pos, crash = chunkmc._replay(_factory(cfg, rp["limit"], rp["kind"], rp["hint"]), stream, tuple(rp["path"]))
    lines = [f"config={cfg.name} limit={rp['limit']} path={rp['kind']} hint={rp['hint']} frames={rp['kseq']}", f"stream={stream!r}"]
    pos = 0
    for k in rp["path"]:
        lines.append(f"  read {stream[pos:pos+k]!r}")
        pos += k
    lines.append(f"observed={outs!r} crash={crash}")
    lines.append(f"reference per frame={[(c, cfg.ref(p)) for c, p in frames]!r}")
    bad = crash is not None or not matches(cfg, frames, tuple(outs))
    if not bad and all(c == "safe" for c, _ in frames):
        lo = drv.leftover()
        bad = (lo != (b"", False)) if rp["kind"] == "copy" else (lo[0] != 0)
    return bad, "\n".join(lines)
