"""C13 - cancel scopes interrupt on time, swallow only their own cancel, honour shields.        [E6 progmc on E2]

Every small program of the cancel-scope grammar (mc/progmc.py) is run on the real AsyncIOBackend over the virtual loop
and compared with a reference semantics; an external task.cancel() is injected nowhere / at the midpoint between every
two consecutive reference events (timed) / at every loop-iteration index of the cancel-free run (untimed).
"""
from __future__ import annotations

import os
from typing import Any

from ..core import JobResult, Violation, digest
from ..progmc import INF, Alphabet, Real, Ref, diff_traces, fmt, fmt_traces, from_json, has_op, size, skeleton, to_json

PROPERTY = "C13"
LEVEL = "exploration"
MIN_DISTINCT = 2

TIERS = {
    # max_nodes, alphabet
    "quick": (4, dict(sleeps=(1.0, 2.0), moa=(0, 0.53, 1.57), timeout=(0.53,), scope=(INF,), resched=(0.53, INF))),
    "thorough": (5, dict(sleeps=(1.0, 2.0), moa=(0, 0.53, 1.57), timeout=(0.53,), scope=(INF,), resched=(0.53, INF))),
}
NPARTS = {"quick": 96, "thorough": 192}

RULE = (
    "ALL programs of the grammar sleep(d) | yield_ | shielded_yield | move_on_after(D){P} | timeout(D){P} | scope(deadline){P} | "
    "cancel(k) | reschedule(k, now+D) | shield{P} | group{P || P} with at most N nodes (see tier_bounds) and container nesting <= 3, "
    "enumerated deterministically (no sampling), x external task.cancel() in {none} + {midpoint between every two consecutive "
    "instants of the reference trace (timed event)} + {EVERY loop-iteration index of the cancel-free run (untimed event applied "
    "inside select())}. Reductions: (1) 'mark' is not enumerated because the interpreter records the completion of every "
    "statement, which is exactly what a mark after it would record (a mark executes no library code); (2) a program starts "
    "with a scope/shield/group statement (a leading sleep/yield only shifts the time origin of relative delays); (3) empty "
    "shield{} and a group with an empty child are dropped (no-ops); (4) move_on_after(inf) == open_cancel_scope() is enumerated once "
    "(as scope(inf)); (5) cancel/reschedule only address scopes that exist (k < number of enclosing scopes, counted through group "
    "boundaries so that a child task cancels a scope of its parent). Pairs with two timers (or the injection) within 10 ms of each other are "
    "skipped and counted (skipped_ties); runs in which a cancel issued by ANOTHER task hits a task within 10 ms of another "
    "cancellation cause of that task are checked with the order-independent clauses only (race_clause_only). "
    "distinct_nontrivial = distinct (program shape without constants, injection kind, task outcome, (cancel_called, cancelled_caught) of every scope) "
    "among runs in which an external cancel was actually delivered"
)
ASSUMPTIONS = [
    "shield semantics checked: nothing raises inside ignore_cancellation, *including* for a scope entered inside it whose deadline passes or which is cancelled there "
    "(the asyncio backend postpones every task.cancel() while the shielded awaitable runs; the statement only constrains 'unshielded blocking operations', so the "
    "trio reading 'a shield only protects from enclosing scopes' is not enforced); counted in counters.programs_scope_inside_shield",
    "task group = asyncio.TaskGroup contract: a scope applies to its host task; children are cancelled when the cancellation reaches the parent inside the group "
    "(so a child keeps running while the parent sits in a shielded section)",
    "no timeout() lexically inside a task group: a TimeoutError leaving a child goes through asyncio.TaskGroup's error path (ExceptionGroup, parent.cancel()/uncancel()), which is stdlib behaviour",
    "delays: sleeps 1.00/2.00, scope delays 0/0.53/1.57/inf; ties (two timers within 10 ms) are unspecified in asyncio and excluded",
    "iteration-indexed injections are judged by clauses (i)-(iv) + bookkeeping, not by trace equality (sub-instant placement is loop bookkeeping the statement does not fix)",
    "only the asyncio backend is exercised (trio is not installed)",
]
BOUNDS = {
    "quick": "<= 4 nodes, nesting <= 3, sleeps {1,2}, move_on_after {0,0.53,1.57}, timeout {0.53}, scope {inf}, cancel k in {0,1}, reschedule D in {0.53,inf}",
    "thorough": "<= 5 nodes, nesting <= 3, same alphabet",
}


def alphabet(tier: str) -> tuple[int, Alphabet]:
    n, kw = TIERS[tier]
    return n, Alphabet(**kw)


def jobs(tier: str) -> list[dict]:
    parts = NPARTS[tier]
    return [{"tier": tier, "part": i, "parts": parts} for i in range(parts)]


# --------------------------------------------------------------------------------------------------------------------
# judging one execution


class _Sink:
    """Per-job collection of violations: at most 2 (smallest programs) per key, all counted."""

    def __init__(self, res: JobResult) -> None:
        self.res = res
        self.best: dict[str, list[tuple[int, Violation]]] = {}

    def add(self, key: str, prog: tuple, inject: tuple | None, mode: str, text: str) -> None:
        self.res.count("violating_runs:" + key)
        n = size(prog) * 1000 + (0 if inject is None else 1 + int(inject[1] * 10) % 900)
        lst = self.best.setdefault(key, [])
        if len(lst) >= 2 and n >= lst[-1][0]:
            return
        v = Violation(key, f"{fmt(prog)}  with external cancel {fmt_inject(inject)}: {text}",
                      {"prog": to_json(prog), "inject": list(inject) if inject else None, "mode": mode})
        lst.append((n, v))
        lst.sort(key=lambda t: t[0])
        del lst[2:]

    def flush(self) -> None:
        for key in sorted(self.best):
            self.res.violations.extend(v for _n, v in self.best[key])


def fmt_inject(inject: tuple | None) -> str:
    if inject is None:
        return "none"
    if inject[0] == "t":
        return f"at t={inject[1]:.4f}"
    return f"at loop iteration {inject[1]}"


def judge(prog: tuple, inject: tuple | None, ref: Ref | None, real: Real, mode: str) -> tuple[list[tuple[str, str]], str]:
    """Returns ([(violation key, text)], outcome class). mode: 'trace' (compare with ref) | 'clause'."""
    found: list[tuple[str, str]] = []
    kind = "none" if inject is None else ("timed" if inject[0] == "t" else "iter")
    if real.status != "ok":
        return [("INTERNAL", f"run ended with status {real.status}: {real.value!r}")], "internal"
    for key, text in real.problems:
        found.append(("invariant/" + key, text))
    root = real.root
    outcome = root.outcome if root is not None else "never-started"
    if ref is not None and mode == "trace":
        d = diff_traces(ref.traces(), real.traces())
        if d is not None:
            fam = "shield" if has_op(prog, ("shield", "syield")) else "plain"
            if has_op(prog, ("group",)):
                fam += "+group"
            found.append((f"trace/{kind}-cancel/{fam}/{d[0]}", d[1]))
    inj = real.inj
    if kind == "iter":
        if inj is None:
            return found, "iter:late(no-op)"
        if root is not None:
            k = inj["select"]
            after = [e for e in root.events if e[-2] >= k]
            need = bool(inj["in_ckpt"] and inj["in_ckpt"][1]) or any(e[0] in ("start", "join") and e[2] for e in after)
            completed = [e for e in after if e[0] == "done" and e[2]]
            if inj["shielded"]:
                sit = "inside-shield"
            elif inj["scopes_cancel_called"]:
                sit = "in-flight-scope-cancel"
            else:
                sit = "no-scope-cancel-pending"
            bad = []
            if need and outcome != "cancelled":
                bad.append(f"(i) task ended {outcome!r} although an unshielded checkpoint followed the external cancel")
            if completed:
                bad.append(f"(ii) unshielded checkpoint(s) completed after the external cancel: {[e[1] for e in completed]}")
            if bad:
                key = "external-cancel/" + sit
                found.append((key, "; ".join(bad) + f"; at injection: cancelling()={inj['cancelling_before']}, cancelled scopes {inj['scopes_cancel_called']}, "
                                   f"task.cancelling() at end={root.task.cancelling()}"))
            if not need and outcome != "cancelled":
                return found, "iter:" + outcome + "(no checkpoint left)"
    return found, f"{kind}:{outcome}"


def shape_digest(prog: tuple, kind: str, real: Real) -> str:
    flags = tuple((e[1], e[2], e[3]) for T in real.tasks for e in T.events if e[0] == "exit")
    return digest((skeleton(prog), kind, real.root.outcome if real.root else None, flags))


def check_program(prog: tuple, res: JobResult, sink: _Sink) -> None:
    res.count("programs")
    ref0 = Ref(prog).run()
    if ref0.timer_tie():
        res.count("skipped_ties")
        res.count("programs_skipped_entirely")
        res.outcome("skipped:timer-tie")
        return
    if has_op(prog, ("shield",)) and _scope_inside_shield(prog):
        res.count("programs_scope_inside_shield")

    def one(inject: tuple | None, ref: Ref | None, mode: str) -> Real:
        real = Real(prog, inject).run()
        res.evaluations += 1
        if ref is not None and ref.race():
            ref = None
            res.count("race_clause_only")
        found, oc = judge(prog, inject, ref, real, mode)
        res.outcome(oc)
        for key, text in found:
            if key == "INTERNAL":
                res.internal.append(f"{fmt(prog)} inject={inject}: {text}")
            else:
                sink.add(key, prog, inject, mode, text)
        if inject is not None:
            res.count("injections")
            if real.inj is not None:
                res.nontrivial.add(shape_digest(prog, inject[0], real))
                if len(res.samples) < 3 and real.root is not None and (len(res.samples) == 0 or inject[0] == "i"):
                    res.samples.append({"program": fmt(prog), "external_cancel": fmt_inject(inject), "outcome": oc,
                                        "observed_root_trace": [list(e[:-2]) + [round(e[-1], 4)] for e in real.root.events if e[0] != "start"]})
        return real

    real0 = one(None, ref0, "trace")
    res.count("disagreements_checked")
    inst = ref0.instants()
    for a, b in zip(inst, inst[1:]):
        x = round((a + b) / 2, 6)
        refx = Ref(prog, x).run()
        if refx.timer_tie():
            res.count("skipped_ties")
            res.outcome("skipped:timer-tie")
            continue
        one(("t", x), refx, "trace")
        res.count("disagreements_checked")
    if real0.status == "ok":
        for k in range(2, real0.sel_end + 1):
            one(("i", k), None, "clause")


def _scope_inside_shield(prog: tuple, inside: bool = False) -> bool:
    for s in prog:
        if s[0] in ("moa", "timeout", "scope"):
            if inside or _scope_inside_shield(s[2], inside):
                return True
        elif s[0] == "shield":
            if _scope_inside_shield(s[1], True):
                return True
        elif s[0] == "group":
            if _scope_inside_shield(s[1], False) or _scope_inside_shield(s[2], inside):
                return True
    return False


def run_job(job: dict) -> JobResult:
    res = JobResult()
    sink = _Sink(res)
    n, alpha = alphabet(job["tier"])
    part, parts = job["part"], job["parts"]
    for i, prog in enumerate(alpha.programs(n)):
        if i % parts == part:
            check_program(prog, res, sink)
    sink.flush()
    res.transitions = res.counters.get("injections", 0)
    return res


# --------------------------------------------------------------------------------------------------------------------


def replay(doc: dict) -> tuple[bool, str]:
    rp = doc["replay"]
    prog = from_json(rp["prog"])
    inject = tuple(rp["inject"]) if rp.get("inject") else None
    mode = rp.get("mode", "trace")
    lines = [f"program : {fmt(prog)}", f"external cancel: {fmt_inject(inject)}   (oracle: {'full trace' if mode == 'trace' else 'clauses (i)-(iv) + bookkeeping'})"]
    ref = None
    if inject is None or inject[0] == "t":
        ref = Ref(prog, inject[1] if inject else None).run()
        lines.append(f"reference trace (timer tie: {ref.timer_tie()}, cross-task race: {ref.race()}):")
        lines.append(fmt_traces(ref.traces(), False))
    else:
        ref0 = Ref(prog).run()
        lines.append("reference trace of the cancel-free run (for orientation; iteration-indexed injections are judged by clauses):")
        lines.append(fmt_traces(ref0.traces(), False))
    real = Real(prog, inject).run()
    lines.append(f"observed trace (status {real.status}):")
    lines.append(fmt_traces(real.traces(), True))
    if real.inj is not None:
        lines.append(f"injection: {real.inj}")
    if real.root is not None and real.prog_task is not None:
        lines.append(f"task outcome: {real.root.outcome}; task.cancelling() at end: {real.root.task.cancelling()}; end checks: {real.end_checks}")
    found, oc = judge(prog, inject, ref if (ref is not None and not ref.race() and not ref.timer_tie()) else None, real, mode)
    lines.append(f"outcome class: {oc}")
    for key, text in found:
        lines.append(f"VIOLATED {key}: {text}")
    want = doc.get("key")
    still = any(k == want for k, _ in found) if want else bool(found)
    return still, "\n".join(lines)
