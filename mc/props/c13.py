"""C13 - cancel scopes interrupt on time, swallow only their own cancel, honour shields.        [E6 progmc on E2]

Every small program of the cancel-scope grammar (mc/progmc.py) is run on the real AsyncIOBackend over the virtual loop
and compared with a reference semantics; an external task.cancel() is injected nowhere / at the midpoint between every
two consecutive reference events (timed) / at every loop-iteration index of the cancel-free run (untimed).
"""
from __future__ import annotations

from ..core import JobResult, Violation, digest
from ..progmc import INF, Alphabet, Real, RefSet, fmt, fmt_traces, from_json, has_op, shape, size, to_json

PROPERTY = "C13"
LEVEL = "exploration"
MIN_DISTINCT = 2

BASE = dict(sleeps=(1.0, 2.0), moa=(0, 0.53, 1.57), timeout=(0.53,), scope=(INF,), resched=(0.53, INF))
RICH = dict(sleeps=(0, 1.0, 2.0), moa=(0, 0.53, 1.57, 2.59), timeout=(0, 0.53, 1.57), scope=(INF, 1.57), resched=(0, 0.53, INF))
SLIM5 = dict(sleeps=(1.0, 2.0), yields=("yield",), moa=(0.53,), timeout=(), scope=(INF,), resched=(), ks=(0, 1))
SHIELD5 = dict(sleeps=(1.0,), yields=("syield",), moa=(0,), timeout=(), scope=(INF,), resched=(), ks=(0, 1))
SLIM6 = dict(sleeps=(1.0,), yields=("yield",), moa=(0.53,), timeout=(), scope=(INF,), resched=(), ks=(0,))
# catch{P} = cleanup code swallowing a CancelledError: only programs that contain one (the others are in the families above)
CATCH = dict(sleeps=(1.0,), yields=("yield",), moa=(0, 0.53), timeout=(), scope=(INF,), resched=(), ks=(0, 1), catch=True, group=False)
# tier -> families (name, alphabet, min nodes, max nodes, alphabet whose programs were already enumerated by an earlier family,
#                   statement every program of the family must contain)
TIERS = {
    "quick": [("base", BASE, 1, 4, None, None), ("rich", RICH, 1, 3, BASE, None), ("slim5", SLIM5, 5, 5, None, None), ("shield5", SHIELD5, 5, 5, None, None),
              ("catch", CATCH, 1, 4, None, "catch")],
    "thorough": [("base", BASE, 1, 5, None, None), ("rich", RICH, 1, 4, BASE, None), ("slim6", SLIM6, 6, 6, None, None),
                 ("catch", CATCH, 1, 5, None, "catch")],
}
NPARTS = {"quick": 96, "thorough": 192}

RULE = (
    "ALL programs of the grammar sleep(d) | yield_ | shielded_yield | move_on_after(D){P} | timeout(D){P} | scope(deadline){P} | "
    "cancel(k) | reschedule(k, now+D) | shield{P} | group{P || P} | catch{P} (= try: P / except CancelledError: pass, no uncancel()) with at most N nodes (see tier_bounds) and container nesting <= 3, "
    "enumerated deterministically (no sampling), x external task.cancel() in {none} + {midpoint between every two consecutive "
    "instants of the reference trace (timed event)} + {EVERY loop-iteration index of the cancel-free run from the program's first step "
    "to its end (untimed event applied inside select(); the index before the first step only for programs of <= 2 nodes)}. Reductions: (1) 'mark' is not enumerated because the interpreter records the completion of every "
    "statement, which is exactly what a mark after it would record (a mark executes no library code); (2) a program starts "
    "with a scope/shield/group statement (a leading sleep/yield only shifts the time origin of relative delays); (3) empty "
    "shield{} and a group with an empty child are dropped (no-ops); (4) move_on_after(inf) == open_cancel_scope() is enumerated once "
    "(as scope(inf)); (5) cancel/reschedule only address scopes that exist (k < number of enclosing scopes, counted through group "
    "boundaries so that a child task cancels a scope of its parent). Pairs with two timers (or the injection) within 10 ms of each other are "
    "skipped and counted (skipped_ties); (program, injection) pairs whose reference trace depends on the sub-instant latency of a "
    "cancellation wake-up / child-finished notification between TASKS (27 scheduling policies compared), or in which a cancel issued by another "
    "task falls within 10 ms of another cancellation cause of the same task, are same-instant races: they are executed and checked with the "
    "order-independent clauses only (race_clause_only). Where the statement allows two behaviours (an inner cancelled scope inside a cancelled "
    "enclosing scope may catch or propagate) every resolution is an accepted reference trace (latitude_catch_or_propagate). "
    "Programs containing catch{} (own family: every program of its alphabet and size that contains at least one catch) are run WITHOUT any "
    "external cancel - what a program that swallows a foreign task.cancel() must do next is not specified - and judged by the full trace (level-triggered: "
    "after the catch the next unshielded checkpoint inside a still cancelled scope raises again) plus the invariants (no timed unshielded sleep completes "
    "inside a scope cancelled >= 10 ms earlier, cancelling() bookkeeping at scope exits, registries/handles); counters catch_programs / "
    "catch_runs_with_swallowed_cancellation. "
    "Template family nest3 (nesting 4, 6-9 nodes): S1{S2{S3{X}; Y}; Z} with every assignment of {move_on_after(0.53), move_on_after(1.57), scope(inf)} to the three scopes, "
    "X = every sequence of 1..2 (thorough 1..3) statements over {shield{sleep(2)}, shield{sleep(1)}, yield_, sleep(1), cancel(0), cancel(1), cancel(2)}, Y in {-, sleep(1), yield_}, Z in {-, sleep(1)}; "
    "run without external cancel (thorough: plus the timed midpoints). "
    "distinct_nontrivial = distinct (program shape = nesting of the scope/shield/group statements + set of leaf statements used, injection kind, "
    "where the cancel landed, task outcome, (cancel_called, cancelled_caught) of every scope in exit order) among runs in which an external cancel was actually delivered, "
    "plus distinct (shape, outcome, scope flags, number of swallowed cancellations) of the catch-runs in which a catch{} really swallowed a CancelledError"
)
ASSUMPTIONS = [
    "shield semantics checked: nothing raises inside ignore_cancellation, *including* for a scope entered inside it whose deadline passes or which is cancelled there "
    "(the asyncio backend postpones every task.cancel() while the shielded awaitable runs; the statement only constrains 'unshielded blocking operations', so the "
    "trio reading 'a shield only protects from enclosing scopes' is not enforced); counted in counters.programs_scope_inside_shield",
    "task group = asyncio.TaskGroup contract: a scope applies to its host task; children are cancelled when the cancellation reaches the parent inside the group "
    "(so a child keeps running while the parent sits in a shielded section)",
    "no timeout() lexically inside a task group: a TimeoutError leaving a child goes through asyncio.TaskGroup's error path (ExceptionGroup, parent.cancel()/uncancel()), which is stdlib behaviour",
    "delays are pairwise incommensurable (sleeps 1.00/2.00, scope delays 0.53/1.57/2.59); ties (two timers within 10 ms) are unspecified in asyncio and excluded",
    "program size: the full grammar has ~2*10^8 programs with <= 5 nodes; the tiers enumerate every program of the stated alphabets and sizes (tier_bounds), not the <= 5 / <= 6 nodes of DESIGN.md",
    "iteration-indexed injections are judged by clauses (i)-(iv) + bookkeeping, not by trace equality (sub-instant placement is loop bookkeeping the statement does not fix)",
    "catch{P} models cleanup code that intercepts a CancelledError raised by a cancelled scope and keeps awaiting; it never meets an external task.cancel() "
    "or a TaskGroup abort (no injections, no group in that family): swallowing a foreign cancellation has no specified outcome",
    "only the asyncio backend is exercised (trio is not installed)",
]
_A = {
    "base": "sleeps {1,2}, yield_, shielded_yield, move_on_after {0,0.53,1.57}, timeout {0.53}, scope {inf}, cancel k in {0,1}, reschedule(k, now+{0.53,inf})",
    "rich": "sleeps {0,1,2}, yield_, shielded_yield, move_on_after {0,0.53,1.57,2.59}, timeout {0,0.53,1.57}, scope {inf, absolute 1.57}, cancel k in {0,1}, reschedule(k, now+{0,0.53,inf})",
    "slim5": "sleeps {1,2}, yield_, move_on_after {0.53}, scope {inf}, cancel k in {0,1}",
    "shield5": "sleep {1}, shielded_yield, move_on_after {0}, scope {inf}, cancel k in {0,1}",
    "slim6": "sleep {1}, yield_, move_on_after {0.53}, scope {inf}, cancel(0)",
    "catch": "sleep {1}, yield_, move_on_after {0,0.53}, scope {inf}, cancel k in {0,1}, shield, catch, no group",
}
BOUNDS = {
    "quick": f"nesting <= 3; ALL programs with <= 4 nodes over [{_A['base']}] + ALL with <= 3 nodes over [{_A['rich']}] + ALL with exactly 5 nodes over [{_A['slim5']}] and over [{_A['shield5']}] + ALL with <= 4 nodes that contain a catch over [{_A['catch']}] (no external cancel for these) + the 9072 programs of the nest3 template (no external cancel)",
    "thorough": f"nesting <= 3; ALL programs with <= 5 nodes over [{_A['base']}] + ALL with <= 4 nodes over [{_A['rich']}] + ALL with exactly 6 nodes over [{_A['slim6']}] + ALL with <= 5 nodes that contain a catch over [{_A['catch']}] (no external cancel for these) + the 64638 programs of the nest3 template (none + timed midpoints)",
}


def nest3_programs(tier: str):
    """Template family (nesting 4, 6-9 nodes - beyond what the general enumeration reaches): THREE nested scopes S1{S2{S3{X}; Y}; Z}
    with every assignment of {move_on_after(0.53), move_on_after(1.57), scope(inf)} to S1..S3, X = every sequence of 1..2 (thorough 3)
    statements over {shield{sleep(2)}, shield{sleep(1)}, yield_, sleep(1), cancel(0), cancel(1), cancel(2)}, Y in {nothing, sleep(1), yield_},
    Z in {nothing, sleep(1)}: a cancelled scope separated from a cancelled inner scope by one that is not cancelled, deliveries postponed
    by a shield."""
    heads = (("moa", 0.53), ("moa", 1.57), ("scope", INF))
    items = (("shield", (("sleep", 2.0),)), ("shield", (("sleep", 1.0),)), ("yield",), ("sleep", 1.0), ("cancel", 0), ("cancel", 1), ("cancel", 2))
    import itertools

    xs: list[tuple] = []
    for n in range(1, (2 if tier == "quick" else 3) + 1):
        xs.extend(itertools.product(items, repeat=n))
    ys = ((), (("sleep", 1.0),), (("yield",),))
    zs = ((), (("sleep", 1.0),))
    for h1 in heads:
        for h2 in heads:
            for h3 in heads:
                for x in xs:
                    for y in ys:
                        for z in zs:
                            yield ((h1[0], h1[1], ((h2[0], h2[1], ((h3[0], h3[1], tuple(x)),) + y),) + z),)


def tier_programs(tier: str):
    """Deterministic enumeration of every program of the tier (template family first, then the general families in order; the few
    template programs that are also general programs of <= 4 nodes are simply run twice)."""
    for prog in nest3_programs(tier):
        yield ("nest3", prog)
    for _name, kw, lo, hi, seen_kw, must in TIERS[tier]:
        alpha = Alphabet(**kw)
        seen = Alphabet(**seen_kw) if seen_kw else None
        for prog in alpha.programs(hi):
            if lo > 1 and size(prog) < lo:
                continue
            if must is not None and not has_op(prog, (must,)):
                continue
            if seen is not None and seen.contains(prog):
                continue
            yield ("general", prog)


def jobs(tier: str) -> list[dict]:
    parts = NPARTS[tier]
    return [{"tier": tier, "part": i, "parts": parts} for i in range(parts)]


# --------------------------------------------------------------------------------------------------------------------
# judging one execution


class _Sink:
    """Per-job collection of violations: at most 2 (smallest programs) per key, all counted."""

    def __init__(self, res: JobResult) -> None:
        self.res = res
        self.best: dict[str, list[tuple[int, Violation]]] = {}

    def add(self, key: str, prog: tuple, inject: tuple | None, mode: str, text: str) -> None:
        self.res.count("violating_runs:" + key)
        n = size(prog) * 1000 + (0 if inject is None else 1 + int(inject[1] * 10) % 900)
        lst = self.best.setdefault(key, [])
        if len(lst) >= 2 and n >= lst[-1][0]:
            return
        v = Violation(key, f"{fmt(prog)}  with external cancel {fmt_inject(inject)}: {text}",
                      {"prog": to_json(prog), "inject": list(inject) if inject else None, "mode": mode})
        lst.append((n, v))
        lst.sort(key=lambda t: t[0])
        del lst[2:]

    def flush(self) -> None:
        for key in sorted(self.best):
            self.res.violations.extend(v for _n, v in self.best[key])


def fmt_inject(inject: tuple | None) -> str:
    if inject is None:
        return "none"
    if inject[0] == "t":
        return f"at t={inject[1]:.4f}"
    return f"at loop iteration {inject[1]}"


def situation(inj: dict | None, real: "Real | None" = None) -> str:
    """Where the external cancel landed (read from the harness at the moment of task.cancel())."""
    if inj is not None and real is not None and inj.get("started") and not inj.get("shielded") and inj.get("scopes_cancel_called"):
        # scopes of the whole run that ended with cancel_called(): two or more = the nested situation
        ncancelled = sum(1 for t in real.tasks for e in t.events if e[0] == "exit" and e[2])
        if ncancelled >= 2:
            return "in-flight-scope-cancel/nested-cancelled-scopes"
    if inj is None:
        return "not-delivered"
    if not inj["started"]:
        return "task-not-started"
    if inj["shielded"]:
        return "inside-shield"
    if inj["scopes_cancel_called"]:
        # (several cancelled scopes at once is a different situation from a single one: known_findings.json keys them apart)
        n = inj["scopes_cancel_called"]
        many = (len(n) if hasattr(n, "__len__") else int(n)) >= 2
        return "in-flight-scope-cancel/nested-cancelled-scopes" if many else "in-flight-scope-cancel"
    return "no-scope-cancel-pending"


def judge(prog: tuple, inject: tuple | None, refs: RefSet | None, real: Real, mode: str) -> tuple[list[tuple[str, str]], str]:
    """Returns ([(violation key, text)], outcome class). mode: 'trace' (compare with the reference) | 'clause'."""
    found: list[tuple[str, str]] = []
    kind = "none" if inject is None else ("timed" if inject[0] == "t" else "iter")
    if real.status != "ok":
        return [("INTERNAL", f"run ended with status {real.status}: {real.value!r}")], "internal"
    for key, text in real.problems:
        found.append(("invariant/" + key, text))
    root = real.root
    outcome = root.outcome if root is not None else "never-started"
    inj = real.inj
    if refs is not None and mode == "trace":
        ds = refs.match(real.traces())
        if ds is not None:
            recs = {t.label: t for t in real.tasks}
            # the task to blame: one that was to end cancelled and did not (a child cancelled by its group first), else the first
            lost = [d for d in ds if d[3] == "cancelled" and d[4] != "cancelled"]
            lost.sort(key=lambda d: 0 if (d[2] != "R" and recs.get(d[2]) is not None and recs[d[2]].abort_info) else 1)
            sym, text, label, end_r, end_o = (lost or ds)[0]
            if lost:
                sym = "cancel-lost"
            T = recs.get(label)
            if sym == "cancel-lost" and T is not None and not any(e[0] == "exit" and e[2] for e in T.events):
                sym += "/no-scope-cancelled"  # no cancelled scope took part: pure shield / task bookkeeping
            if label != "R" and T is not None and T.abort_info is not None:
                found.append((f"group-abort-cancel/{situation(T.abort_info)}/{sym}", text))  # the group's cancel of this child
            elif kind == "timed":
                sit = situation(inj, real)
                if sit == "inside-shield" and any(e[0] == "exit" and e[2] for t in real.tasks for e in t.events):
                    # one situation, many first-differing events (the trace goes wrong wherever the forgotten cancellation would have
                    # landed): keyed by the situation - an external cancel absorbed inside a shielded section of a run in which a
                    # scope is cancelled - with the symptom in the text.  Without any cancelled scope the symptom stays in the key.
                    found.append(("external-cancel/inside-shield/timed/with-cancelled-scope", f"[{sym}] {text}"))
                else:
                    found.append((f"external-cancel/{sit}/timed/{sym}", text))
            else:
                fam = "shield" if has_op(prog, ("shield", "syield")) else "plain"
                if has_op(prog, ("group",)):
                    fam += "+group"
                if has_op(prog, ("catch",)):
                    fam = "catch" + ("+" + fam if fam != "plain" else "")
                found.append((f"trace/{fam}/{sym}", text))
    if kind != "none":
        # clause form (valid for every injection; the only oracle for iteration-indexed ones and for same-instant races)
        if inj is None:
            return found, f"{kind}:late(no-op)"
        if root is not None:
            k = inj["select"]
            after = [e for e in root.events if e[-2] >= k]
            need = bool(inj["in_ckpt"] and inj["in_ckpt"][1]) or any(e[0] in ("start", "join") and e[2] for e in after)
            completed = [e for e in after if e[0] == "done" and e[2]]
            bad = []
            if need and outcome != "cancelled":
                bad.append(f"(i) task ended {outcome!r} although an unshielded checkpoint followed the external cancel")
            if completed:
                bad.append(f"(ii) unshielded checkpoint(s) completed after the external cancel: {[e[1] for e in completed]}")
            if bad:
                tail = "" if any(e[0] == "exit" and e[2] for e in root.events) else "/no-scope-cancelled"
                found.append(("external-cancel/" + situation(inj, real) + tail, "; ".join(bad) + f"; at injection: cancelling()={inj['cancelling_before']}, cancelled scopes {inj['scopes_cancel_called']}, "
                              f"task.cancelling() at end={root.task.cancelling()}"))
            if not need and outcome != "cancelled":
                return found, f"{kind}:{outcome}(no checkpoint left)"
    return found, f"{kind}:{outcome}"


def shape_digest(prog: tuple, kind: str, real: Real) -> str:
    flags = tuple((e[2], e[3]) for T in real.tasks for e in T.events if e[0] == "exit")
    return digest((shape(prog), kind, situation(real.inj), real.root.outcome if real.root else None, flags))


def check_program(prog: tuple, res: JobResult, sink: _Sink, family: str = "general", tier: str = "quick") -> None:
    res.count("programs")
    refs0 = RefSet(prog)
    if refs0.tie:
        res.count("skipped_ties")
        res.count("programs_skipped_entirely")
        res.outcome("skipped:timer-tie")
        return
    if has_op(prog, ("shield",)) and _scope_inside_shield(prog):
        res.count("programs_scope_inside_shield")
    has_catch = has_op(prog, ("catch",))

    def one(inject: tuple | None, refs: RefSet | None, mode: str) -> Real:
        real = Real(prog, inject).run()
        res.evaluations += 1
        if refs is not None:
            if refs.race:
                refs = None
                res.count("race_clause_only")
            else:
                res.count("disagreements_checked")
                if len(refs.variants) > 1:
                    res.count("latitude_catch_or_propagate")
        found, oc = judge(prog, inject, refs, real, mode)
        if has_catch:
            oc = "catch:" + oc.split(":", 1)[1] + (f"/swallowed={min(real.swallowed, 3)}" if real.swallowed else "/nothing-to-swallow")
            if real.swallowed:
                res.count("catch_runs_with_swallowed_cancellation")
                flags = tuple((e[2], e[3]) for T in real.tasks for e in T.events if e[0] == "exit")
                res.nontrivial.add(digest(("catch", shape(prog), real.root.outcome if real.root else None, flags, real.swallowed)))
                if not any("catch{" in x.get("program", "") for x in res.samples if isinstance(x, dict)) and len(res.samples) < 4:
                    res.samples.append({"program": fmt(prog), "external_cancel": "none (catch-programs run without injections)", "outcome": oc,
                                        "observed_root_trace": [list(e[:-2]) + [round(e[-1], 4)] for e in real.root.events if e[0] != "start"]})
        res.outcome(oc)
        for key, text in found:
            if key == "INTERNAL":
                res.internal.append(f"{fmt(prog)} inject={inject}: {text}")
            else:
                sink.add(key, prog, inject, mode, text)
        if inject is not None:
            res.count("injections")
            if real.inj is not None:
                res.nontrivial.add(shape_digest(prog, inject[0], real))
                if len(res.samples) < 3 and real.root is not None and (len(res.samples) == 0 or inject[0] == "i"):
                    res.samples.append({"program": fmt(prog), "external_cancel": fmt_inject(inject), "outcome": oc,
                                        "observed_root_trace": [list(e[:-2]) + [round(e[-1], 4)] for e in real.root.events if e[0] != "start"]})
        return real

    real0 = one(None, refs0, "trace")
    if family == "nest3":
        res.count("nest3_programs")
        if tier == "quick":
            return  # quick tier: this family runs without external cancel (thorough: plus the timed midpoints)
    if has_catch:
        # no external cancel for these: what a program that swallows a foreign task.cancel() must do afterwards is not specified
        res.count("catch_programs")
        return
    inst = refs0.main.instants()
    for a, b in zip(inst, inst[1:]):
        x = round((a + b) / 2, 6)
        refsx = RefSet(prog, x)
        if refsx.tie:
            res.count("skipped_ties")
            res.outcome("skipped:timer-tie")
            continue
        one(("t", x), refsx, "trace")
    if real0.status == "ok" and family != "nest3":
        # select #1 runs the harness' main(), #2 is the boundary before the program's first step: a task cancelled there never
        # executes a line of the program or of the library (pure asyncio) - exercised for the smallest programs only
        for k in range(2 if size(prog) <= 2 else 3, real0.sel_end + 1):
            one(("i", k), None, "clause")


def _scope_inside_shield(prog: tuple, inside: bool = False) -> bool:
    for s in prog:
        if s[0] in ("moa", "timeout", "scope"):
            if inside or _scope_inside_shield(s[2], inside):
                return True
        elif s[0] == "shield":
            if _scope_inside_shield(s[1], True):
                return True
        elif s[0] == "catch":
            if _scope_inside_shield(s[1], inside):
                return True
        elif s[0] == "group":
            if _scope_inside_shield(s[1], False) or _scope_inside_shield(s[2], inside):
                return True
    return False


def run_job(job: dict) -> JobResult:
    res = JobResult()
    sink = _Sink(res)
    part, parts = job["part"], job["parts"]
    for i, (family, prog) in enumerate(tier_programs(job["tier"])):
        if i % parts == part:
            check_program(prog, res, sink, family, job["tier"])
    sink.flush()
    res.transitions = res.counters.get("injections", 0)
    return res


# --------------------------------------------------------------------------------------------------------------------


def replay(doc: dict) -> tuple[bool, str]:
    rp = doc["replay"]
    prog = from_json(rp["prog"])
    inject = tuple(rp["inject"]) if rp.get("inject") else None
    mode = rp.get("mode", "trace")
    lines = [f"program : {fmt(prog)}", f"external cancel: {fmt_inject(inject)}   (oracle: {'full trace' if mode == 'trace' else 'clauses (i)-(iv) + bookkeeping'})"]
    refs = None
    if inject is None or inject[0] == "t":
        refs = RefSet(prog, inject[1] if inject else None)
        lines.append(f"reference trace (timer tie: {refs.tie}, same-instant race between tasks: {refs.race}, allowed variants: {len(refs.variants)}):")
        lines.append(fmt_traces(refs.main.traces(), False))
        for i, r in enumerate(refs.variants[1:], 1):
            lines.append(f"allowed variant {i} (an inner cancelled scope catches although an enclosing scope is cancelled too):")
            lines.append(fmt_traces(r.traces(), False))
    else:
        lines.append("reference trace of the cancel-free run (for orientation; iteration-indexed injections are judged by clauses):")
        lines.append(fmt_traces(RefSet(prog).main.traces(), False))
    real = Real(prog, inject).run()
    lines.append(f"observed trace (status {real.status}):")
    lines.append(fmt_traces(real.traces(), True))
    if real.inj is not None:
        lines.append(f"injection: {real.inj}")
    if real.root is not None and real.prog_task is not None:
        lines.append(f"task outcome: {real.root.outcome}; task.cancelling() at end: {real.root.task.cancelling()}; end checks: {real.end_checks}")
    found, oc = judge(prog, inject, refs if (refs is not None and not refs.race and not refs.tie) else None, real, mode)
    lines.append(f"outcome class: {oc}")
    for key, text in found:
        lines.append(f"VIOLATED {key}: {text}")
    want = doc.get("key")
    still = any(k == want for k, _ in found) if want else bool(found)
    return still, "\n".join(lines)
