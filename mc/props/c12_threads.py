"""C12 (threads part) and C11 (lock contention part): the thread-safe blocking clients under the baton scheduler (E4).

C12: 2 threads call TCPNetworkClient.send_packet (three chunks per packet) on a FakeSocket with a tiny pipe - a send that
     finds the pipe full waits in select() (a scheduling point) while the other thread and the draining peer run; also
     UDPNetworkClient.send_packet from 2 threads.  All schedules with <= 2 preemptions (thorough 3).
C11: two threads call recv_packet(timeout) on the same TCPNetworkClient: the time spent waiting for the receive lock is part
     of the budget.
"""
from __future__ import annotations

import collections
import math
import types
from typing import Any

from easynetwork.clients.tcp import TCPNetworkClient
from easynetwork.clients.udp import UDPNetworkClient
from easynetwork.lowlevel.api_sync.transports import base_selector as _base_selector
from easynetwork.protocol import DatagramProtocol, StreamProtocol
from easynetwork.serializers import StringLineSerializer

from .. import vthreads
from ..core import Ctx, JobResult, Violation, digest, explore
from ..world import VSelector, World
from .c12 import SCENARIOS, TriSerializer, decode_wire


class BlockSel(VSelector):
    """selector of a blocking transport used from a controlled thread: waiting = a scheduling point."""

    sched: Any = None

    def select(self, timeout: float | None = None):  # type: ignore[override]
        w = self.world
        w.selects += 1
        if timeout is not None and timeout <= 0:
            self.sched.point("select0")
            return w._ready(self)
        self.sched.point("blocking-select", lambda: bool(w._ready(self)), None if timeout is None else self.sched.clock() + timeout)
        return w._ready(self)


def _shim(world: World, sched: Any) -> types.ModuleType:
    import selectors as _sel

    m = types.ModuleType("selectors_shim")
    m.__dict__.update({k: v for k, v in vars(_sel).items() if not k.startswith("__")})

    def factory() -> BlockSel:
        s = BlockSel(world)
        s.sched = sched
        return s

    m.PollSelector = factory  # type: ignore[attr-defined]
    m.SelectSelector = factory  # type: ignore[attr-defined]
    return m


def run_send(ctx: Ctx, cfg: dict) -> dict:
    plan = SCENARIOS[cfg["scenario"]]
    total = sum(len(p) + 3 for s in plan for p in s)
    world = World(ctx, horizon=4000)
    sched = vthreads.Scheduler(ctx, world=world, horizon=3000)
    saved = _base_selector.selectors
    results: list[list[str]] = [[] for _ in plan]
    out: dict[str, Any] = {}
    try:
        with vthreads.installed(sched):
            _base_selector.selectors = _shim(world, sched)  # type: ignore[assignment]
            if cfg["subject"] == "tcp":
                sock = world.stream_socket(tx_cap=cfg["cap"])
                client: Any = TCPNetworkClient(sock, StreamProtocol(TriSerializer()), retry_interval=math.inf)
            else:
                sock = world.dgram_socket()
                client = UDPNetworkClient(sock, DatagramProtocol(StringLineSerializer()), retry_interval=math.inf)
            drained = {"n": 0}

            def sender(i: int):
                def body() -> None:
                    for p in plan[i]:
                        try:
                            client.send_packet(p)
                            results[i].append("ok")
                        except OSError as exc:
                            results[i].append("oserror:" + type(exc).__name__)
                return body

            def peer() -> None:
                while drained["n"] < total:
                    sched.point("peer-drain", lambda: bool(sock.tx.q) or all(len(results[i]) == len(plan[i]) for i in range(len(plan))))
                    if not sock.tx.q:
                        return
                    k = min(cfg["drain"], len(sock.tx.q))
                    drained["n"] += k
                    del sock.tx.q[:k]

            for i in range(len(plan)):
                sched.spawn(sender(i), f"sender{i}")
            if cfg["subject"] == "tcp":
                sched.spawn(peer, "peer")
            try:
                out["status"] = sched.run()
            finally:
                sched.abort()
            out["wire"] = bytes(sock.tx.total) if cfg["subject"] == "tcp" else None
            out["dgrams"] = [p for p, _a in sock.txd] if cfg["subject"] == "udp" else None
            out["preemptions"] = sched.preemptions
            out["steps"] = sched.steps
    finally:
        _base_selector.selectors = saved  # type: ignore[assignment]
        world.close_all()
    out["results"] = results
    return out


def oracle_send(cfg: dict, obs: dict) -> str | None:
    plan = SCENARIOS[cfg["scenario"]]
    if obs["status"] != "ok":
        return "hang-" + obs["status"]
    for i, s in enumerate(plan):
        if obs["results"][i] != ["ok"] * len(s):
            return "send-failed"
    if cfg["subject"] == "tcp":
        frames = decode_wire(obs["wire"])
        if frames is None:
            return "packets-interleaved-or-corrupted-on-the-wire"
        if collections.Counter(frames) != collections.Counter(p for s in plan for p in s):
            return "wire-is-not-the-multiset-of-sent-packets"
    else:
        frames = [d.decode() for d in obs["dgrams"]]
        if collections.Counter(frames) != collections.Counter(p for s in plan for p in s):
            return "datagrams-are-not-the-multiset-of-sent-packets"
    for s in plan:
        pos = [frames.index(p) for p in s]
        if pos != sorted(pos):
            return "per-sender-order-not-preserved"
    return None


# ---------------------------------------------------------------------------------------------------------
# C11: lock contention


def run_recv(ctx: Ctx, cfg: dict) -> dict:
    world = World(ctx, horizon=4000)
    sched = vthreads.Scheduler(ctx, world=world, horizon=3000)
    saved = _base_selector.selectors
    out: dict[str, Any] = {"calls": []}
    try:
        with vthreads.installed(sched):
            _base_selector.selectors = _shim(world, sched)  # type: ignore[assignment]
            sock = world.stream_socket()
            client = TCPNetworkClient(sock, StreamProtocol(StringLineSerializer()), retry_interval=math.inf)
            arrivals = cfg["arrivals"]  # [(time, bytes)]

            def receiver(i: int, T: float | None):
                def body() -> None:
                    t0 = sched.clock()
                    try:
                        p = client.recv_packet(timeout=T)
                        out["calls"].append((i, T, "P", p, round(t0, 6), round(sched.clock(), 6)))
                    except TimeoutError:
                        out["calls"].append((i, T, "timeout", None, round(t0, 6), round(sched.clock(), 6)))
                    except OSError as exc:
                        out["calls"].append((i, T, "oserror:" + type(exc).__name__, None, round(t0, 6), round(sched.clock(), 6)))
                return body

            def feeder() -> None:
                for when, data in arrivals:
                    sched.point("feeder-wait", lambda when=when: sched.clock() >= when, when)
                    sock.rx.put(data.encode())

            for i, T in enumerate(cfg["timeouts"]):
                sched.spawn(receiver(i, T), f"recv{i}")
            if arrivals:
                sched.spawn(feeder, "feeder")
            try:
                out["status"] = sched.run()
            finally:
                sched.abort()
            out["preemptions"] = sched.preemptions
    finally:
        _base_selector.selectors = saved  # type: ignore[assignment]
        world.close_all()
    return out


def oracle_recv(cfg: dict, obs: dict) -> str | None:
    if obs["status"] != "ok":
        return "hang-" + obs["status"]
    if len(obs["calls"]) != len(cfg["timeouts"]):
        return "call-did-not-finish"
    npackets = sum(d.count("\n") for _w, d in cfg["arrivals"])
    got = [c for c in obs["calls"] if c[2] == "P"]
    if len(got) > npackets:
        return "more-packets-than-sent"
    for i, T, kind, p, t0, t1 in obs["calls"]:
        el = t1 - t0
        if T is not None and el > T + 1e-6:
            return "budget-exceeded-with-lock-wait"
        if kind == "timeout":
            if T is None:
                return "timeout-without-timeout"
            if el < T - 1e-6:
                return "timeout-raised-early"
        elif kind != "P":
            return "unexpected-" + kind
    # nobody may time out while a packet was available and the lock was free for the rest of its budget:
    # with a single packet arriving at time a, at least one call whose window [t0, t0+T) contains a must get it
    if npackets and not got:
        a = cfg["arrivals"][0][0]
        if any((T is None or c[4] + T > a + 1e-6) for c in obs["calls"] for T in [c[1]]):
            return "packet-available-in-time-not-returned"
    return None


# ---------------------------------------------------------------------------------------------------------
# send lock held by a sender that is blocked mid-packet: lock wait is part of the budget (C11), a timed-out waiter must
# not disturb the holder (C12)


def run_sendlock(ctx: Ctx, cfg: dict) -> dict:
    world = World(ctx, horizon=4000)
    sched = vthreads.Scheduler(ctx, world=world, horizon=3000)
    saved = _base_selector.selectors
    out: dict[str, Any] = {"calls": {}}
    try:
        with vthreads.installed(sched):
            _base_selector.selectors = _shim(world, sched)  # type: ignore[assignment]
            sock = world.stream_socket(tx_cap=3)
            client = TCPNetworkClient(sock, StreamProtocol(TriSerializer()), retry_interval=math.inf)
            done: dict[str, bool] = {}

            def sender(name: str, packet: str, T: float | None, after: str | None = None):
                def body() -> None:
                    if after is not None:
                        sched.point("wait-" + after, lambda: done.get(after, False))
                    t0 = sched.clock()
                    w0 = len(sock.tx.total)
                    try:
                        client.send_packet(packet, timeout=T)
                        r = "ok"
                    except TimeoutError:
                        r = "timeout"
                    except BaseException as exc:  # noqa: BLE001
                        if type(exc).__name__ in ("_Abort", "HorizonHit", "Pruned", "DivergenceError"):
                            raise
                        r = "raised:" + type(exc).__name__
                    out["calls"][name] = (r, T, round(t0, 6), round(sched.clock(), 6), len(sock.tx.total) - w0)
                    done[name] = True
                return body

            names = ["A", "B"] + (["C"] if cfg.get("with_C") else [])

            def peer() -> None:
                # drains everything at the listed instants, then (so that nobody waits forever) every second from
                # two seconds after the last listed instant
                times = list(cfg["drains"])
                nxt = max(times) + 2.0
                while not all(done.get(n) for n in names):
                    when = times.pop(0) if times else nxt
                    if not times and when == nxt:
                        nxt += 1.0
                    sched.point("peer-wait", lambda when=when: sched.clock() >= when or all(done.get(n) for n in names), when)
                    del sock.tx.q[:]

            sched.spawn(sender("A", "AAA", None), "A")
            sched.spawn(sender("B", "BB", cfg["T_B"], after=None), "B")
            if cfg.get("with_C"):
                sched.spawn(sender("C", "CCCC", None, after="B"), "C")
            sched.spawn(peer, "peer")
            try:
                out["status"] = sched.run()
            finally:
                sched.abort()
            out["wire"] = bytes(sock.tx.total)
            out["preemptions"] = sched.preemptions
    finally:
        _base_selector.selectors = saved  # type: ignore[assignment]
        world.close_all()
    return out


def oracle_sendlock(cfg: dict, obs: dict) -> str | None:
    if obs["status"] != "ok":
        return "hang-" + obs["status"]
    calls = obs["calls"]
    for name in ["A", "B"] + (["C"] if cfg.get("with_C") else []):
        if name not in calls:
            return "call-did-not-finish"
        r, T, t0, t1, _w = calls[name]
        if r.startswith("raised:"):
            return "send-raised-unexpected-" + r[7:]
        if T is None and r != "ok":
            return "send-failed"
        if T is not None:
            if t1 - t0 > T + 1e-6:
                return "budget-exceeded-with-lock-wait"
            if r == "timeout" and t1 - t0 < T - 1e-6:
                return "timeout-raised-early"
    sent = [p for n, p in (("A", "AAA"), ("B", "BB"), ("C", "CCCC")) if n in calls and calls[n][0] == "ok"]
    frames = decode_wire(obs["wire"])
    if frames is None:
        b = calls["B"]
        if b[0] == "timeout" and b"<B" in obs["wire"] and b"<BB>" not in obs["wire"]:
            return None  # B timed out in the middle of its OWN write: the stream is documented as unusable then
        return "packets-interleaved-or-corrupted-on-the-wire"
    if collections.Counter(frames) != collections.Counter(sent):
        return "wire-is-not-the-multiset-of-successful-sends"
    return None


SENDLOCK_CONFIGS = [
    {"T_B": 2.0, "drains": [1.0]},                      # B gets the lock at 1.0 with 1.0 left, then blocks: TimeoutError at 2.0
    {"T_B": 2.0, "drains": [1.0, 1.5]},                 # B completes at 1.5
    {"T_B": 2.0, "drains": [1.0, 1.5], "with_C": True},   # B waited for the lock, got it in time and completed: the lock must be free again for C
    {"T_B": 5.0, "drains": [1.0, 2.0, 3.0], "with_C": True},
    {"T_B": 0.5, "drains": [1.0, 2.0, 3.0, 4.0], "with_C": True},   # B times out on the lock; C sends afterwards
    {"T_B": 0.5, "drains": [1.0, 2.0, 3.0, 4.0]},
    {"T_B": 0, "drains": [1.0, 2.0, 3.0], "with_C": True},
]

RECV_CONFIGS = [
    {"timeouts": [2.0, 0.5], "arrivals": []},
    {"timeouts": [2.0, 3.0], "arrivals": []},
    {"timeouts": [0.5, 2.0], "arrivals": [(1.0, "ab\n")]},
    {"timeouts": [2.0, 3.0], "arrivals": [(1.0, "ab\n")]},
    {"timeouts": [2.0, 3.0], "arrivals": [(1.0, "ab\n"), (2.5, "cd\n")]},
    {"timeouts": [0, 2.0], "arrivals": [(1.0, "ab\n")]},
    {"timeouts": [None, 2.0], "arrivals": [(1.0, "ab\n"), (1.5, "cd\n")]},
]


def jobs(tier: str) -> list[dict]:
    out = []
    for scen in ("2x1", "2x2"):
        for cap in (1, 3, 8):
            for drain in (1, 3, 64):
                if tier == "quick" and (scen == "2x2" or drain == 3):
                    continue
                out.append({"part": "threads", "kind": "send", "subject": "tcp", "scenario": scen, "cap": cap, "drain": drain, "tier": tier})
    out.append({"part": "threads", "kind": "send", "subject": "udp", "scenario": "2x2", "cap": 0, "drain": 0, "tier": tier})
    out += [{"part": "threads", "kind": "sendlock", "cfg": c, "tier": tier} for c in SENDLOCK_CONFIGS]
    return out


def jobs_c11(tier: str) -> list[dict]:
    return [{"part": "threads", "kind": "recv", "cfg": c, "tier": tier} for c in RECV_CONFIGS] + \
        [{"part": "threads", "kind": "sendlock", "cfg": c, "tier": tier} for c in SENDLOCK_CONFIGS]


def run_job(job: dict) -> JobResult:
    res = JobResult()
    bound = 2 if job["tier"] == "quick" else 3
    if vthreads.tainted():
        res.internal.append("vthreads tainted: " + str(vthreads.tainted()))
        return res
    if job["kind"] == "send":
        cfg = {k: job[k] for k in ("subject", "scenario", "cap", "drain")}
        runner, orc, name = run_send, oracle_send, "threads/" + job["subject"]
    elif job["kind"] == "sendlock":
        cfg = job["cfg"]
        runner, orc, name = run_sendlock, oracle_sendlock, "threads/send-lock"
    else:
        cfg = job["cfg"]
        runner, orc, name = run_recv, oracle_recv, "threads/lock-contention"
    found: dict[str, tuple[Ctx, dict]] = {}

    def check(ctx: Ctx, obs: dict) -> None:
        res.evaluations += 1
        bad = orc(cfg, obs)
        res.outcome(name + "-ok" if bad is None else "VIOLATION:" + bad)
        if job["kind"] == "send":
            sig: Any = (obs.get("wire"), tuple(map(tuple, obs["results"])), obs.get("preemptions"))
        elif job["kind"] == "sendlock":
            sig = (obs.get("wire"), tuple(sorted((k, v[0], v[3]) for k, v in obs["calls"].items())))
        else:
            sig = tuple((c[0], c[2], c[3], c[5]) for c in obs["calls"])
        res.nontrivial.add(digest((name, repr(sorted(cfg.items(), key=str)), sig)))
        if bad is not None and (bad not in found or len(ctx.choices) < len(found[bad][0].choices)):
            found[bad] = (ctx, obs)

    stats = explore(lambda ctx: runner(ctx, cfg), bound=bound, check=check, max_runs=6000 if job["tier"] == "quick" else 40000)
    res.transitions += stats["points"]
    if stats["cap_hit"]:
        res.caps.append("threads max_runs")
    for bad, (ctx, obs) in found.items():
        res.violations.append(Violation(f"{name}/{bad}", f"{cfg}: {obs} choices={ctx.choices}", {"part": "threads", "kind": job["kind"], "cfg": cfg, "choices": list(ctx.choices)}))
    res.samples.append({"part": "threads", "kind": job["kind"], "config": cfg, "executions": stats["runs"], "preemption_bound": bound})
    return res


def replay(doc: dict) -> tuple[bool, str]:
    rp = doc["replay"]
    ctx = Ctx(rp["choices"])
    if rp["kind"] == "send":
        obs = run_send(ctx, rp["cfg"])
        bad = oracle_send(rp["cfg"], obs)
    elif rp["kind"] == "sendlock":
        obs = run_sendlock(ctx, rp["cfg"])
        bad = oracle_sendlock(rp["cfg"], obs)
    else:
        obs = run_recv(ctx, rp["cfg"])
        bad = oracle_recv(rp["cfg"], obs)
    return bad is not None, f"cfg={rp['cfg']}\nchoices={rp['choices']}\nobserved={obs}\noracle: {bad}"
