"""C20 - sending applies backpressure and never hangs on a dead connection.

(a) WriteFlowControl alone: explicit-state BFS to a fixpoint over the REAL object (rebuilt by replaying the event history on a
    fresh virtual loop): events {drain() by a new task, pause_writing, resume_writing, connection_lost(None | exc), cancel
    waiter i, transport.is_closing flips}; invariants checked in every reachable state.
(b) the real asyncio stream adapter on a FakeSocket with pipe capacity c: 1..3 concurrent send_all; the peer reads k bytes /
    resets / closes / stops, and one sender is cancelled, each placed at any loop-iteration boundary.
(c) the datagram endpoint and the datagram listener: the kernel answers EAGAIN to sendto() n times; send()/send_to() must
    not return before the datagram was handed to the socket; loss / close / cancellation while suspended.
"""
from __future__ import annotations

import asyncio
import collections
import errno
import itertools
from typing import Any

from easynetwork.lowlevel.api_async.backend._asyncio._flow_control import WriteFlowControl
from easynetwork.lowlevel.api_async.backend._asyncio.backend import AsyncIOBackend

from .. import vloop
from ..core import Ctx, JobResult, Violation, digest, explore
from ..envsched import Chain, Placer
from ..world import World

PROPERTY = "C20"
LEVEL = "model_checking"
RULE = (
    "(a) BFS to fixpoint over WriteFlowControl (<= 3 drain tasks), every reachable state checked; (b) stream adapter: sender size "
    "multisets over {1,4,12} with 1..3 senders x pipe capacity {1,3,10} x peer scripts {reads all | reads in steps of 1/3 | resets | "
    "closes | stops reading} x cancellation of each sender, all placed at loop-iteration boundaries (busy placements bounded: 3 quick / "
    "4 thorough); (c) datagram endpoint and listener with 0..2 EAGAIN answers, writable-again / error / close / cancel placements; "
    "(d) a connection dead on the write side only (EPIPE / ECONNRESET answered to send(), nothing readable) with one task sending 8 times in a tight loop: a connection error within 3 sends; "
    "states = distinct canonical WriteFlowControl states + distinct adapter observation states; distinct_nontrivial = distinct "
    "(scenario, outcome vector) observations among executions where at least one sender was suspended"
)
ASSUMPTIONS = [
    "a send 'has been handed to the operating system' when the fake socket's send()/sendto() accepted the bytes",
    "asyncio's transport buffer is FIFO: sender i's bytes are on the wire once the wire holds the cumulative size up to i",
]
BOUNDS = {"quick": "busy-placement bound 3; flow-control BFS with <= 3 drains; <= 3 stream senders; <= 2 datagram senders", "thorough": "busy-placement bound 4; flow-control BFS with <= 4 drains; <= 4 stream senders (3 more size sets); <= 3 datagram senders"}


# ---------------------------------------------------------------------------------------------------------
# (a) BFS over the real WriteFlowControl


class _FakeTransport:
    def __init__(self) -> None:
        self.closing = False

    def is_closing(self) -> bool:
        return self.closing


EVENTS = ["D", "P", "R", "L0", "L1", "C", "X0", "X1", "X2"]
MAX_DRAINS = 3


def wfc_build(history: tuple[str, ...]) -> dict:
    """Replays an event history on a fresh loop and returns the canonical state + per-task results."""
    world = World(Ctx(), horizon=400)
    out: dict[str, Any] = {}

    async def main(loop: Any) -> None:
        tr = _FakeTransport()
        flow = WriteFlowControl(tr, loop, connection_lost_errno=errno.ECONNRESET)  # type: ignore[arg-type]
        tasks: list[asyncio.Task] = []
        meta: list[dict] = []
        lost = None

        async def settle() -> None:
            for _ in range(6):
                await asyncio.sleep(0)

        for ev in history:
            if ev == "D":
                tasks.append(loop.create_task(flow.drain()))
                meta.append({"paused_at_call": flow.writing_paused(), "lost_at_call": lost is not None, "closing_at_call": tr.closing})
            elif ev == "P":
                flow.pause_writing()
            elif ev == "R":
                flow.resume_writing()
            elif ev == "L0":
                flow.connection_lost(None)
                lost = lost or "L0"
            elif ev == "L1":
                flow.connection_lost(BrokenPipeError(errno.EPIPE, "boom"))
                lost = lost or "L1"
            elif ev == "C":
                tr.closing = True
            elif ev.startswith("X"):
                tasks[int(ev[1])].cancel()
            await settle()
        states = []
        for t in tasks:
            if not t.done():
                states.append("pending")
            elif t.cancelled():
                states.append("cancelled")
            elif t.exception() is not None:
                states.append("exc:" + type(t.exception()).__name__)
            else:
                states.append("ok")
        waiters = len(flow._WriteFlowControl__drain_waiters)
        out["canon"] = (flow.writing_paused(), lost, tr.closing, tuple(states), waiters)
        out["states"] = states
        out["meta"] = meta
        out["paused"] = flow.writing_paused()
        out["lost"] = lost
        out["waiters"] = waiters
        for t in tasks:
            t.cancel()

    status, value, _loop = vloop.run(world, main)
    out["status"] = status
    out["value"] = repr(value)
    return out


def wfc_enabled(history: tuple[str, ...], st: dict, max_drains: int = MAX_DRAINS) -> list[str]:
    n = history.count("D")
    evs = []
    if n < max_drains:
        evs.append("D")
    evs += ["P", "R"]
    if st["lost"] is None:
        evs += ["L0", "L1"]
    if "C" not in history:
        evs.append("C")
    for i in range(n):
        if st["states"][i] == "pending":
            evs.append(f"X{i}")
    return evs


def wfc_invariant(history: tuple[str, ...], st: dict) -> str | None:
    if st["status"] != "ok":
        return f"harness-run-{st['status']}"
    states = st["states"]
    pending = [i for i, s in enumerate(states) if s == "pending"]
    if st["lost"] is not None and pending:
        return "waiter-pending-after-connection-lost"
    if not st["paused"] and pending:
        return "waiter-pending-while-not-paused"
    if st["waiters"] != len(pending):
        return "waiter-queue-leak"
    # a drain that was suspended and then saw the connection lost must fail with a connection error
    for i, s in enumerate(states):
        if s.startswith("exc:") and st["lost"] is None:
            return "drain-failed-without-connection-loss"
        if s == "ok" and st["meta"][i]["lost_at_call"]:
            return "drain-succeeded-on-lost-connection"
    # paused, not lost: every drain issued while paused and not cancelled must still be pending (backpressure)
    if st["paused"] and st["lost"] is None:
        # find whether a resume happened after each drain call: approximated through replay of the history
        paused = False
        issued: list[bool] = []  # for each D: must it still wait?
        for ev in history:
            if ev == "P":
                paused = True
            elif ev == "R":
                paused = False
                issued = [False] * len(issued)
            elif ev == "D":
                issued.append(paused)
            elif ev.startswith("X"):
                issued[int(ev[1])] = False
        for i, must_wait in enumerate(issued):
            if must_wait and states[i] != "pending":
                return "suspended-drain-returned-while-still-paused"
    return None


def run_wfc(res: JobResult, max_drains: int = MAX_DRAINS) -> None:
    init = wfc_build(())
    seen = {init["canon"]: ()}
    frontier: collections.deque = collections.deque([((), init)])
    res.evaluations += 1
    outcomes: set = set()
    while frontier:
        hist, st = frontier.popleft()
        for ev in wfc_enabled(hist, st, max_drains):
            h2 = hist + (ev,)
            nxt = wfc_build(h2)
            res.evaluations += 1
            res.transitions += 1
            bad = wfc_invariant(h2, nxt)
            outcomes.add((nxt["canon"][0], nxt["canon"][1], tuple(sorted(set(nxt["states"])))))
            if bad is not None:
                res.outcome("VIOLATION:" + bad)
                if not any(v.key == f"flowcontrol/{bad}" for v in res.violations):
                    res.violations.append(Violation(f"flowcontrol/{bad}", f"WriteFlowControl history {list(h2)} -> state {nxt['canon']}: {bad}",
                                                    {"part": "wfc", "history": list(h2)}))
                continue
            res.outcome("flowcontrol-state-ok")
            if nxt["canon"] not in seen:
                seen[nxt["canon"]] = h2
                frontier.append((h2, nxt))
    res.states += len(seen)
    for o in outcomes:
        res.nontrivial.add(digest(("wfc", o)))
    res.count("wfc_states", len(seen))
    res.count("wfc_max_depth", max(len(h) for h in seen.values()))
    res.samples.append({"part": "flowcontrol-bfs", "states": len(seen), "example_history": list(max(seen.values(), key=len)), "closed": True})


# ---------------------------------------------------------------------------------------------------------
# (b) stream adapter


def run_stream(ctx: Ctx, cfg: dict) -> dict:
    sizes = cfg["sizes"]
    payloads = [bytes([65 + i]) * n for i, n in enumerate(sizes)]
    total = sum(sizes)
    world = World(ctx, horizon=800)
    sock = world.stream_socket(tx_cap=cfg["cap"])
    st: dict[str, Any] = {"ready": False, "tasks": [], "loss": None}
    peer_read = bytearray()

    def read(k: int | None):
        def act() -> None:
            q = sock.tx.q
            n = len(q) if k is None else min(k, len(q))
            peer_read.extend(q[:n])
            del q[:n]
        return act

    def reset() -> None:
        st["loss"] = "reset"
        sock.tx.error = ConnectionResetError(errno.ECONNRESET, "reset")
        sock.rx.error = ConnectionResetError(errno.ECONNRESET, "reset")

    def peer_close() -> None:
        st["loss"] = "close"
        sock.rx.eof = True
        sock.tx.error = BrokenPipeError(errno.EPIPE, "closed by peer")

    script = cfg["peer"]
    nsteps = total + 2
    if script == "all":
        events = [(f"r{i}", read(None)) for i in range(nsteps)]
    elif script in ("step1", "step3"):
        k = 1 if script == "step1" else 3
        events = [(f"r{i}", read(k)) for i in range(total + 3)]  # every event takes >= 1 byte whenever one is queued
    elif script == "reset":
        events = [("r0", read(1)), ("reset", reset)]
    elif script == "close":
        events = [("r0", read(1)), ("close", peer_close)]
    else:  # stop: the peer reads one byte and never again
        events = [("r0", read(1))]
    chains = [Chain("peer", events)]
    if cfg["cancel"] is not None:
        def do_cancel() -> None:
            t = st["tasks"][cfg["cancel"]]
            st["cancel_hit_pending"] = not t.done()
            t.cancel()
        chains.append(Chain("cancel", [("X", do_cancel)]))
    placer = Placer(ctx, chains, gate=lambda: st["ready"], max_busy_points=30).install(world)
    out: dict[str, Any] = {"results": [None] * len(sizes), "wire_at_return": [None] * len(sizes), "suspended": [False] * len(sizes)}

    async def main(loop: Any) -> None:
        backend = AsyncIOBackend()
        tr = await backend.wrap_stream_socket(sock)
        raw = tr._AsyncioTransportStreamSocketAdapter__transport

        async def sender(i: int) -> None:
            try:
                if cfg.get("api", "send_all") == "send_all":
                    await tr.send_all(payloads[i])
                else:  # what every endpoint / client send_packet() uses
                    await tr.send_all_from_iterable(iter([payloads[i][:1], b"", payloads[i][1:]]))
                out["results"][i] = "ok"
            except OSError as exc:
                out["results"][i] = "oserror"
            except asyncio.CancelledError:
                out["results"][i] = "cancelled"
                raise
            finally:
                out["wire_at_return"][i] = len(sock.tx.total)

        st["tasks"] = [loop.create_task(sender(i)) for i in range(len(sizes))]
        await asyncio.sleep(0)
        for i, t in enumerate(st["tasks"]):
            out["suspended"][i] = not t.done()
        st["ready"] = True
        # no timer in the harness except for the scripts where the peer stops reading: with a timer ahead the
        # environment could legitimately let it fire first, which is not what these scripts describe
        done, pending = await asyncio.wait(st["tasks"], timeout=50.0 if script == "stop" else None)
        out["pending_at_end"] = sorted(st["tasks"].index(t) for t in pending)
        out["buffered_at_end"] = raw.get_write_buffer_size() if not raw.is_closing() else 0
        for t in pending:
            t.cancel()

    status, value, loop = vloop.run(world, main)
    out["status"] = status
    out["value"] = repr(value) if status != "ok" else None
    out["wire"] = bytes(sock.tx.total)
    out["loss"] = st["loss"]
    out["cancel_hit_pending"] = st.get("cancel_hit_pending")
    out["trace"] = placer.trace
    out["placer_done"] = placer.all_done()
    return out


def oracle_stream(cfg: dict, obs: dict) -> str | None:
    if obs["status"] in ("deadlock", "horizon"):
        return "hang-" + obs["status"]
    if obs["status"] != "ok":
        return "unexpected-exception"
    sizes = cfg["sizes"]
    cum = list(itertools.accumulate(sizes))
    expected_wire = b"".join(bytes([65 + i]) * n for i, n in enumerate(sizes))
    if not expected_wire.startswith(obs["wire"]):
        return "wire-corrupted"
    for i, r in enumerate(obs["results"]):
        if r == "ok" and obs["wire_at_return"][i] < cum[i]:
            return "send-returned-before-bytes-reached-the-socket"
    script = cfg["peer"]
    pend = obs["pending_at_end"]
    if script in ("all", "step1", "step3"):
        # the peer reads everything: every sender that was not cancelled completes
        for i, r in enumerate(obs["results"]):
            if i == cfg["cancel"]:
                if r not in ("cancelled", "ok"):
                    return "cancelled-sender-unexpected-result"
                continue
            if r != "ok":
                return "sender-not-resumed" if i in pend or r is None else "sender-failed-on-healthy-connection"
    elif script in ("reset", "close"):
        if pend:
            return "sender-pending-after-connection-loss"
        for i, r in enumerate(obs["results"]):
            if r is None:
                return "sender-pending-after-connection-loss"
    else:  # stop
        # with the pipe full nobody may return unless its bytes fit: checked above; nothing else is required
        pass
    return None


SIZE_SETS = [(1,), (4,), (12,), (4, 12), (12, 1), (12, 12), (1, 4, 12), (12, 4, 1)]
PEERS = ("all", "step1", "step3", "reset", "close", "stop")


def stream_jobs(tier: str) -> list[dict]:
    out = []
    for sizes in (SIZE_SETS if tier == "quick" else SIZE_SETS + [(4, 1, 12), (12, 12, 12), (1, 4, 12, 4)]):
        for cap in (1, 3, 10):
            for peer in PEERS:
                for api in ("send_all", "iter"):
                    out.append({"part": "stream", "sizes": list(sizes), "cap": cap, "peer": peer, "api": api, "tier": tier})
    return out


def run_stream_job(job: dict, res: JobResult) -> None:
    bound = 3 if job["tier"] == "quick" else 4
    for cancel in [None] + list(range(len(job["sizes"]))):
        cfg = {"sizes": job["sizes"], "cap": job["cap"], "peer": job["peer"], "api": job.get("api", "send_all"), "cancel": cancel}
        found: dict[str, tuple[Ctx, dict]] = {}
        obs_states: set = set()

        def check(ctx: Ctx, obs: dict) -> bool:
            res.evaluations += 1
            bad = oracle_stream(cfg, obs)
            res.outcome(f"stream-{cfg['peer']}-ok" if bad is None else "VIOLATION:" + bad)
            key = (tuple(obs["results"]), tuple(obs["pending_at_end"]) if "pending_at_end" in obs else None, len(obs["wire"]))
            obs_states.add(key)
            if any(obs["suspended"]):
                res.nontrivial.add(digest(("stream", cfg["api"], tuple(cfg["sizes"]), cfg["cap"], cfg["peer"], cancel, key)))
            if bad is not None and (bad not in found or len(ctx.choices) < len(found[bad][0].choices)):
                found[bad] = (ctx, obs)
            return bad is not None

        stats = explore(lambda ctx: run_stream(ctx, cfg), bound=bound, check=check, max_runs=30000, violation_budget=300)
        res.transitions += stats["points"]
        res.states += len(obs_states)
        if stats["cap_hit"]:
            res.caps.append("stream max_runs")
        for bad, (ctx, obs) in found.items():
            res.violations.append(Violation(
                f"stream/{cfg['api']}/{bad}",
                f"stream adapter ({cfg['api']}) senders={cfg['sizes']} capacity={cfg['cap']} peer={cfg['peer']} cancel={cancel}: results={obs['results']} "
                f"wire_at_return={obs['wire_at_return']} pending={obs.get('pending_at_end')} schedule={obs['trace']} choices={ctx.choices}",
                {"part": "stream", "cfg": cfg, "choices": list(ctx.choices)},
            ))
    if len(res.samples) < 2:
        res.samples.append({"part": "stream", "senders": job["sizes"], "capacity": job["cap"], "peer": job["peer"], "busy_placement_bound": bound})


# ---------------------------------------------------------------------------------------------------------
# (c) datagram endpoint / listener


def run_dgram(ctx: Ctx, cfg: dict) -> dict:
    world = World(ctx, horizon=600)
    listener = cfg["obj"] == "listener"
    sock = world.dgram_socket(peer=None if listener else ("127.0.0.1", 40000))
    st: dict[str, Any] = {"ready": False, "eagain_left": cfg["eagain"], "tasks": [], "loss": None}

    handed: list[bytes] = []  # datagrams the kernel accepted OR refused with an error (not EAGAIN): they left user space

    def policy(s: Any, data: bytes) -> BaseException | None:
        if st["loss"] == "error":
            handed.append(data)
            return ConnectionRefusedError(errno.ECONNREFUSED, "refused")
        if st["eagain_left"] > 0:
            st["eagain_left"] -= 1
            s.tx_blocked = True
            return BlockingIOError(errno.EAGAIN, "would block")
        handed.append(data)
        return None

    sock.dgram_send_policy = policy

    def writable() -> None:
        sock.tx_blocked = False

    def error() -> None:
        st["loss"] = "error"
        sock.tx_blocked = False

    script = cfg["env"]
    events: list[tuple[str, Any]] = []
    if script == "writable":
        events = [("w", writable)] * (cfg["eagain"] + 1)
    elif script == "error":
        events = [("err", error)]
    elif script == "never":
        events = []
    chains = [Chain("kernel", events)]
    if cfg["cancel"] is not None:
        def do_cancel() -> None:
            st["tasks"][cfg["cancel"]].cancel()
        chains.append(Chain("cancel", [("X", do_cancel)]))
    if script == "close":
        holder: dict[str, Any] = {}

        def do_close() -> None:
            st["loss"] = "close"
            holder["close_task"] = asyncio.get_event_loop().create_task(holder["obj"].aclose())
        # a real socket becomes writable again sooner or later: the close script ends with that
        chains.append(Chain("close", [("close", do_close), ("w", writable), ("w", writable)]))
    placer = Placer(ctx, chains, gate=lambda: st["ready"], max_busy_points=30).install(world)
    n = cfg["senders"]
    out: dict[str, Any] = {"results": [None] * n, "sent_at_return": [None] * n, "buffered_at_return": [None] * n}

    async def main(loop: Any) -> None:
        backend = AsyncIOBackend()
        if listener:
            from easynetwork.lowlevel.api_async.backend._asyncio.datagram.listener import DatagramListenerProtocol, DatagramListenerSocketAdapter

            transport, protocol = await loop.create_datagram_endpoint(lambda: DatagramListenerProtocol(loop=loop), sock=sock)
            obj: Any = DatagramListenerSocketAdapter(backend, transport, protocol)
            raw = transport
        else:
            obj = await backend.wrap_connected_datagram_socket(sock)
            raw = obj._AsyncioTransportDatagramSocketAdapter__endpoint._DatagramEndpoint__transport
        if script == "close":
            holder["obj"] = obj

        async def sender(i: int) -> None:
            payload = bytes([65 + i]) * 5
            try:
                if listener:
                    await obj.send_to(payload, ("127.0.0.1", 41000 + i))
                else:
                    await obj.send(payload)
                out["results"][i] = "ok"
            except OSError:
                out["results"][i] = "oserror"
            except asyncio.CancelledError:
                out["results"][i] = "cancelled"
                raise
            finally:
                out["sent_at_return"][i] = list(handed)
                out["buffered_at_return"][i] = raw.get_write_buffer_size()

        st["tasks"] = [loop.create_task(sender(i)) for i in range(n)]
        await asyncio.sleep(0)
        out["suspended"] = [not t.done() for t in st["tasks"]]
        st["ready"] = True
        done, pending = await asyncio.wait(st["tasks"], timeout=50.0 if script == "never" else None)
        out["pending_at_end"] = sorted(st["tasks"].index(t) for t in pending)
        for t in pending:
            t.cancel()

    status, value, loop = vloop.run(world, main)
    out["status"] = status
    out["value"] = repr(value) if status != "ok" else None
    out["txd"] = [p for p, _a in sock.txd]
    out["trace"] = placer.trace
    out.setdefault("suspended", [])
    out.setdefault("pending_at_end", [])
    return out


def oracle_dgram(cfg: dict, obs: dict) -> str | None:
    if obs["status"] in ("deadlock", "horizon"):
        return "hang-" + obs["status"]
    if obs["status"] != "ok":
        return "unexpected-exception"
    for i, r in enumerate(obs["results"]):
        payload = bytes([65 + i]) * 5
        if r == "ok" and payload not in obs["sent_at_return"][i]:
            return "send-returned-with-datagram-still-buffered"
    script = cfg["env"]
    if script == "writable":
        for i, r in enumerate(obs["results"]):
            if i == cfg["cancel"]:
                continue
            if r != "ok":
                return "sender-not-resumed"
    elif script in ("error", "close"):
        if obs["pending_at_end"]:
            return "sender-pending-after-connection-loss"
    return None


def dgram_jobs(tier: str) -> list[dict]:
    out = []
    for obj in ("endpoint", "listener"):
        for senders in ((1, 2) if tier == "quick" else (1, 2, 3)):
            for eagain in (0, 1, 2):
                for env in ("writable", "error", "close", "never"):
                    if eagain == 0 and env != "writable":
                        continue
                    out.append({"part": "dgram", "obj": obj, "senders": senders, "eagain": eagain, "env": env, "tier": tier})
    return out


def run_dgram_job(job: dict, res: JobResult) -> None:
    bound = 3 if job["tier"] == "quick" else 4
    for cancel in [None] + list(range(job["senders"])):
        cfg = {k: job[k] for k in ("obj", "senders", "eagain", "env")}
        cfg["cancel"] = cancel
        found: dict[str, tuple[Ctx, dict]] = {}

        def check(ctx: Ctx, obs: dict) -> None:
            res.evaluations += 1
            bad = oracle_dgram(cfg, obs)
            res.outcome(f"dgram-{cfg['env']}-ok" if bad is None else "VIOLATION:" + bad)
            if any(obs["suspended"]) or cfg["eagain"]:
                res.nontrivial.add(digest(("dgram", tuple(sorted(cfg.items(), key=str)), tuple(obs["results"]), tuple(obs["pending_at_end"]))))
            if bad is not None and (bad not in found or len(ctx.choices) < len(found[bad][0].choices)):
                found[bad] = (ctx, obs)

        stats = explore(lambda ctx: run_dgram(ctx, cfg), bound=bound, check=check, max_runs=20000)
        res.transitions += stats["points"]
        for bad, (ctx, obs) in found.items():
            res.violations.append(Violation(
                f"datagram/{cfg['obj']}/{bad}",
                f"datagram {cfg['obj']} senders={cfg['senders']} EAGAIN x{cfg['eagain']} env={cfg['env']} cancel={cancel}: results={obs['results']} "
                f"buffered_at_return={obs['buffered_at_return']} sent_at_return={obs['sent_at_return']} pending={obs['pending_at_end']} choices={ctx.choices}",
                {"part": "dgram", "cfg": cfg, "choices": list(ctx.choices)},
            ))
    if len(res.samples) < 2:
        res.samples.append({"part": "datagram", **{k: job[k] for k in ("obj", "senders", "eagain", "env")}})


# ---------------------------------------------------------------------------------------------------------
# (d) a connection that died on the WRITE side only (EPIPE / ECONNRESET answered to send(), nothing readable): the transport notices it
# inside write(); a sender that keeps sending in a tight loop must get a connection error, not an endless series of successes


def run_dead(cfg: dict) -> dict:
    world = World(Ctx(), horizon=900)
    sock = world.stream_socket(tx_cap=cfg["cap"])
    err = {"EPIPE": BrokenPipeError(errno.EPIPE, "Broken pipe"), "ECONNRESET": ConnectionResetError(errno.ECONNRESET, "reset")}[cfg["errno"]]
    out: dict[str, Any] = {"results": []}

    async def main(loop: Any) -> None:
        tr = await AsyncIOBackend().wrap_stream_socket(sock)
        for k in range(cfg["good"]):
            await tr.send_all(b"x")  # healthy sends first (the pipe is drained at once)
            del sock.tx.q[:]
        sock.tx.error = err
        for k in range(8):
            try:
                if cfg["api"] == "send_all":
                    await tr.send_all(b"A" * cfg["size"])
                else:
                    await tr.send_all_from_iterable(iter([b"A", b"", b"A" * (cfg["size"] - 1)]))
                out["results"].append("ok")
            except OSError as exc:
                out["results"].append("oserror:" + type(exc).__name__)
                break

    status, value, _loop = vloop.run(world, main)
    out["status"] = status
    out["value"] = repr(value)[:160] if status != "ok" else None
    out["iterations"] = getattr(_loop, "iterations", None)
    return out


def oracle_dead(cfg: dict, obs: dict) -> str | None:
    if obs["status"] != "ok":
        return "dead-connection-run-" + obs["status"]
    r = obs["results"]
    if not r or not r[-1].startswith("oserror"):
        return "sends-on-a-dead-connection-keep-succeeding"
    if len(r) > 3:
        return "connection-error-reported-only-after-several-lost-sends"
    return None


def run_dead_job(res: JobResult) -> None:
    for api in ("send_all", "iter"):
        for e in ("EPIPE", "ECONNRESET"):
            for size in (1, 12):
                for cap in (3, 64):
                    for good in (0, 1):
                        cfg = {"api": api, "errno": e, "size": size, "cap": cap, "good": good}
                        obs = run_dead(cfg)
                        res.evaluations += 1
                        bad = oracle_dead(cfg, obs)
                        res.outcome("dead-connection-ok" if bad is None else "VIOLATION:" + bad)
                        res.nontrivial.add(digest(("dead", api, e, size, cap, good, tuple(obs["results"]))))
                        key = f"stream/{api}/{bad}"
                        if bad and not any(v.key == key for v in res.violations):
                            res.violations.append(Violation(key, f"{cfg}: results of the consecutive sends {obs['results']} status={obs['status']} {obs['value']}",
                                                            {"part": "dead", "cfg": cfg, "choices": []}))
    res.samples.append({"part": "write-side connection loss, sender in a tight loop"})


def jobs(tier: str) -> list[dict]:
    return [{"part": "wfc", "tier": tier}, {"part": "dead", "tier": tier}] + stream_jobs(tier) + dgram_jobs(tier)


def run_job(job: dict) -> JobResult:
    res = JobResult()
    if job["part"] == "dead":
        run_dead_job(res)
    elif job["part"] == "wfc":
        run_wfc(res, MAX_DRAINS if job["tier"] == "quick" else MAX_DRAINS + 1)
    elif job["part"] == "stream":
        run_stream_job(job, res)
    else:
        run_dgram_job(job, res)
    return res


def replay(doc: dict) -> tuple[bool, str]:
    rp = doc["replay"]
    if rp["part"] == "wfc":
        st = wfc_build(tuple(rp["history"]))
        bad = wfc_invariant(tuple(rp["history"]), st)
        return bad is not None, f"history={rp['history']}\nstate={st['canon']}\ninvariant: {bad}"
    if rp["part"] == "dead":
        obs = run_dead(rp["cfg"])
        bad = oracle_dead(rp["cfg"], obs)
        return bad is not None, f"cfg={rp['cfg']}\nresults={obs['results']} status={obs['status']} {obs['value']}\noracle: {bad}"
    ctx = Ctx(rp["choices"])
    if rp["part"] == "stream":
        obs = run_stream(ctx, rp["cfg"])
        bad = oracle_stream(rp["cfg"], obs)
    else:
        obs = run_dgram(ctx, rp["cfg"])
        bad = oracle_dgram(rp["cfg"], obs)
    lines = [f"cfg={rp['cfg']}", f"choices={rp['choices']}"] + [f"  {k}={v!r}" for k, v in obs.items()] + [f"oracle: {bad}"]
    return bad is not None, "\n".join(lines)
