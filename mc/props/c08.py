"""C08 - the TLS transport is a transparent, encrypted byte stream.

Subject: the real ``AsyncTLSStreamTransport`` (wrap / recv / recv_into / send_all / send_all_from_iterable / aclose) on the
real asyncio loop (E2) over the harness' in-memory leaf transport (E7 ``MemTransport``), and the real blocking
``SSLStreamTransport`` over a socketpair, each against an independent stdlib ``ssl.SSLObject`` peer.  Two library tasks (a
reader loop that reads until end-of-stream, a writer) run concurrently with the scripted peer; the explorer owns the
ciphertext relay between them (which bytes reach the library at which loop iteration).

Oracle (from the statement): plaintext read by each side == concatenation of the other side's writes, in order, nothing
extra (both sides read up to the other side's close_notify); the session terminates (no deadlock / horizon / exception) -
the peer only closes after it has read every library byte, so the library's reader is necessarily still parked in
``recv`` while the writer finishes; no plaintext marker ever appears in a buffer handed to the leaf transport's
``send_all`` nor in the relay queues.
"""
from __future__ import annotations

import itertools
import math
from typing import Any

from easynetwork.lowlevel.api_async.backend._asyncio.backend import AsyncIOBackend
from easynetwork.lowlevel.api_async.transports.tls import AsyncTLSStreamTransport
from easynetwork.lowlevel.api_sync.transports.socket import SSLStreamTransport

from .. import tlsrig, vloop
from ..core import Ctx, Deadlock, HorizonHit, JobResult, Violation, digest, explore
from ..world import VSelector, World

PROPERTY = "C08"
LEVEL = "exploration"
SIZES = (1, 17, 16384, 16385, 40000)
UNIFORM = (1, 2, 3, 5, 7, 64, 1000)
RULE = (
    "write scripts: 1..3 writes per side with sizes from {1,17,16384,16385,40000} (position-dependent plaintext) plus one 300000-byte write per direction; library as TLS "
    "client and as TLS server; TLS 1.2 and TLS 1.3 pinned; reader loop (recv or recv_into, buffer 65536 or 1000) and writer "
    "(send_all or send_all_from_iterable with an empty chunk inside) as two concurrent tasks started in either order; peer "
    "writing at once (duplex) or only after it has read every library byte (lib-first). Ciphertext delivery: at EVERY relay "
    "step (= every select() of the loop) the explorer picks 'everything available' (default) or a costed deviation 'only k "
    "bytes now' for k in {1,4,5,rem-1,rem,rem+1} (rem = bytes to the end of the TLS record at the head of the queue), 'hold' "
    "(while the loop is busy) for peer->library, 'hold' for library->peer; deviation bound per tier; plus the uniform "
    "fragmentations {1,2,3,5,7,64,1000} bytes per delivery (both directions) as whole-run configurations; blocking "
    "SSLStreamTransport over a real socketpair with a reduced script set. distinct_nontrivial = distinct (configuration class, "
    "sequence of leaf-transport calls with sizes) among executions with at least one non-default delivery. Full duplex under "
    "back-pressure (c08_duplex): the leaf's send_all() of application data blocks until the library's reader task has drained the "
    "peer's whole write (a peer that reads only after its own large write went through); one or two writer tasks and the reader "
    "started in 5 orders with 0/1/3 loop turns between them, recv/recv_into, sizes {17,40000,100000} per side: every task must finish; "
    "a writer cancelled (0/1/2/4 loop turns after it started) while it waits for the send lock held by a blocked writer, followed by a third write: the peer decrypts "
    "A, then B entirely or not at all, then C"
)
ASSUMPTIONS = [
    "the peer is CPython's ssl.SSLObject (OpenSSL) driven by the harness; OpenSSL and asyncio are executed, not modelled",
    "ciphertext lengths are deterministic (Ed25519 certificate, no record padding): re-verified by the length-trace guard at the start of every job; contents are never compared",
    "TLS contexts are cached per worker process; no session is ever resumed (no session= argument), so a cached context carries nothing into the next execution",
    "not exhaustive over all fragmentations x interleavings (exponential): complete only up to the stated deviation bound, plus uniform fragmentations",
    "plaintext-leak check uses the 20-byte side marker (present in every write of >= 43 bytes) and the full plaintext of 16..42-byte writes; a 1-byte write has nothing searchable",
    "blocking variant: sizes {1,17,16385}, <= 2 writes per side (the kernel buffer of the AF_UNIX pair is never filled), sequential program (send-first or alternate), TLS client and server",
    "second async configuration: the leaf is the real AsyncioTransportStreamSocketAdapter on a FakeSocket (tx pipe unbounded or 1024 bytes, drained by the relay at every step)",
]
BOUNDS = {
    "quick": "deviation bound 2 on 8 script pairs x 8 configurations (64 explorations); bound 1 on the 6x6 mid script pairs x 4 version/role "
             "configurations, on 64 configurations over the real asyncio socket adapter (FakeSocket, tx pipe unbounded / 1024 bytes) and on 576 "
             "blocking configurations; default delivery on one in 8 of the 155x155 script pairs (shifted diagonals); uniform fragmentations "
             "{1,2,3,5,7,64,1000} on 6 script pairs; 120 back-pressure duplex configurations per version/role",
    "thorough": "deviation bound 3 on the 128 deep explorations; bound 2 on the mid pairs, the socket-adapter configurations and the blocking "
                "configurations; bound 1 on a 930-pair band of the script matrix; default delivery on EVERY one of the 155x155 script pairs in all four "
                "version/role configurations; uniform fragmentations on 12 script pairs; 120 back-pressure duplex configurations per version/role",
}


# ---------------------------------------------------------------------------------------------------------
# plaintext


def writes_of(side: str, sizes: list[int]) -> list[bytes]:
    out, pos = [], 0
    for n in sizes:
        out.append(tlsrig.pattern(side, pos, n))
        pos += n
    return out


def needles(lw: list[bytes], pw: list[bytes]) -> list[bytes]:
    ns = [tlsrig.MARKERS["lib"], tlsrig.MARKERS["peer"]]
    for w in lw + pw:
        if 16 <= len(w) < 43:
            ns.append(w)
    return ns


def split_for_iterable(w: bytes) -> list[Any]:
    a, b = len(w) // 3, 2 * len(w) // 3
    return [w[:a], b"", bytearray(w[a:b]), memoryview(w[b:])]


def make_policy(ctx: Ctx, cfg: dict) -> Any:
    d = cfg["delivery"]
    if d == "explore":
        return tlsrig.Explore(ctx)
    if d == "default":
        return tlsrig.DeliverAll()
    return tlsrig.Uniform(int(d[1]))


def horizon_for(cfg: dict) -> int:
    total = sum(cfg["lw"]) + sum(cfg["pw"]) + 4000
    d = cfg["delivery"]
    n = int(d[1]) if isinstance(d, (list, tuple)) else 16384
    return 4000 + 4 * (total // n + 1) + total // 200


def peer_script(cfg: dict, pw: list[bytes], lib_total: int) -> list[tuple]:
    script: list[tuple] = []
    if cfg.get("gate") == "lib-first":
        script.append(("wait_recv", lib_total))
    script += [("write", w) for w in pw]
    script += [("wait_recv", lib_total), ("unwrap",)]
    return script


# ---------------------------------------------------------------------------------------------------------
# async harness


def run_async(ctx: Ctx, cfg: dict) -> dict:
    version, role = cfg["version"], cfg["role"]
    lw = writes_of("lib", cfg["lw"])
    pw = writes_of("peer", cfg["pw"])
    lib_total = sum(cfg["lw"])
    world = World(ctx, horizon=horizon_for(cfg))
    relay = tlsrig.make_peer_and_relay(version, role, policy=make_policy(ctx, cfg), script=peer_script(cfg, pw, lib_total))
    world.env = relay.env
    out: dict = {"phase": "wrap"}
    bufsize = cfg.get("bufsize", 65536)
    holder: dict = {}
    sock = None
    if cfg["kind"] == "asock":
        # second configuration: the leaf is the real asyncio socket adapter on a FakeSocket (tx pipe capacity tx_cap, so
        # that the adapter's own write flow control is active while the TLS layer flushes)
        sock = world.stream_socket(tx_cap=cfg.get("tx_cap"))
        relay.link = tlsrig.FakeSocketLink(relay, sock)

    async def main(loop: Any) -> None:
        import asyncio

        if sock is not None:
            leaf = await AsyncIOBackend().wrap_stream_socket(sock)
        else:
            leaf = tlsrig.MemTransport(AsyncIOBackend(), send_checkpoints=cfg.get("send_checkpoints", 0))
            holder["leaf"] = leaf
            relay.link = tlsrig.AsyncLink(relay, leaf)
        tls = await AsyncTLSStreamTransport.wrap(leaf, tlsrig.lib_context(version, role), server_side=(role == "server"),
                                                 server_hostname=tlsrig.HOSTNAME if role == "client" else None)
        out["phase"] = "transfer"
        got = bytearray()
        out["lib_received"] = got
        st = {"reader_done": False}

        async def reader() -> None:
            if cfg["recv"] == "recv":
                while True:
                    d = await tls.recv(bufsize)
                    if not d:
                        break
                    got.extend(d)
            else:
                buf = bytearray(bufsize)
                while True:
                    n = await tls.recv_into(buf)
                    if not n:
                        break
                    got.extend(memoryview(buf)[:n])
            st["reader_done"] = True

        async def writer() -> None:
            for w in lw:
                if cfg["send"] == "send_all":
                    await tls.send_all(w)
                else:
                    await tls.send_all_from_iterable(iter(split_for_iterable(w)))
            out["writer_done"] = True
            out["reader_parked_at_writer_done"] = (sock is not None or leaf.parked) and not st["reader_done"]

        coros = [reader(), writer()] if cfg.get("order", "rw") == "rw" else [writer(), reader()]
        tasks = [loop.create_task(c) for c in coros]
        try:
            await asyncio.gather(*tasks)
        finally:
            if not loop.is_closed():  # (an abandoned execution is finalised after the loop is gone)
                for t in tasks:
                    t.cancel()
        out["phase"] = "close"
        await tls.aclose()
        out["phase"] = "done"
        relay.drain()
        out["leaf_closed"] = leaf.is_closing()
        if sock is not None:
            for _ in range(3):  # asyncio closes the socket in a call_soon callback
                await asyncio.sleep(0)
            out["leaf_closed"] = leaf.is_closing() and sock.closed_flag

    status, value, loop = vloop.run(world, main)
    leaf = holder.get("leaf")
    out["status"] = status
    out["error"] = None if status == "ok" else (type(value).__name__ + ": " + str(value)[:200] if isinstance(value, BaseException) else str(value))
    out["lib_received"] = bytes(out.get("lib_received", b""))
    out["peer_received"] = bytes(relay.peer.received)
    out["expected_lib"] = b"".join(pw)
    out["expected_peer"] = b"".join(lw)
    out["leak"] = find_leak(needles(lw, pw), leaf.sent if leaf else [], relay)
    out["leaf_calls"] = tuple(leaf.calls) if leaf else (tuple(map(tuple, sock.calls)) if sock is not None else ())
    out["busy_recv"] = leaf.busy_recv if leaf else 0
    out["peer_events"] = tuple(e for e in relay.peer.events if e[0] != "data")
    out["deliveries"] = len(relay.deliveries)
    out["holds"] = relay.holds
    out["mid_record"] = relay.mid_record_deliveries
    out["selects"] = world.selects
    out["unhandled"] = vloop.collect_unhandled(loop) if status == "ok" else []
    tlsrig.gc_tick()
    return out


def find_leak(ns: list[bytes], sent: list[bytes], relay: Any) -> str | None:
    for i, b in enumerate(sent):
        for n in ns:
            if n in b:
                return f"marker {n[:20]!r} inside buffer #{i} ({len(b)} bytes) passed to the leaf transport's send_all"
    for name, blob in (("library->peer", relay.lib_out_total), ("peer->library", relay.peer_out_total)):
        for n in ns:
            if n in blob:
                return f"marker {n[:20]!r} inside the {name} relay stream"
    return None


# ---------------------------------------------------------------------------------------------------------
# blocking harness


def run_blocking(ctx: Ctx, cfg: dict) -> dict:
    version, role = cfg["version"], cfg["role"]
    lw = writes_of("lib", cfg["lw"])
    pw = writes_of("peer", cfg["pw"])
    lib_total = sum(cfg["lw"])
    world = World(ctx, horizon=horizon_for(cfg))
    relay = tlsrig.make_peer_and_relay(version, role, policy=make_policy(ctx, cfg), script=peer_script(cfg, pw, lib_total))
    link = tlsrig.BlockingLink(relay)
    relay.link = link
    world.env = relay.env
    world.install_clock()
    out: dict = {"phase": "wrap", "status": "ok", "error": None}
    got = bytearray()
    bufsize = cfg.get("bufsize", 65536)
    tr = None
    inf = math.inf

    def read_some() -> bool:
        if cfg["recv"] == "recv":
            d = tr.recv(bufsize, inf)
            got.extend(d)
            return bool(d)
        buf = bytearray(bufsize)
        n = tr.recv_into(buf, inf)
        got.extend(memoryview(buf)[:n])
        return bool(n)

    try:
        try:
            tr = SSLStreamTransport(link.lib_sock, tlsrig.lib_context(version, role), inf, server_side=(role == "server"),
                                    server_hostname=tlsrig.HOSTNAME if role == "client" else None,
                                    selector_factory=lambda: VSelector(world))
            out["phase"] = "transfer"
            want = 0
            for i in range(max(len(lw), len(pw))):
                if i < len(lw):
                    if cfg["send"] == "send_all":
                        tr.send_all(lw[i], inf)
                    else:
                        tr.send_all_from_iterable(iter(split_for_iterable(lw[i])), inf)
                if cfg.get("prog") == "alternate" and i < len(pw):
                    want += len(pw[i])
                    while len(got) < want:
                        if not read_some():
                            break
            out["writer_done"] = True
            while read_some():
                pass
            out["phase"] = "close"
            tr.close()
            out["phase"] = "done"
            relay.drain()
        except Deadlock as exc:
            out["status"], out["error"] = "deadlock", str(exc)
        except HorizonHit as exc:
            out["status"], out["error"] = "horizon", str(exc)
        except Exception as exc:  # noqa: BLE001
            out["status"], out["error"] = "exc", type(exc).__name__ + ": " + str(exc)[:200]
    finally:
        world.restore_clock()
        if tr is not None:
            try:
                tr.close()
            except Exception:
                pass
        link.close()
    out["lib_received"] = bytes(got)
    out["peer_received"] = bytes(relay.peer.received)
    out["expected_lib"] = b"".join(pw)
    out["expected_peer"] = b"".join(lw)
    out["leak"] = find_leak(needles(lw, pw), [], relay)
    out["leaf_calls"] = tuple(relay.deliveries)
    out["busy_recv"] = 0
    out["peer_events"] = tuple(e for e in relay.peer.events if e[0] != "data")
    out["deliveries"] = len(relay.deliveries)
    out["holds"] = relay.holds
    out["mid_record"] = relay.mid_record_deliveries
    out["selects"] = world.selects
    out["short_sends"] = link.short_sends
    out["unhandled"] = []
    return out


def run_cfg(ctx: Ctx, cfg: dict) -> dict:
    return run_blocking(ctx, cfg) if cfg["kind"] == "blocking" else run_async(ctx, cfg)


# ---------------------------------------------------------------------------------------------------------
# oracle


def _first_diff(a: bytes, b: bytes) -> int:
    n = min(len(a), len(b))
    for i in range(n):
        if a[i] != b[i]:
            return i
    return n


def oracle(obs: dict, cfg: dict) -> tuple[str, str] | None:
    """-> (key suffix, message) or None."""
    both = f"{cfg['recv']}+{cfg['send']}"
    if obs["leak"]:
        return f"{cfg['send']}/plaintext-leak", obs["leak"]
    if obs["status"] != "ok":
        sym = {"deadlock": "deadlock", "horizon": "no-progress-within-horizon"}.get(obs["status"], "unexpected-exception")
        if obs["status"] == "exc":
            sym += ":" + (obs["error"] or "?").split(":")[0]
        return f"{both}/{obs['phase']}-{sym}", f"session did not complete: {obs['status']} in phase {obs['phase']}: {obs['error']}"
    if obs["lib_received"] != obs["expected_lib"]:
        got, exp = obs["lib_received"], obs["expected_lib"]
        return (f"{cfg['recv']}/plaintext-mismatch",
                f"library read {len(got)} bytes, peer wrote {len(exp)}; first difference at offset {_first_diff(got, exp)}")
    if obs["peer_received"] != obs["expected_peer"]:
        got, exp = obs["peer_received"], obs["expected_peer"]
        return (f"{cfg['send']}/peer-plaintext-mismatch",
                f"peer read {len(got)} bytes, library wrote {len(exp)}; first difference at offset {_first_diff(got, exp)}")
    if not obs.get("leaf_closed", True):
        return f"{both}/close-left-transport-open", "aclose() returned and the wrapped transport is still open"
    if obs["unhandled"]:
        return f"{both}/unhandled-loop-exception", repr(obs["unhandled"][:2])
    return None


def cfg_class(cfg: dict) -> str:
    return f"{cfg['kind']}/tls{cfg['version']}/{cfg['role']}"


# ---------------------------------------------------------------------------------------------------------
# jobs


def all_scripts() -> list[tuple[int, ...]]:
    out: list[tuple[int, ...]] = []
    for n in (1, 2, 3):
        out.extend(itertools.product(SIZES, repeat=n))
    return out


# script pairs (library writes, peer writes) by depth class
DEEP_PAIRS = [
    ((1,), (1,)),
    ((17,), (16385,)),
    ((16385,), (17,)),
    ((16384, 1), (1, 16384)),
    ((40000,), (40000,)),
    ((1, 17, 16385), (16385, 17, 1)),
    ((40000, 1), (17, 40000)),
    ((17, 17, 17), (40000, 16384, 16385)),
]
MID_SCRIPTS = [(1,), (17,), (16384,), (16385,), (40000,), (1, 16385)]
VARIANTS = [("recv", "send_all"), ("recv_into", "iter"), ("recv", "iter"), ("recv_into", "send_all")]
UNIFORM_PAIRS = {
    "quick": [((1,), (17,)), ((17, 1), (16385,)), ((16385,), (1, 17)), ((16384,), (16384,)), ((1, 17, 1), (17, 1, 17)), ((40000,), (40000,))],
    "thorough": [((1,), (17,)), ((17, 1), (16385,)), ((16385,), (1, 17)), ((16384,), (16384,)), ((1, 17, 1), (17, 1, 17)), ((40000,), (40000,)),
                 ((16385, 16384), (40000,)), ((40000,), (16384, 16385)), ((1, 1, 1), (1, 1, 1)), ((17,), (40000, 1, 17)), ((40000, 17, 1), (1,)),
                 ((16384, 16384, 16384), (16385, 16385, 16385))],
}
BLOCKING_SIZES = (1, 17, 16385)


def _base(kind: str, version: str, role: str, recv: str, send: str, lw: Any, pw: Any, **kw: Any) -> dict:
    cfg = {"kind": kind, "version": version, "role": role, "recv": recv, "send": send, "lw": list(lw), "pw": list(pw),
           "bufsize": 65536, "gate": "duplex", "order": "rw", "delivery": "explore"}
    cfg.update(kw)
    return cfg


def jobs(tier: str) -> list[dict]:
    tlsrig.ensure_cert()
    out: list[dict] = []
    deep, mid, low = (2, 1, 0) if tier == "quick" else (3, 2, 1)
    vr = [(v, r) for v in tlsrig.VERSIONS for r in tlsrig.ROLES]
    # (A) deep: 8 script pairs x 2 versions x 2 roles x 4 (recv, send) variants (quick: 2 of the 4), alternating the
    # secondary dimensions (buffer size, gating, task order, leaf send checkpoints)
    i = 0
    for pi, pair in enumerate(DEEP_PAIRS):
        for ci, (v, r) in enumerate(vr):
            for vi, (recv, send) in enumerate(VARIANTS):
                if tier == "quick" and (vi + pi + ci) % 2:
                    continue  # quick: two of the four (recv, send) variants per script pair and version/role, rotated
                i += 1
                cfg = _base("async", v, r, recv, send, pair[0], pair[1], bufsize=(65536, 1000)[i % 2], gate=("duplex", "lib-first")[(i // 2) % 2],
                            order=("rw", "wr")[(i // 4) % 2], send_checkpoints=(0, 1)[(i // 3) % 2])
                out.append({"kind": "explore", "tier": tier, "bound": deep, "cfgs": [cfg]})
    # (B) mid: 6x6 script pairs, every version/role, variants rotated
    group: list[dict] = []
    for p, (ls, ps) in enumerate((a, b) for a in MID_SCRIPTS for b in MID_SCRIPTS):
        for ci, (v, r) in enumerate(vr):
            if True:
                recv, send = VARIANTS[(p + ci) % 4]  # every version/role meets every variant (rotation over the pairs)
                group.append(_base("async", v, r, recv, send, ls, ps, bufsize=(65536, 1000)[(p // 4 + ci) % 2],
                                   gate=("duplex", "lib-first")[(p // 2 + ci // 2) % 2], order=("rw", "wr")[(p // 8 + ci) % 2]))
                if len(group) == (4 if tier == "quick" else 1):
                    out.append({"kind": "explore", "tier": tier, "bound": mid, "cfgs": group})
                    group = []
    if group:
        out.append({"kind": "explore", "tier": tier, "bound": mid, "cfgs": group})
    # (C) low: the 155 x 155 script-pair matrix under default delivery. quick: one pair in 8 (shifted diagonals), each in ONE
    # configuration chosen by rotation; thorough: every pair in all four version/role configurations, plus deviation
    # bound 1 over a band of 6 diagonals (930 pairs, those of <= 100 kB)
    nparts = 32 if tier == "quick" else 96
    for part in range(nparts):
        out.append({"kind": "matrix", "tier": tier, "part": part, "parts": nparts, "bound": 0})
    if tier == "thorough":
        for part in range(46):
            out.append({"kind": "band", "tier": tier, "part": part, "parts": 46, "bound": low})
    # (D) uniform fragmentations
    for pair in UNIFORM_PAIRS[tier]:
        for n in UNIFORM:
            out.append({"kind": "uniform", "tier": tier, "pair": [list(pair[0]), list(pair[1])], "n": n})
    # (G) one write larger than 256 KiB in each direction (ciphertext backlog larger than any internal flush / buffer unit):
    # default delivery (quick) / deviation bound 1 (thorough), every version/role, both send paths
    for ci, (v, r) in enumerate(vr):
        for si, send in enumerate(("send_all", "iter")):
            for lw, pw in (((300000,), (17,)), ((17,), (300000,))):
                recv = ("recv", "recv_into")[(ci + si) % 2]
                out.append({"kind": "explore", "tier": tier, "bound": 0 if tier == "quick" else 1,
                            "cfgs": [_base("async", v, r, recv, send, lw, pw, gate="lib-first")]})
    # (F) second configuration: AsyncTLSStreamTransport over the REAL asyncio socket adapter on a FakeSocket
    group = []
    for p, pair in enumerate(DEEP_PAIRS):
        for ci, (v, r) in enumerate(vr):
            for ki, cap in enumerate((None, 1024)):
                recv, send = VARIANTS[(p + ci + 2 * ki) % 4]
                group.append(_base("asock", v, r, recv, send, pair[0], pair[1], tx_cap=cap, bufsize=(65536, 1000)[(p // 4 + ci + ki) % 2],
                                   gate=("duplex", "lib-first")[(p // 2 + ci // 2) % 2], order=("rw", "wr")[(p + ki) % 2]))
                if len(group) == (4 if tier == "quick" else 1):
                    out.append({"kind": "explore", "tier": tier, "bound": mid, "cfgs": group})
                    group = []
    if group:
        out.append({"kind": "explore", "tier": tier, "bound": mid, "cfgs": group})
    # (E) blocking SSLStreamTransport
    bscripts = [s for s in all_scripts() if all(x in BLOCKING_SIZES for x in s) and len(s) <= 2]
    bpairs = [(a, b) for a in bscripts for b in bscripts]
    nb = 16 if tier == "quick" else 48
    for part in range(nb):
        out.append({"kind": "blocking", "tier": tier, "part": part, "parts": nb, "bound": 1 if tier == "quick" else 2, "npairs": len(bpairs)})
    # (F) full duplex under back-pressure: the library's writer(s) blocked in the leaf's send_all() until its reader drained the peer
    from . import c08_duplex
    out.extend(c08_duplex.jobs(tier))
    return out


def matrix_cfg(idx: int, ls: tuple, ps: tuple, rot: int = 0) -> dict:
    k = idx + rot
    v, r = [(v, r) for v in tlsrig.VERSIONS for r in tlsrig.ROLES][k % 4]
    recv, send = VARIANTS[(k // 4) % 4]
    return _base("async", v, r, recv, send, ls, ps, bufsize=(65536, 1000)[(k // 16) % 2], gate=("duplex", "lib-first")[(k // 32) % 2],
                 order=("rw", "wr")[(k // 64) % 2])


def job_cfgs(job: dict) -> list[tuple[dict, int]]:
    """-> [(cfg, bound)]"""
    kind = job["kind"]
    if kind == "explore":
        return [(c, job["bound"]) for c in job["cfgs"]]
    scripts = all_scripts()
    if kind == "matrix":
        out = []
        idx = 0
        for ls in scripts:
            for ps in scripts:
                idx += 1
                if idx % job["parts"] != job["part"]:
                    continue
                if job["tier"] == "quick":
                    if idx % 8 != (idx // 155) % 8:
                        continue  # quick: one pair in 8, on shifted diagonals (every script occurs on both sides)
                    out.append((dict(matrix_cfg(idx, ls, ps), delivery="default"), 0))
                else:
                    for rot in range(4):
                        out.append((dict(matrix_cfg(idx, ls, ps, rot), delivery="default"), 0))
        return out
    if kind == "band":
        out = []
        idx = 0
        for i, ls in enumerate(scripts):
            for d in (0, 7, 31, 77, 101, 139):
                idx += 1
                if idx % job["parts"] != job["part"]:
                    continue
                ps = scripts[(i + d) % len(scripts)]
                if sum(ls) + sum(ps) > 100000:
                    continue
                out.append((matrix_cfg(idx, ls, ps), job["bound"]))
        return out
    if kind == "uniform":
        out = []
        ls, ps = job["pair"]
        for i, (v, r) in enumerate([(v, r) for v in tlsrig.VERSIONS for r in tlsrig.ROLES]):
            for j, (recv, send) in enumerate(VARIANTS):
                if job["n"] < 64 and sum(ls) + sum(ps) > 30000 and j != i:
                    continue  # heavy runs: one variant per version/role, rotated
                out.append((_base("async", v, r, recv, send, ls, ps, delivery=["uniform", job["n"]], bufsize=(65536, 1000)[(i + j) % 2],
                                  order=("rw", "wr")[j % 2]), 0))
        return out
    if kind == "blocking":
        bscripts = [s for s in scripts if all(x in BLOCKING_SIZES for x in s) and len(s) <= 2]
        out = []
        idx = 0
        for p, (ls, ps) in enumerate((a, b) for a in bscripts for b in bscripts):
            for ci, (v, r) in enumerate((v, r) for v in tlsrig.VERSIONS for r in tlsrig.ROLES):
                idx += 1
                if idx % job["parts"] != job["part"]:
                    continue
                recv, send = VARIANTS[(p + ci) % 4]  # every version/role meets every variant (rotation over the pairs)
                out.append((_base("blocking", v, r, recv, send, ls, ps, prog=("send-first", "alternate")[(p // 4 + ci) % 2],
                                  bufsize=(65536, 1000)[(p // 2 + ci // 2) % 2]), job["bound"]))
        return out
    raise ValueError(kind)


MAX_RUNS = 60000


def run_job(job: dict) -> JobResult:
    if job.get("kind") == "duplex":
        from . import c08_duplex
        return c08_duplex.run_job(job)
    res = JobResult()
    guarded: set = set()
    for cfg, bound in job_cfgs(job):
        g = (cfg["kind"], cfg["version"], cfg["role"])
        if g not in guarded:
            guarded.add(g)
            try:
                tlsrig.determinism_guard(*g)
                res.count("length_trace_guard_runs", 2)
            except tlsrig.RigError as exc:
                res.internal.append(str(exc))
                continue
        explore_cfg(cfg, bound, res)
    # complete within the stated deviation bound / script sets only (DESIGN.md section 5): never claimed exhaustive over
    # "all fragmentations x all interleavings"
    res.exhaustive = False
    return res


def explore_cfg(cfg: dict, bound: int, res: JobResult) -> None:
    found: dict[str, tuple[Ctx, dict, str]] = {}
    cls = cfg_class(cfg)

    def check(ctx: Ctx, obs: dict) -> None:
        res.evaluations += 1
        bad = oracle(obs, cfg)
        if bad is None:
            flags = [f for f, on in (("writer-finished-while-reader-parked", obs.get("reader_parked_at_writer_done")),
                                     ("delivery-ended-inside-a-record", obs["mid_record"]), ("bytes-held-back", obs["holds"])) if on]
            res.outcome(f"{cfg['kind']}-ok[{','.join(flags)}]")
        else:
            res.outcome("VIOLATION:" + bad[0].split("/")[-1])
            if bad[0] not in found:
                found[bad[0]] = (ctx, obs, bad[1])
        if any(ctx.choices) or cfg["delivery"] not in ("explore", "default"):
            res.nontrivial.add(digest((cls, obs["leaf_calls"], obs["status"])))
        res.count("relay_deliveries", obs["deliveries"])
        res.count("select_calls", obs["selects"])
        if obs.get("short_sends"):
            res.count("blocking_short_sends_to_kernel", obs["short_sends"])

    if cfg["delivery"] == "explore":
        stats = explore(lambda ctx: run_cfg(ctx, cfg), bound=bound, check=check, max_runs=MAX_RUNS)
        res.transitions += stats["points"]
        if stats["cap_hit"]:
            res.caps.append(f"max_runs={MAX_RUNS} at bound {bound}")
        runs = stats["runs"]
    else:
        ctx = Ctx()
        check(ctx, run_cfg(ctx, cfg))
        if ctx.choices:
            res.internal.append(f"choice point consumed under a fixed delivery policy: {cfg}")
        runs = 1
    for suffix, (ctx, obs, msg) in found.items():
        res.violations.append(Violation(
            f"{cls}/{suffix}",
            f"{cls} lib writes {cfg['lw']} peer writes {cfg['pw']} recv={cfg['recv']}({cfg['bufsize']}) send={cfg['send']} gate={cfg['gate']} "
            f"order={cfg['order']} delivery={cfg['delivery']}: {msg}; choices={list(ctx.choices)}",
            {"cfg": cfg, "choices": list(ctx.choices), "labels": [p[1] for p in ctx.points]},
        ))
    if len(res.samples) < 3 and (cfg["delivery"] != "default"):
        res.samples.append({"config": cls, "library_writes": cfg["lw"], "peer_writes": cfg["pw"], "recv": cfg["recv"], "bufsize": cfg["bufsize"],
                            "send": cfg["send"], "gate": cfg["gate"], "task_order": cfg["order"], "delivery": cfg["delivery"],
                            "deviation_bound": bound, "executions": runs})


def replay(doc: dict) -> tuple[bool, str]:
    rp = doc["replay"]
    if rp.get("kind") == "duplex":
        from . import c08_duplex
        return c08_duplex.replay(doc)
    cfg = rp["cfg"]
    ctx = Ctx(rp["choices"])
    obs = run_cfg(ctx, cfg)
    bad = oracle(obs, cfg)
    lines = [f"cfg={cfg}", f"choices={rp['choices']}", "labels=" + ",".join(p[1] for p in ctx.points)]
    for k in ("status", "phase", "error", "leak", "peer_events", "deliveries", "selects", "unhandled"):
        lines.append(f"  {k}={obs.get(k)!r}")
    lines.append(f"  library read {len(obs['lib_received'])} bytes (peer wrote {len(obs['expected_lib'])}); peer read {len(obs['peer_received'])} bytes "
                 f"(library wrote {len(obs['expected_peer'])})")
    lines.append(f"  leaf calls: {list(obs['leaf_calls'])[:60]}")
    lines.append(f"oracle: {bad}")
    return bad is not None, "\n".join(lines)
