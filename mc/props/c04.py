"""C04 - send_packet writes exactly the packet's bytes and always terminates.

Blocking transports (E3): the real SocketStreamTransport / StreamEndpoint on a FakeSocket whose every send()/sendmsg()
answer is chosen by the explorer (accept all | accept k for EVERY 1 <= k < offered | EAGAIN | EINTR | one ECONNRESET) and
whose writability after EAGAIN is an environment choice (after 0.4 s | after 1.7 s | never); explicit-state: executions
that reach an already expanded state (offered buffers, bytes already on the wire, virtual clock, fault budget) are pruned.
Async (E2): AsyncioTransportStreamSocketAdapter on the real asyncio transport over a FakeSocket with a small pipe.
"""
from __future__ import annotations

import errno
import itertools
import math
from typing import Any

from easynetwork.lowlevel import constants as _constants
from easynetwork.lowlevel.api_sync.endpoints.stream import StreamEndpoint
from easynetwork.lowlevel.api_sync.transports import socket as _sync_socket
from easynetwork.lowlevel.api_sync.transports.socket import SocketStreamTransport
from easynetwork.protocol import StreamProtocol
from easynetwork.serializers.abc import AbstractIncrementalPacketSerializer

from ..core import Ctx, Deadlock, HorizonHit, JobResult, Violation, digest, explore
from ..world import VSelector, World

PROPERTY = "C04"
LEVEL = "model_checking"
RULE = (
    "chunk sequences: ALL sequences of 0..4 chunks with sizes from {0,1,2,5} (thorough: plus all sequences of <= 3 chunks over {0,1,2,3,7} and of 5 chunks over {0,1,2}) - empty chunks in "
    "every position; per send()/sendmsg() call ALL answers (accept all, every partial size, EAGAIN, EINTR, one ECONNRESET) with "
    "no bound on the number of deviations (explicit-state: states = (offered buffers, bytes on the wire, clock, fault budget)); "
    "timeouts {inf, 3.0, 0} x retry_interval {inf, 1.0} x environment {writable after 0.4 / 1.7 / never}; paths: send_all, "
    "send_all_from_iterable via sendmsg, via SC_IOV_MAX<=0 fallback, via no-sendmsg fallback, StreamEndpoint.send_packet, and the "
    "asyncio adapter (send_all / send_all_from_iterable, <= 3 chunks quick, pipe capacities 1/3/64, peer draining or resetting at any loop iteration, then a second send on the same transport); the blocking TLS socket (SSLStreamTransport, TLS 1.2/1.3, client/server) "
    "sending one packet of 40000 / 100000 bytes (thorough also 300000) as one chunk or five chunks with empty ones over a real socketpair with the minimum send buffer, the peer "
    "reading everything / 3000 bytes / nothing at every select() in which the library waits for writability (deviation bound 3 for 40000 bytes, 2 for the larger packets), timeouts {inf, 1.0, 0} x retry {inf, 0.3}; "
    "a chunk generator raising after 0..4 chunks on eight subjects (blocking socket paths, both endpoints, asyncio adapter, async TLS and an endpoint over it) followed by a second send: "
    "nothing of the failed packet may be transmitted after the failure was reported (props/c04_genfail.py); "
    "distinct_nontrivial = distinct (config, final observation) pairs of executions with at least one non-default answer"
)
ASSUMPTIONS = [
    "the state key = offered buffers, bytes on the wire, virtual clock, fault budget AND every float local (remaining timeouts, deadlines, intervals) of every library frame on the call stack; validated by an unmerged run at deviation bound 1",
    "a send() of zero bytes returns 0 (POSIX); an infinite timeout with a peer that never reads again is not enumerated (blocking forever is then legitimate)",
    "async TLS send paths are checked under C08 (transparent stream) with the TLS rig; the blocking TLS socket is driven here (props/c04_tls.py) over a real socketpair with the kernel-minimum send buffer",
]
BOUNDS = {"quick": "<= 4 chunks of sizes {0,1,2,5}; TLS socket: deviation bound 3 (40000 bytes) / 2 (100000)", "thorough": "<= 4 chunks of sizes {0,1,2,5} + <= 3 chunks of sizes {0,1,2,3,7} + 5 chunks of sizes {0,1,2}; TLS socket: deviation bound 3 (40000 bytes) / 2 (100000, 300000)"}

CALL_HORIZON = 300


class ChunkSerializer(AbstractIncrementalPacketSerializer[tuple, tuple]):
    """packet = tuple of chunks; incremental_serialize yields them as they are (empty chunks included)."""

    __slots__ = ()

    def incremental_serialize(self, packet: tuple):
        yield from packet

    def incremental_deserialize(self):
        data = yield
        return (data,), b""


def make_chunks(sizes: tuple[int, ...]) -> list[bytes]:
    return [bytes([65 + i]) * n for i, n in enumerate(sizes)]


# ---------------------------------------------------------------------------------------------------------
# blocking paths


def _library_frame_locals() -> tuple:
    """Float locals (remaining timeouts, deadlines, intervals) of every library frame on the current call stack.

    They are part of the state key: two executions that offer the same buffers at the same instant but carry a different
    remaining timeout (or counter) in a suspended library frame have different futures and must not be merged."""
    import sys

    out = []
    f = sys._getframe(1)
    while f is not None:
        fn = f.f_code.co_filename
        if "easynetwork" in fn and "/verif/" not in fn:
            loc = []
            for k, v in f.f_locals.items():
                # durations / deadlines (floats): byte counters and the buffers themselves are already determined by
                # the offered buffers and the wire, and dead integer locals (the size of the previous partial write)
                # would only multiply the states
                if isinstance(v, float):
                    loc.append((k, round(v, 6) if v == v and abs(v) != math.inf else v))
            out.append((f.f_code.co_name, tuple(sorted(loc, key=repr))))
        f = f.f_back
    return tuple(out)


def run_sync(ctx: Ctx, cfg: dict) -> dict:
    sizes = tuple(cfg["sizes"])
    chunks = make_chunks(sizes)
    expected = b"".join(chunks)
    T = math.inf if cfg["timeout"] is None else cfg["timeout"]
    retry = math.inf if cfg["retry"] is None else cfg["retry"]
    world = World(ctx, horizon=2000)
    world.install_clock()
    sock = world.stream_socket()
    state = {"calls": 0, "reset_used": False, "pending_unblock": False}
    visited: dict = {}

    def policy(s: Any, offered: int) -> Any:
        state["calls"] += 1
        if state["calls"] > CALL_HORIZON:
            raise HorizonHit("send() called more than %d times" % CALL_HORIZON)
        off = s.last_offered
        # with an infinite budget the remaining timeout never changes: the clock is not part of the state
        key = ("send", off, bytes(s.tx.total), round(world.clock, 6) if T != math.inf else None, state["reset_used"], _library_frame_locals())
        # a state repeated within ONE execution with no environment choice in between is a cycle of the library
        # alone (deterministic code, same inputs): livelock.  (Cycles through EAGAIN/EINTR answers are the
        # environment's doing and are simply pruned.)
        if visited.get(key) == len(ctx.choices):
            raise HorizonHit("livelock: same state reached again without any environment choice in between")
        visited[key] = len(ctx.choices)
        ctx.state(key)
        if offered == 0:
            return 0
        alts: list[Any] = [offered] + list(range(1, offered)) + ["EAGAIN", "EINTR"]
        if not state["reset_used"]:
            alts.append("RESET")
        a = alts[ctx.choose(len(alts), "send-answer", costed=cfg.get("costed", False))]
        if a == "EAGAIN":
            s.tx_blocked = True
            return BlockingIOError(errno.EAGAIN, "would block")
        if a == "EINTR":
            return InterruptedError(errno.EINTR, "interrupted")
        if a == "RESET":
            state["reset_used"] = True
            return ConnectionResetError(errno.ECONNRESET, "reset")
        return a

    def env(w: World, sel: Any, timeout: float | None) -> None:
        if sock.tx_blocked and not state["pending_unblock"]:
            # two delays only for short chunk sequences (the clock values they generate multiply the states)
            alts = ([0.4, 1.7] if len(sizes) <= cfg.get("two_delays_upto", 2) else [1.7]) + (["never"] if T != math.inf else [])
            a = alts[ctx.choose(len(alts), "unblock", costed=cfg.get("costed", False))]
            state["pending_unblock"] = True
            if a != "never":
                def unblock() -> None:
                    sock.tx_blocked = False
                    state["pending_unblock"] = False
                w.at(w.clock + a, unblock)

    world.send_policy = policy
    world.env = env
    saved_iov = _constants.SC_IOV_MAX
    saved_supports = _sync_socket._utils.supports_socket_sendmsg
    path = cfg["path"]
    result: tuple
    try:
        if path == "iter_noiov":
            _constants.SC_IOV_MAX = 0  # type: ignore[misc]
        if path == "iter_nosendmsg":
            _sync_socket._utils.supports_socket_sendmsg = lambda s: False  # type: ignore[assignment]
        tr = SocketStreamTransport(sock, retry, selector_factory=lambda: VSelector(world))
        t0 = world.clock
        try:
            if path == "send_all":
                tr.send_all(expected, T)
            elif path == "endpoint":
                ep = StreamEndpoint(tr, StreamProtocol(ChunkSerializer()), max_recv_size=1024)
                ep.send_packet(tuple(chunks), timeout=None if T == math.inf else T)
            else:
                tr.send_all_from_iterable(iter(chunks), T)
            result = ("ok",)
        except TimeoutError:
            result = ("timeout",)
        except OSError as exc:
            result = ("oserror", type(exc).__name__)
        except HorizonHit as exc:
            result = ("spin", str(exc))
        except Deadlock as exc:
            result = ("deadlock", str(exc))
        elapsed = world.clock - t0
    finally:
        _constants.SC_IOV_MAX = saved_iov  # type: ignore[misc]
        _sync_socket._utils.supports_socket_sendmsg = saved_supports  # type: ignore[assignment]
        wire = bytes(sock.tx.total)
        maxwait = world.max_positive_wait
        world.close_all()
        world.restore_clock()
    return {"result": result, "wire": wire, "expected": expected, "elapsed": elapsed, "T": T, "max_positive_wait": maxwait,
            "reset_used": state["reset_used"], "calls": state["calls"]}


def oracle_sync(obs: dict) -> str | None:
    r, wire, exp, T = obs["result"], obs["wire"], obs["expected"], obs["T"]
    if r[0] == "spin":
        return "spin"
    if r[0] == "deadlock":
        return "blocks-forever"
    if r[0] == "ok":
        if wire != exp:
            return "wrong-bytes-on-success"
    else:
        if not exp.startswith(wire):
            return "wire-not-a-prefix"
        if r[0] == "timeout":
            if T == math.inf:
                return "timeout-with-infinite-budget"
            if obs["elapsed"] < T - 1e-9:
                return "timeout-raised-early"
        if r[0] == "oserror" and not obs["reset_used"]:
            return "spurious-oserror"
    if obs["elapsed"] > T + 1e-9:
        return "budget-exceeded"
    if T == 0 and obs["max_positive_wait"] > 0:
        return "zero-timeout-blocked"
    return None


SYNC_PATHS = ("send_all", "iter_sendmsg", "iter_noiov", "iter_nosendmsg", "endpoint")


def chunk_seqs(tier: str) -> list[tuple[int, ...]]:
    out: list[tuple[int, ...]] = []
    for n in range(0, 5):
        out.extend(itertools.product((0, 1, 2, 5), repeat=n))
    if tier != "quick":
        # thorough: the quick set + every sequence of <= 3 chunks over {0,1,2,3,7} + five chunks over {0,1,2} (the state space grows
        # with the byte total: the first complete thorough sweep took 46 minutes with <= 4 chunks over {0,1,2,3,7})
        seen = set(out)
        for n in range(0, 4):
            out.extend(s for s in itertools.product((0, 1, 2, 3, 7), repeat=n) if s not in seen)
        out.extend(itertools.product((0, 1, 2), repeat=5))
    return out


def jobs(tier: str) -> list[dict]:
    out: list[dict] = []
    seqs = chunk_seqs(tier)
    nparts = 16 if tier == "quick" else 64
    for path in SYNC_PATHS:
        for timeout in (None, 3.0, 0):
            for retry in (None, 1.0):
                if timeout == 0 and retry is not None:
                    continue
                for part in range(nparts):
                    out.append({"kind": "sync", "path": path, "timeout": timeout, "retry": retry, "part": part, "parts": nparts, "tier": tier})
    for path in ("send_all", "iter"):
        for cap in (1, 3, 64):
            for part in range(4):
                out.append({"kind": "async", "path": path, "cap": cap, "part": part, "parts": 4, "tier": tier})
    from . import c04_genfail, c04_tls

    out += c04_tls.jobs(tier)
    out += c04_genfail.jobs(tier)
    # the thread-safe client's send_packet(timeout=T) under lock contention (time waited for the send lock belongs to the budget): the
    # send-lock scenarios of the thread harness (props/c12_threads.py), also run under C11 and C12
    from . import c12_threads

    out += [j for j in c12_threads.jobs(tier) if j.get("kind") == "sendlock"]
    return out


def _sync_cfg(job: dict, sizes: tuple[int, ...], costed: bool = False) -> dict:
    return {"path": job["path"], "timeout": job["timeout"], "retry": job["retry"], "sizes": list(sizes), "costed": costed,
            "two_delays_upto": 2 if job["tier"] == "quick" else 3}


def run_sync_job(job: dict, res: JobResult) -> None:
    seqs = chunk_seqs(job["tier"])
    for i, sizes in enumerate(seqs):
        if i % job["parts"] != job["part"]:
            continue
        if job["path"] == "send_all" and 0 in sizes:
            continue  # send_all gets the concatenation: empty chunks are invisible there
        cfg = _sync_cfg(job, sizes)
        found: list[tuple[str, Ctx, dict]] = []

        def check(ctx: Ctx, obs: dict) -> bool:
            res.evaluations += 1
            bad = oracle_sync(obs)
            res.outcome(obs["result"][0] if bad is None else "VIOLATION:" + bad)
            if any(ctx.choices):
                res.nontrivial.add(digest((job["path"], job["timeout"], job["retry"], obs["result"], obs["wire"], round(obs["elapsed"], 3))))
            if bad is not None:
                found.append((bad, ctx, obs))
            return bad is not None

        # (violation_budget: a library that stops deducting waits from the budget makes the state space unbounded; once a violation is in
        # hand the configuration is abandoned after 500 more executions)
        stats = explore(lambda ctx: run_sync(ctx, cfg), bound=10 ** 9, check=check, use_states=True, max_runs=200000, violation_budget=500)
        res.states += stats["states"]
        res.transitions += stats["points"]
        res.evaluations += stats["pruned"]
        if stats["cap_hit"]:
            res.caps.append("max_runs")
        # merge validation: unmerged run, at most one non-default answer
        cfg1 = _sync_cfg(job, sizes, costed=True)

        def check1(ctx: Ctx, obs: dict) -> None:
            res.evaluations += 1
            bad = oracle_sync(obs)
            if bad is not None:
                found.append((bad, ctx, obs))

        explore(lambda ctx: run_sync(ctx, cfg1), bound=1, check=check1)
        res.count("unmerged_validation_runs")
        seen_keys = set()
        for bad, ctx, obs in found:
            key = f"sync/{job['path']}/{bad}"
            if key in seen_keys:
                continue
            seen_keys.add(key)
            res.violations.append(Violation(
                key,
                f"{job['path']} chunks={list(sizes)} timeout={job['timeout']} retry={job['retry']}: {obs['result']} wire={obs['wire']!r} "
                f"expected={obs['expected']!r} elapsed={obs['elapsed']:.3f} choices={ctx.choices}",
                {"kind": "sync", "cfg": cfg if not ctx.points or not ctx.points[0][2] else cfg1, "choices": list(ctx.choices), "labels": [p[1] for p in ctx.points]},
            ))
        if len(res.samples) < 2 and sizes and any(sizes):
            res.samples.append({"kind": "sync", "path": job["path"], "chunks": list(sizes), "timeout": job["timeout"], "retry_interval": job["retry"],
                                "states": stats["states"], "executions": stats["runs"], "pruned": stats["pruned"]})


# ---------------------------------------------------------------------------------------------------------
# asyncio adapter


def run_async(ctx: Ctx, cfg: dict) -> dict:
    import asyncio

    from easynetwork.lowlevel.api_async.backend._asyncio.backend import AsyncIOBackend

    from .. import vloop

    world_peer_reads_all_at_end = True
    sizes = tuple(cfg["sizes"])
    chunks = make_chunks(sizes)
    expected = b"".join(chunks)
    world = World(ctx, horizon=400)
    sock = world.stream_socket(tx_cap=cfg["cap"])
    drained = bytearray()
    st = {"reset": False}

    def env(w: World, sel: Any, timeout: float | None) -> None:
        # the peer may read k bytes before this poll (default: everything, when the loop would otherwise idle)
        q = sock.tx.q
        if not q:
            # nothing to drain: the peer may still reset the connection (before / between sends)
            if not st["reset"] and cfg.get("allow_reset") and ctx.choose(2, "peer-reset-idle", costed=True):
                st["reset"] = True
                sock.tx.error = ConnectionResetError(errno.ECONNRESET, "reset")
                sock.rx.error = ConnectionResetError(errno.ECONNRESET, "reset")
            return
        if timeout == 0:
            alts: list[Any] = ["wait", "all", 1]
        else:
            alts = ["all", 1, 2]
            if not st["reset"] and cfg.get("allow_reset"):
                alts.append("reset")
        a = alts[ctx.choose(len(alts), "peer-drain", costed=True)]
        if a == "wait":
            return
        if a == "reset":
            st["reset"] = True
            sock.tx.error = ConnectionResetError(errno.ECONNRESET, "reset")
            sock.rx.error = ConnectionResetError(errno.ECONNRESET, "reset")
            return
        k = len(q) if a == "all" else min(a, len(q))
        drained.extend(q[:k])
        del q[:k]

    world.env = env
    out: dict = {}

    async def main(loop: Any) -> None:
        backend = AsyncIOBackend()
        tr = await backend.wrap_stream_socket(sock)
        try:
            if cfg["path"] == "send_all":
                await tr.send_all(expected)
            else:
                await tr.send_all_from_iterable(iter(chunks))
            out["result"] = ("ok",)
            out["wire_at_return"] = bytes(sock.tx.total)
            out["buffered_at_return"] = tr._AsyncioTransportStreamSocketAdapter__transport.get_write_buffer_size()
        except OSError as exc:
            out["result"] = ("oserror", type(exc).__name__)
            out["wire_at_return"] = bytes(sock.tx.total)
            out["buffered_at_return"] = 0
        # a second send on the same transport (possibly after the connection was lost)
        for _ in range(2):
            await asyncio.sleep(0)
        before = len(sock.tx.total)
        try:
            if cfg["path"] == "send_all":
                await tr.send_all(b"ZZ")
            else:
                await tr.send_all_from_iterable(iter([b"Z", b"", b"Z"]))
            out["second"] = ("ok", bytes(sock.tx.total[before:]))
        except OSError as exc:
            out["second"] = ("oserror", type(exc).__name__)
        except Exception as exc:  # noqa: BLE001
            out["second"] = ("unexpected", type(exc).__name__ + ": " + str(exc)[:80])

    status, value, loop = vloop.run(world, main)
    if status != "ok":
        out["result"] = (status, repr(value))
        out.setdefault("wire_at_return", bytes(sock.tx.total))
        out.setdefault("buffered_at_return", 0)
    out["expected"] = expected
    out["reset"] = st["reset"]
    return out


def oracle_async(obs: dict) -> str | None:
    sec = obs.get("second")
    if sec is not None:
        if sec[0] == "unexpected":
            return "second-send-raised-" + sec[1].split(":")[0]
        if sec[0] == "ok" and sec[1] != b"ZZ" and not obs["reset"]:
            return "second-send-wrong-bytes"
        if sec[0] == "oserror" and not obs["reset"]:
            return "second-send-spurious-oserror"
    r = obs["result"]
    if r[0] == "ok":
        if obs["wire_at_return"] != obs["expected"]:
            return "wrong-bytes-at-return"
        if obs["buffered_at_return"]:
            return "bytes-still-buffered-at-return"
        return None
    if r[0] == "oserror":
        if not obs["reset"]:
            return "spurious-oserror"
        if not obs["expected"].startswith(obs["wire_at_return"]):
            return "wire-not-a-prefix"
        return None
    return {"deadlock": "blocks-forever", "horizon": "spin"}.get(r[0], "unexpected-" + r[0])


def run_async_job(job: dict, res: JobResult) -> None:
    seqs = chunk_seqs(job["tier"])
    bound = 2 if job["tier"] == "quick" else 3
    for i, sizes in enumerate(seqs):
        if i % job["parts"] != job["part"]:
            continue
        if job["path"] == "send_all" and (0 in sizes or not sizes):
            continue
        if job["tier"] == "quick" and len(sizes) > 3:
            continue
        cfg = {"path": job["path"], "cap": job["cap"], "sizes": list(sizes), "allow_reset": True}
        found: dict[str, tuple[Ctx, dict]] = {}

        def check(ctx: Ctx, obs: dict) -> None:
            res.evaluations += 1
            bad = oracle_async(obs)
            res.outcome("async-" + obs["result"][0] if bad is None else "VIOLATION:" + bad)
            if any(ctx.choices):
                res.nontrivial.add(digest(("async", job["path"], job["cap"], obs["result"], obs["wire_at_return"])))
            if bad is not None and bad not in found:
                found[bad] = (ctx, obs)

        stats = explore(lambda ctx: run_async(ctx, cfg), bound=bound, check=check, max_runs=20000)
        res.transitions += stats["points"]
        if stats["cap_hit"]:
            res.caps.append("async max_runs")
        for bad, (ctx, obs) in found.items():
            res.violations.append(Violation(
                f"async/{job['path']}/{bad}",
                f"asyncio adapter {job['path']} chunks={list(sizes)} pipe capacity={job['cap']}: {obs['result']} wire={obs['wire_at_return']!r} "
                f"expected={obs['expected']!r} buffered={obs['buffered_at_return']} choices={ctx.choices}",
                {"kind": "async", "cfg": cfg, "choices": list(ctx.choices), "labels": [p[1] for p in ctx.points]},
            ))
        if len(res.samples) < 3 and any(sizes):
            res.samples.append({"kind": "async", "path": job["path"], "chunks": list(sizes), "pipe_capacity": job["cap"], "executions": stats["runs"],
                                "deviation_bound": bound})


def run_job(job: dict) -> JobResult:
    if job["kind"] == "tls":
        from . import c04_tls

        return c04_tls.run_job(job)
    if job["kind"] == "genfail":
        from . import c04_genfail

        return c04_genfail.run_job(job)
    if job["kind"] == "sendlock":
        from . import c12_threads

        return c12_threads.run_job(job)
    res = JobResult()
    if job["kind"] == "sync":
        run_sync_job(job, res)
    else:
        run_async_job(job, res)
    return res


def replay(doc: dict) -> tuple[bool, str]:
    rp = doc["replay"]
    if rp.get("part") == "tls":
        from . import c04_tls

        return c04_tls.replay(doc)
    if rp.get("part") == "genfail":
        from . import c04_genfail

        return c04_genfail.replay(doc)
    if rp.get("part") == "threads":
        from . import c12_threads

        return c12_threads.replay(doc)
    ctx = Ctx(rp["choices"])
    if rp["kind"] == "sync":
        obs = run_sync(ctx, rp["cfg"])
        bad = oracle_sync(obs)
    else:
        obs = run_async(ctx, rp["cfg"])
        bad = oracle_async(obs)
    lines = [f"cfg={rp['cfg']}", f"choices={rp['choices']}", "labels=" + ",".join(p[1] for p in ctx.points)]
    lines += [f"  {k}={v!r}" for k, v in obs.items()]
    lines.append(f"oracle: {bad}")
    return bad is not None, "\n".join(lines)
