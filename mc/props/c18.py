"""C18 - server lifecycle operations are safe in every order.

Async part (E2): the real AsyncTCPNetworkServer / AsyncUDPNetworkServer on the virtual loop.  A configuration is a
sequence of lifecycle calls over {S = serve_forever, H = shutdown, C = server_close, K = a client connects and sends one
request}; every call is started as its own task at a loop-iteration boundary chosen by the explorer.
Threads part (E4): the real StandaloneTCPNetworkServer / StandaloneUDPNetworkServer (+ NetworkServerThread) with one real
thread per lifecycle call under the baton scheduler of mc/vthreads.py (preemption bounded).

Oracle: interval reference model of the state machine {NEW, SERVING, STOPPED, CLOSED} - see ``oracle_async`` and
``oracle_threads``; it only uses the return value / exception of each call, its begin / end instants (a logical clock),
``is_serving()`` / ``is_listening()`` and the closed flag of every listener FakeSocket.
"""
from __future__ import annotations

import asyncio
import itertools
import logging
import warnings
from typing import Any

from easynetwork.exceptions import BusyResourceError, ServerAlreadyRunning, ServerClosedError
from easynetwork.lowlevel.api_async.backend._asyncio.backend import AsyncIOBackend
from easynetwork.lowlevel.api_async.backend._asyncio.datagram.listener import DatagramListenerProtocol, DatagramListenerSocketAdapter
from easynetwork.lowlevel.api_async.backend._asyncio.stream.listener import AcceptedSocketFactory, ListenerSocketAdapter
from easynetwork.protocol import DatagramProtocol, StreamProtocol
from easynetwork.serializers.line import StringLineSerializer
from easynetwork.servers.async_tcp import AsyncTCPNetworkServer
from easynetwork.servers.async_udp import AsyncUDPNetworkServer
from easynetwork.servers.handlers import AsyncDatagramRequestHandler, AsyncStreamRequestHandler
from easynetwork.servers.standalone_tcp import StandaloneTCPNetworkServer
from easynetwork.servers.standalone_udp import StandaloneUDPNetworkServer
from easynetwork.servers.threads_helper import NetworkServerThread

from .. import vloop, vthreads
from ..core import Ctx, DivergenceError, HorizonHit, JobResult, Violation, digest, explore
from ..world import World

PROPERTY = "C18"
LEVEL = "exploration"
RULE = (
    "async: every sequence of <= 4 (thorough 5) calls over {serve_forever, shutdown, server_close, client connects + one request} "
    "(<= 2 serve_forever, <= 2 shutdown, <= 2 server_close, <= 1 client) x {TCP, UDP}; each call is its own task started at a "
    "loop-iteration boundary: default = the boundary at which the previous call has completed (serve_forever: is up), costed "
    "deviations = start it at ANY earlier boundary since the previous call was started (incl. the same boundary) or at ANY later "
    "boundary until the loop idles (one deviation per moved call, the position is enumerated freely); deviation bound 2 (thorough 3). "
    "threads: every multiset of <= 3 (thorough 4) calls over {serve_forever, shutdown, server_close} (+ NetworkServerThread "
    "start/join scenarios), one REAL thread per call, with and without a connection waiting in the backlog, scheduled at every "
    "lock / event / condition / select / call_soon_threadsafe point: which thread runs first and every switch at a blocking point "
    "are enumerated freely, preemptions are bounded by 2 (thorough 3). distinct_nontrivial = distinct (configuration, results, "
    "final state) observations among executions with at least one non-default choice"
)
ASSUMPTIONS = [
    "data races on unsynchronised Python state between scheduling points are not explored (threads switch only at lock / event / "
    "condition / select / call_soon_threadsafe / thread start-exit points)",
    "listeners are FakeSockets handed out by an AsyncIOBackend subclass (create_tcp_listeners / create_udp_listeners yield once, "
    "like the real DNS resolution, then build the real ListenerSocketAdapter / DatagramListenerSocketAdapter); bind errors are not enumerated",
    "one listener per server, at most one client, request handlers are plain echo handlers with no service_init work",
    "server_close raising BusyResourceError while a serve_forever is between its start and 'is up' is the documented latitude: then it has no obligations",
    "a shutdown / server_close whose call began before a serve_forever began is not required to stop it (threads: before that serve_forever was up)",
    "asyncio backend only; shutdown(timeout=None) only",
]
BOUNDS = {
    "quick": "async: sequences <= 4 calls, deviation bound 2; threads: <= 3 threads, preemption bound 2",
    "thorough": "async: sequences <= 5 calls, deviation bound 3; threads: <= 4 threads, preemption bound 3 (4 threads: 2)",
}

logging.getLogger("easynetwork").setLevel(logging.CRITICAL + 1)
warnings.simplefilter("ignore", RuntimeWarning)  # "coroutine ... was never awaited" of abandoned executions
warnings.simplefilter("ignore", ResourceWarning)

ASYNC_HORIZON = 800
MAX_STREAK = 60


# ---------------------------------------------------------------------------------------------------------
# shared fixtures


class EchoStream(AsyncStreamRequestHandler):
    async def handle(self, client: Any):
        request = yield
        await client.send_packet(request)


class EchoDatagram(AsyncDatagramRequestHandler):
    async def handle(self, client: Any):
        request = yield
        await client.send_packet(request)


def make_backend(world: World, listeners: list, nlisten: int = 1) -> AsyncIOBackend:
    """The real AsyncIOBackend, except that listeners are built on FakeSockets (same shape as the real methods: one await
    for the address resolution, sockets opened synchronously, UDP endpoints created one after the other)."""

    class Backend(AsyncIOBackend):
        __slots__ = ()

        async def create_tcp_listeners(self, host: Any, port: int, backlog: int, *, reuse_port: bool = False) -> Any:
            await asyncio.sleep(0)  # the real one awaits the address resolution
            socks = []
            for _ in range(nlisten):
                sock = world.listener_socket(local=("127.0.0.1", 50000 + len(listeners)))
                sock.tag = f"listener{len(listeners)}"
                listeners.append(sock)
                socks.append(sock)
            factory = AcceptedSocketFactory()
            return [ListenerSocketAdapter(self, sock, factory) for sock in socks]

        async def create_udp_listeners(self, host: Any, port: int, *, reuse_port: bool = False) -> Any:
            await asyncio.sleep(0)
            loop = asyncio.get_running_loop()
            socks = []
            for _ in range(nlisten):
                sock = world.dgram_socket(peer=None, local=("127.0.0.1", 50000 + len(listeners)))
                sock.tag = f"listener{len(listeners)}"
                listeners.append(sock)
                socks.append(sock)
            made = [await loop.create_datagram_endpoint(lambda: DatagramListenerProtocol(loop=loop), sock=sock) for sock in socks]
            return [DatagramListenerSocketAdapter(self, transport, protocol) for transport, protocol in made]

    return Backend()


class Op:
    __slots__ = ("i", "op", "launch_it", "launch", "b", "e", "up", "result", "snap")

    def __init__(self, i: int, op: str) -> None:
        self.i = i
        self.op = op
        self.launch_it: int | None = None
        self.launch: int | None = None
        self.b: int | None = None  # logical instant at which the call began / ended
        self.e: int | None = None
        self.up: int | None = None  # serve_forever: is_up_event.set()
        self.result: str | None = None
        self.snap: dict = {}

    def doc(self) -> dict:
        return {"i": self.i, "op": self.op, "launch_it": self.launch_it, "b": self.b, "e": self.e, "up": self.up, "result": self.result,
                "snap": self.snap}


class UpEvent:
    def __init__(self, rec: Op, tick: Any, listeners: list, served: set) -> None:
        self.rec = rec
        self.tick = tick
        self.listeners = listeners
        self.served = served

    def set(self) -> None:
        if self.rec.up is None:
            self.rec.up = self.tick()
            self.served.update(s.tag for s in self.listeners if not s.closed_flag)


def _exc_name(exc: BaseException) -> str:
    if isinstance(exc, BusyResourceError):
        return "BusyResourceError"
    if isinstance(exc, ServerAlreadyRunning):
        return "ServerAlreadyRunning"
    if isinstance(exc, ServerClosedError):
        return "ServerClosedError"
    return "exc:" + type(exc).__name__


# ---------------------------------------------------------------------------------------------------------
# async part


def run_async(ctx: Ctx, cfg: dict) -> dict:
    kind = cfg["kind"]
    seq = cfg["ops"]
    world = World(ctx, horizon=ASYNC_HORIZON)
    listeners: list = []
    served: set = set()
    backend = make_backend(world, listeners, cfg.get("nlisten", 1))
    ops = [Op(i, o) for i, o in enumerate(seq)]
    st: dict[str, Any] = {"tick": 0, "next": 0, "streak": 0, "done": None, "loop": None, "server": None, "finished": False, "client": None,
                          "client_state": "none", "tasks": []}

    def tick() -> int:
        st["tick"] += 1
        return st["tick"]

    async def call(rec: Op) -> None:
        server = st["server"]
        rec.b = tick()
        try:
            if rec.op == "S":
                await server.serve_forever(is_up_event=UpEvent(rec, tick, listeners, served))
            elif rec.op == "H":
                await server.shutdown()
            else:
                await server.server_close()
            rec.result = "ok"
        except asyncio.CancelledError:
            rec.result = "cancelled"
            raise
        except Exception as exc:
            rec.result = _exc_name(exc)
        finally:
            if rec.result != "cancelled":
                rec.e = tick()
                rec.snap = {"is_serving": server.is_serving(), "is_listening": server.is_listening(),
                            "listeners_open": [s.tag for s in listeners if not s.closed_flag]}

    def client_act(rec: Op) -> None:
        rec.b = tick()
        open_l = [s for s in listeners if not s.closed_flag]
        if not open_l:
            rec.result = "refused"
            rec.e = tick()
            st["client_state"] = "refused"
            return
        target = open_l[-1]
        if kind == "tcp":
            c = world.stream_socket()
            c.tag = "client"
            c.rx.put(b"hello\n")
            target.accept_q.append(c)
            st["client"] = c
        else:
            target.rxd.append((b"hello", ("127.0.0.1", 40000)))
            st["client"] = target
        rec.result = "sent"
        st["client_state"] = "sent"

    def client_done() -> bool:
        c = st["client"]
        if c is None:
            return True
        if kind == "tcp":
            return bool(c.tx.total) or c.closed_flag
        return bool(c.txd) or c.closed_flag

    def complete(rec: Op) -> bool:
        if rec.op == "K":
            return client_done()
        if rec.op == "S":
            return rec.up is not None or rec.e is not None
        return rec.e is not None

    def launch(rec: Op) -> None:
        loop = st["loop"]
        rec.launch_it = loop.iterations
        rec.launch = tick()
        if rec.op == "K":
            client_act(rec)
        else:
            st["tasks"].append(loop.create_task(call(rec)))
        st["next"] += 1
        st["streak"] = 0

    def env(w: World, sel: Any, timeout: float | None) -> None:
        loop = st["loop"]
        if loop is None or st["finished"]:
            return
        while True:
            j = st["next"]
            idle = timeout != 0 and not loop._ready and not w._ready(sel)
            if j >= len(ops):
                if idle and timeout is None:
                    st["finished"] = True
                    st["done"].set_result(None)
                return
            if idle:
                if timeout is not None:
                    return  # a timer is pending: let the clock reach it first
                launch(ops[j])
                continue
            prev_complete = j == 0 or complete(ops[j - 1])
            if not prev_complete:
                if ctx.choose(2, "early", costed=True):
                    launch(ops[j])
                    continue
                return
            if st["streak"] == 0:
                c = ctx.choose(2, "delay", costed=True)
            elif st["streak"] < MAX_STREAK:
                c = ctx.choose(2, "delay+", costed=False)
            else:
                c = 0
            if c:
                st["streak"] += 1
                return
            launch(ops[j])

    world.env = env
    out: dict[str, Any] = {}

    async def main(loop: Any) -> None:
        if kind == "tcp":
            server = AsyncTCPNetworkServer("127.0.0.1", 0, StreamProtocol(StringLineSerializer()), EchoStream(), backend)
        else:
            server = AsyncUDPNetworkServer("127.0.0.1", 0, DatagramProtocol(StringLineSerializer()), EchoDatagram(), backend)
        st["server"] = server
        st["done"] = loop.create_future()
        st["loop"] = loop
        try:
            await st["done"]
        finally:
            out["final"] = {"is_serving": server.is_serving(), "is_listening": server.is_listening(),
                            "listeners_open": [s.tag for s in listeners if not s.closed_flag], "listeners": len(listeners)}
            c = st["client"]
            if c is not None:
                if kind == "tcp":
                    out["client"] = ("answered" if bytes(c.tx.total) == b"hello\n" else "closed" if c.closed_flag else
                                     "queued" if any(c in (s.accept_q or ()) for s in listeners) else "pending:" + repr(bytes(c.tx.total)))
                else:
                    out["client"] = "answered" if c.txd else "unanswered"
            else:
                out["client"] = st["client_state"]
            for t in st["tasks"]:
                t.cancel()

    status, value, loop = vloop.run(world, main)
    out["status"] = status
    if status == "exc":
        out["status_detail"] = repr(value)
    elif status != "ok":
        out["status_detail"] = str(value)
    out.setdefault("final", {"is_serving": None, "is_listening": None, "listeners_open": [], "listeners": len(listeners)})
    out.setdefault("client", st["client_state"])
    out["ops"] = [o.doc() for o in ops]
    out["iterations"] = loop.iterations
    out["served_listeners"] = sorted(served)
    out["unhandled"] = len(loop.unhandled)
    out["unhandled_detail"] = loop.unhandled[:2]
    return out


INF = 10 ** 9


def _end(o: dict) -> int:
    return INF if o["e"] is None else o["e"]


def oracle_async(obs: dict) -> list[str]:
    """Reference model.  All instants come from one logical clock on one thread, so intervals are exact."""
    bad: list[str] = []
    if obs["status"] in ("deadlock", "horizon"):
        return [obs["status"]]
    if obs["status"] != "ok":
        return ["harness-status-" + obs["status"]]
    ops = [o for o in obs["ops"] if o["b"] is not None]
    S = [o for o in ops if o["op"] == "S"]
    H = [o for o in ops if o["op"] == "H"]
    C = [o for o in ops if o["op"] == "C"]
    final = obs["final"]
    for h in H:
        if h["e"] is None:
            bad.append("shutdown-never-returned")
            continue
        if h["result"] != "ok":
            bad.append("shutdown-raised-" + h["result"])
        for s in S:
            if s["b"] < h["b"] and _end(s) > h["e"]:
                bad.append("shutdown-returned-while-serving")
        later = [s for s in S if s["b"] > h["b"] and _end(s) > h["e"]]
        if h["snap"].get("is_serving") and not later:
            bad.append("is-serving-true-at-shutdown-return")
    for c in C:
        if c["e"] is None:
            bad.append("server-close-never-returned")
            continue
        if c["result"] == "BusyResourceError":
            # latitude: some serve_forever is between its start and 'is up' during the call
            if not any(s["b"] < c["e"] and (s["up"] if s["up"] is not None else _end(s)) > c["b"] for s in S):
                bad.append("server-close-busy-outside-setup-window")
        elif c["result"] != "ok":
            bad.append("server-close-raised-" + c["result"])
        else:
            if c["snap"].get("listeners_open"):
                # distinguish the listener of an activation that was still in flight when server_close ran (it is closed a
                # moment later by the refused serve_forever) from a listener of a server that was up
                inflight = not (set(c["snap"]["listeners_open"]) & set(obs.get("served_listeners", ())))
                bad.append("listener-of-inflight-activation-open-when-server-close-returned" if inflight else "listener-open-when-server-close-returned")
            if c["snap"].get("is_listening"):
                bad.append("is-listening-true-when-server-close-returned")
    closed_ok = [c for c in C if c["result"] == "ok" and c["e"] is not None]
    if closed_ok and (final["listeners_open"] or final["is_listening"]):
        bad.append("listener-open-after-server-close")
    pending = []
    for s in S:
        overlapping = [x for x in S if x is not s and x["b"] < s["b"] and _end(x) > s["b"]]
        r = s["result"]
        if r == "ServerAlreadyRunning":
            if not overlapping:
                bad.append("serve-forever-spurious-ServerAlreadyRunning")
            continue
        if overlapping:
            bad.append("second-serve-forever-not-refused:" + str(r))
            continue
        if r == "ServerClosedError":
            if not any(c["b"] < _end(s) for c in C):
                bad.append("serve-forever-spurious-ServerClosedError")
            continue
        if any(c["e"] < s["b"] for c in closed_ok):
            bad.append("serve-forever-after-close-not-refused:" + str(r))
            continue
        # shutdown() obliges a serve_forever that began before it to stop; server_close() only closes the listeners (a
        # serve_forever with connected clients may go on serving them), so it obliges nothing here
        stoppers = [x for x in H if x["b"] > s["b"]]
        closers = [c for c in closed_ok if c["e"] > s["b"]]
        if r == "ok":
            # returned normally: somebody must have asked for it (a call overlapping this serve_forever)
            if not any(x["b"] < s["e"] and _end(x) > s["b"] for x in H + C):
                bad.append("serve-forever-returned-spontaneously")
            continue
        if r is None:
            pending.append(s)
            if stoppers:
                bad.append("serve-forever-not-stopped")
            elif not closers and (s["up"] is None or not final["is_serving"]):
                bad.append("serve-forever-not-serving")
            continue
        bad.append("serve-forever-raised-" + r)
    if len(pending) > 1:
        bad.append("two-serve-forever-in-progress")
    if not pending and final["is_serving"]:
        bad.append("is-serving-true-with-no-serve-forever")
    return sorted(set(bad))


def _outcome_class(obs: dict) -> str:
    return " ".join(f"{o['op']}:{o['result'] if o['result'] is not None else ('serving' if o['op'] == 'S' and o['b'] is not None else 'pending')}"
                    for o in obs["ops"])


def async_sequences(tier: str) -> list[str]:
    maxlen = 4 if tier == "quick" else 5
    out = []
    for n in range(1, maxlen + 1):
        for t in itertools.product("SHCK", repeat=n):
            s = "".join(t)
            if s.count("S") > 2 or s.count("H") > 2 or s.count("C") > 2 or s.count("K") > 1:
                continue
            out.append(s)
    return out


def run_async_job(job: dict, res: JobResult) -> None:
    bound = job["bound"]
    for seq in job["seqs"]:
        cfg = {"kind": job["kind"], "ops": seq, "nlisten": job["nlisten"]}
        found: dict[str, tuple[Ctx, dict]] = {}
        classes: set = set()

        def check(ctx: Ctx, obs: dict) -> None:
            res.evaluations += 1
            bad = oracle_async(obs)
            oc = _outcome_class(obs)
            for part in oc.split():
                res.outcome("async " + part)
            if obs["unhandled"]:
                res.count("async executions with unhandled loop exceptions")
            res.count("async loop iterations", obs["iterations"])
            classes.add(oc)
            if any(ctx.choices):
                res.nontrivial.add(digest(("async", job["kind"], job["nlisten"], seq, oc, obs["final"], obs["client"])))
            for b in bad:
                res.outcome("VIOLATION async " + b)
                if b not in found or len(ctx.choices) < len(found[b][0].choices):
                    found[b] = (ctx, obs)

        stats = explore(lambda ctx: run_async(ctx, cfg), bound=bound, check=check, max_runs=job.get("max_runs", 60000))
        res.transitions += stats["points"]
        res.count("async configurations")
        res.counters["async max choice points per execution"] = max(res.counters.get("async max choice points per execution", 0), stats["max_depth"])
        if stats["cap_hit"]:
            res.caps.append(f"async max_runs {job['kind']} {seq}")
        for b, (ctx, obs) in found.items():
            if not _replays_identically(lambda c: run_async(c, cfg), ctx.choices, res, f"async/{job['kind']}/{seq}/{job['nlisten']}"):
                continue
            res.violations.append(Violation(
                f"async/{job['kind']}/{b.split(':')[0]}",
                f"Async{job['kind'].upper()}NetworkServer listeners={job['nlisten']} calls={seq} ({_outcome_class(obs)}): {b}; final={obs['final']} choices={ctx.choices}",
                {"part": "async", "cfg": cfg, "choices": list(ctx.choices), "labels": [p[1] for p in ctx.points]},
            ))
        if len(res.samples) < 3 and len(seq) >= 3 and len(classes) > 1:
            res.samples.append({"part": "async", "kind": job["kind"], "calls": seq, "executions": stats["runs"], "deviation_bound": bound,
                                "distinct_outcomes": sorted(classes)[:6]})


def _strip(obs: Any) -> str:
    return digest(obs)


def _replays_identically(run: Any, choices: list[int], res: JobResult, what: str) -> bool:
    """Determinism guard: a counterexample is reported only if two more executions of its schedule agree."""
    try:
        a = run(Ctx(list(choices)))
        b = run(Ctx(list(choices)))
    except DivergenceError as exc:
        res.internal.append(f"{what}: schedule {choices} does not replay: {exc}")
        return False
    if _strip(a) != _strip(b):
        res.internal.append(f"{what}: schedule {choices} is not deterministic")
        return False
    return True


# ---------------------------------------------------------------------------------------------------------
# jobs


def jobs(tier: str) -> list[dict]:
    out: list[dict] = []
    seqs = async_sequences(tier)
    # longest first (they dominate the cost), dealt round-robin into chunks
    seqs.sort(key=lambda s: (-len(s), s))
    nchunks = 12 if tier == "quick" else 60
    for kind in ("tcp", "udp"):
        for nlisten in (1, 2):
            chunks: list[list[str]] = [[] for _ in range(nchunks)]
            for i, s in enumerate(seqs):
                chunks[i % nchunks].append(s)
            for k, ch in enumerate(chunks):
                if ch:
                    # bound = number of calls: every call at every boundary (complete for these sequences)
                    out.append({"part": "async", "kind": kind, "nlisten": nlisten, "seqs": ch, "bound": 5, "tier": tier, "chunk": k})
    return out


def run_job(job: dict) -> JobResult:
    res = JobResult()
    if job["part"] == "async":
        run_async_job(job, res)
    return res


def replay(doc: dict) -> tuple[bool, str]:
    rp = doc["replay"]
    ctx = Ctx(rp["choices"])
    if rp["part"] == "async":
        obs = run_async(ctx, rp["cfg"])
        bad = oracle_async(obs)
    else:
        raise NotImplementedError
    lines = [f"cfg={rp['cfg']}", f"choices={rp['choices']}", "labels=" + ",".join(p[1] for p in ctx.points)]
    for o in obs["ops"]:
        lines.append(f"  call {o}")
    lines += [f"  {k}={v!r}" for k, v in obs.items() if k != "ops"]
    lines.append(f"oracle: {bad}")
    want = doc.get("key", "").split("/")[-1]
    return any(b.split(":")[0] == want for b in bad) if want else bool(bad), "\n".join(lines)
