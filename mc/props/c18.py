"""C18 - server lifecycle operations are safe in every order.

Async part (E2): the real AsyncTCPNetworkServer / AsyncUDPNetworkServer on the virtual loop.  A configuration is a
sequence of lifecycle calls over {S = serve_forever, H = shutdown, C = server_close, K = a client connects and sends one
request}; every call is started as its own task at a loop-iteration boundary chosen by the explorer.
Threads part (E4): the real StandaloneTCPNetworkServer / StandaloneUDPNetworkServer (+ NetworkServerThread) with one real
thread per lifecycle call under the baton scheduler of mc/vthreads.py (preemption bounded).

Oracle: interval reference model of the state machine {NEW, SERVING, STOPPED, CLOSED} - see ``oracle_async`` and
``oracle_threads``; it only uses the return value / exception of each call, its begin / end instants (a logical clock),
``is_serving()`` / ``is_listening()`` and the closed flag of every listener FakeSocket.
"""
from __future__ import annotations

import asyncio
import itertools
import logging
import warnings
from typing import Any

from easynetwork.exceptions import BusyResourceError, ServerAlreadyRunning, ServerClosedError
from easynetwork.lowlevel.api_async.backend._asyncio.backend import AsyncIOBackend
from easynetwork.lowlevel.api_async.backend._asyncio.datagram.listener import DatagramListenerProtocol, DatagramListenerSocketAdapter
from easynetwork.lowlevel.api_async.backend._asyncio.stream.listener import AcceptedSocketFactory, ListenerSocketAdapter
from easynetwork.protocol import DatagramProtocol, StreamProtocol
from easynetwork.serializers.line import StringLineSerializer
from easynetwork.servers.async_tcp import AsyncTCPNetworkServer
from easynetwork.servers.async_udp import AsyncUDPNetworkServer
from easynetwork.servers.handlers import AsyncDatagramRequestHandler, AsyncStreamRequestHandler
from easynetwork.servers.standalone_tcp import StandaloneTCPNetworkServer
from easynetwork.servers.standalone_udp import StandaloneUDPNetworkServer
from easynetwork.servers.threads_helper import NetworkServerThread

from .. import vloop, vthreads
from ..core import Ctx, DivergenceError, HorizonHit, JobResult, Violation, digest, explore
from ..world import World

PROPERTY = "C18"
LEVEL = "exploration"
RULE = (
    "ASYNC (AsyncTCPNetworkServer / AsyncUDPNetworkServer on the virtual loop): every sequence of <= 4 (thorough 5) calls over "
    "{S=serve_forever, H=shutdown, C=server_close, K=a client connects and sends one request} with <= 2 S, <= 2 H, <= 2 C, <= 1 K, "
    "x {TCP, UDP} x {1 listener, 2 listeners (<= 4 calls)}; each call is its own task started at a loop-iteration boundary: default = the boundary at which "
    "the previous call has completed (serve_forever: is up; client: answered), deviations = start it at ANY earlier boundary since "
    "the previous call was started (including the very same boundary) or at ANY later boundary until the loop idles; the deviation "
    "bound equals the number of calls, i.e. EVERY call is tried at EVERY boundary (complete for these sequences). "
    "THREADS (StandaloneTCPNetworkServer / StandaloneUDPNetworkServer, NetworkServerThread): thread sets of 1..3 (thorough 4) REAL "
    "threads, one per call over {S, H, C, N=NetworkServerThread.start()+join()}, with and without a connection/datagram waiting "
    "in the backlog, scheduled by mc/vthreads.py at every lock / event / condition / select / call_soon_threadsafe / thread "
    "start-join-exit point (about 60-90 points per execution): which thread runs first is enumerated freely; every other "
    "non-default decision - a PREEMPTION at any point, or resuming another thread than the canonical one when the running "
    "thread blocks - costs one deviation; bound 2 (thorough: 3 for the one/two-thread sets and for S+H+C, 2 for four threads SSHC / SHHC); "
    "three-thread sets are also run with the opposite default priority (quick: SHC and SSH only). "
    "distinct_nontrivial = distinct (configuration, results of the calls, final state) among executions with a non-default choice"
)
ASSUMPTIONS = [
    "data races on unsynchronised Python state between scheduling points are not explored (threads switch only at lock / event / "
    "condition / select / call_soon_threadsafe / thread start-join-exit points; the GIL makes single container operations atomic)",
    "threads part: a non-default choice of the thread that resumes after the running one blocked is counted in the same budget as "
    "preemptions (only the choice of the first thread is free), so 'bound 2' is weaker than CHESS-style preemption bound 2",
    "listeners are FakeSockets handed out by an AsyncIOBackend subclass whose create_tcp_listeners / create_udp_listeners have the "
    "shape of the real methods (one await for the address resolution, sockets opened synchronously, UDP endpoints created one "
    "after the other with the real loop.create_datagram_endpoint, the real ListenerSocketAdapter / DatagramListenerSocketAdapter); "
    "bind errors are not enumerated",
    "at most one client; echo request handlers with no service_init / service_quit work; the client never disconnects by itself",
    "server_close raising BusyResourceError while a serve_forever is between its start and 'is up' is the documented latitude: "
    "then it has no obligations",
    "server_close is not required to make a running serve_forever return (it keeps serving connected clients); shutdown is",
    "a shutdown whose call began before a serve_forever began is not required to stop it; threads: 'began' = its thread took the bootstrap lock "
    "(state checks passed) - a serve_forever that had begun before shutdown() was called must not come up after that shutdown() returned; "
    "one that was up before must have stopped",
    "asyncio backend only; shutdown(timeout=None) only; the event loop of the standalone servers is the stock asyncio "
    "SelectorEventLoop on the virtual selector, injected with runner_options={'loop_factory': ...}",
]
BOUNDS = {
    "quick": "async: sequences <= 4 calls, every call at every boundary; threads: <= 3 threads, deviation bound 2 (backlog client with 3 threads: SHC/SSH/SCC only)",
    "thorough": "async: sequences <= 5 calls, every call at every boundary; threads: <= 4 threads, deviation bound 3 (<= 2 threads and S+H+C) / 2 (other 3-thread sets, SSHC, SHHC)",
}

logging.getLogger("easynetwork").setLevel(logging.CRITICAL + 1)
warnings.simplefilter("ignore", RuntimeWarning)  # "coroutine ... was never awaited" of abandoned executions
warnings.simplefilter("ignore", ResourceWarning)

ASYNC_HORIZON = 800
MAX_STREAK = 60


# ---------------------------------------------------------------------------------------------------------
# shared fixtures


class EchoStream(AsyncStreamRequestHandler):
    async def handle(self, client: Any):
        request = yield
        await client.send_packet(request)


class EchoDatagram(AsyncDatagramRequestHandler):
    async def handle(self, client: Any):
        request = yield
        await client.send_packet(request)


def socket_fileno(sock: Any) -> int:
    import socket as _s

    return _s.socket.fileno(sock)


def make_backend(world: World, listeners: list, nlisten: int = 1) -> AsyncIOBackend:
    """The real AsyncIOBackend, except that listeners are built on FakeSockets (same shape as the real methods: one await
    for the address resolution, sockets opened synchronously, UDP endpoints created one after the other)."""

    class Backend(AsyncIOBackend):
        __slots__ = ()

        async def create_tcp_listeners(self, host: Any, port: int, backlog: int, *, reuse_port: bool = False) -> Any:
            await asyncio.sleep(0)  # the real one awaits the address resolution
            socks = []
            for _ in range(nlisten):
                sock = world.listener_socket(local=("127.0.0.1", 50000 + len(listeners)))
                sock.tag = f"listener{len(listeners)}"
                sock.wrapped = True
                listeners.append(sock)
                socks.append(sock)
            factory = AcceptedSocketFactory()
            return [ListenerSocketAdapter(self, sock, factory) for sock in socks]

        async def create_udp_listeners(self, host: Any, port: int, *, reuse_port: bool = False) -> Any:
            # the REAL AsyncIOBackend.create_udp_listeners runs (address resolution of a numeric host, then one
            # loop.create_datagram_endpoint per socket); only the function that opens and binds the sockets is replaced
            # (module attribute, harness process only) so that it hands out FakeSockets
            from easynetwork.lowlevel import _utils as _lib_utils

            loop = asyncio.get_running_loop()
            socks: list = []

            def fake_open(infos: Any, **kw: Any) -> list:
                for _ in range(nlisten):
                    sock = world.dgram_socket(peer=None, local=("127.0.0.1", 50000 + len(listeners)))
                    sock.tag = f"listener{len(listeners)}"
                    sock.wrapped = False
                    listeners.append(sock)
                    socks.append(sock)
                return list(socks)

            saved = _lib_utils.open_listener_sockets_from_getaddrinfo_result
            _lib_utils.open_listener_sockets_from_getaddrinfo_result = fake_open  # type: ignore[assignment]
            try:
                return await AsyncIOBackend.create_udp_listeners(self, host, port, reuse_port=reuse_port)
            finally:
                _lib_utils.open_listener_sockets_from_getaddrinfo_result = saved  # type: ignore[assignment]
                wrapped_fds = set(getattr(loop, "_transports", {}).keys())
                for sock in socks:
                    try:
                        sock.wrapped = sock.closed_flag or socket_fileno(sock) in wrapped_fds
                    except Exception:
                        sock.wrapped = True

    return Backend()


class Op:
    __slots__ = ("i", "op", "launch_it", "launch", "b", "e", "up", "result", "snap", "committed")

    def __init__(self, i: int, op: str) -> None:
        self.i = i
        self.op = op
        self.launch_it: int | None = None
        self.launch: int | None = None
        self.b: int | None = None  # logical instant at which the call began / ended
        self.e: int | None = None
        self.up: int | None = None  # serve_forever: is_up_event.set()
        self.committed: int | None = None  # threads: serve_forever took the bootstrap lock (it passed its state checks: the run has begun)
        self.result: str | None = None
        self.snap: dict = {}

    def doc(self) -> dict:
        return {"i": self.i, "op": self.op, "launch_it": self.launch_it, "b": self.b, "e": self.e, "up": self.up, "result": self.result,
                "snap": dict(self.snap), "committed": self.committed}


class UpEvent:
    """is_up_event of serve_forever: records the instant and which listeners the server says it is bound to."""

    def __init__(self, rec: Op, tick: Any, served: set, addresses: Any) -> None:
        self.rec = rec
        self.tick = tick
        self.served = served
        self.addresses = addresses

    def set(self) -> None:
        if self.rec.up is None:
            self.rec.up = self.tick()
            try:
                self.served.update(f"listener{a.port - 50000}" for a in self.addresses())
            except Exception:  # noqa: BLE001 - observation only
                pass


def _exc_name(exc: BaseException) -> str:
    if isinstance(exc, BusyResourceError):
        return "BusyResourceError"
    if isinstance(exc, ServerAlreadyRunning):
        return "ServerAlreadyRunning"
    if isinstance(exc, ServerClosedError):
        return "ServerClosedError"
    return "exc:" + type(exc).__name__


# ---------------------------------------------------------------------------------------------------------
# async part


def run_async(ctx: Ctx, cfg: dict) -> dict:
    kind = cfg["kind"]
    seq = cfg["ops"]
    world = World(ctx, horizon=ASYNC_HORIZON)
    listeners: list = []
    served: set = set()
    backend = make_backend(world, listeners, cfg.get("nlisten", 1))
    ops = [Op(i, o) for i, o in enumerate(seq)]
    st: dict[str, Any] = {"tick": 0, "next": 0, "streak": 0, "done": None, "loop": None, "server": None, "finished": False, "client": None,
                          "client_state": "none", "tasks": []}

    def tick() -> int:
        st["tick"] += 1
        return st["tick"]

    async def call(rec: Op) -> None:
        server = st["server"]
        rec.b = tick()
        try:
            if rec.op == "S":
                await server.serve_forever(is_up_event=UpEvent(rec, tick, served, server.get_addresses))
            elif rec.op == "H":
                await server.shutdown()
            else:
                await server.server_close()
            rec.result = "ok"
        except asyncio.CancelledError:
            rec.result = "cancelled"
            raise
        except Exception as exc:
            rec.result = _exc_name(exc)
        finally:
            if rec.result != "cancelled":
                rec.e = tick()
                rec.snap = {"is_serving": server.is_serving(), "is_listening": server.is_listening(),
                            "listeners_open": [s.tag for s in listeners if not s.closed_flag]}

    def client_act(rec: Op) -> None:
        rec.b = tick()
        open_l = [s for s in listeners if not s.closed_flag]
        if not open_l:
            rec.result = "refused"
            rec.e = tick()
            st["client_state"] = "refused"
            return
        target = open_l[-1]
        if kind == "tcp":
            c = world.stream_socket()
            c.tag = "client"
            c.rx.put(b"hello\n")
            target.accept_q.append(c)
            st["client"] = c
        else:
            target.rxd.append((b"hello", ("127.0.0.1", 40000)))
            st["client"] = target
        rec.result = "sent"
        st["client_state"] = "sent"

    def client_done() -> bool:
        c = st["client"]
        if c is None:
            return True
        if kind == "tcp":
            return bool(c.tx.total) or c.closed_flag
        return bool(c.txd) or c.closed_flag

    def complete(rec: Op) -> bool:
        if rec.op == "K":
            return client_done()
        if rec.op == "S":
            return rec.up is not None or rec.e is not None
        return rec.e is not None

    def launch(rec: Op) -> None:
        loop = st["loop"]
        rec.launch_it = loop.iterations
        rec.launch = tick()
        if rec.op == "K":
            client_act(rec)
        else:
            st["tasks"].append(loop.create_task(call(rec)))
        st["next"] += 1
        st["streak"] = 0

    def env(w: World, sel: Any, timeout: float | None) -> None:
        loop = st["loop"]
        if loop is None or st["finished"]:
            return
        while True:
            j = st["next"]
            idle = timeout != 0 and not loop._ready and not w._ready(sel)
            if j >= len(ops):
                if idle and timeout is None:
                    st["finished"] = True
                    st["done"].set_result(None)
                return
            if idle:
                if timeout is not None:
                    return  # a timer is pending: let the clock reach it first
                launch(ops[j])
                continue
            prev_complete = j == 0 or complete(ops[j - 1])
            if not prev_complete:
                if ctx.choose(2, "early", costed=True):
                    launch(ops[j])
                    continue
                return
            if st["streak"] == 0:
                c = ctx.choose(2, "delay", costed=True)
            elif st["streak"] < MAX_STREAK:
                c = ctx.choose(2, "delay+", costed=False)
            else:
                c = 0
            if c:
                st["streak"] += 1
                return
            launch(ops[j])

    world.env = env
    out: dict[str, Any] = {}

    async def main(loop: Any) -> None:
        if kind == "tcp":
            server = AsyncTCPNetworkServer("127.0.0.1", 0, StreamProtocol(StringLineSerializer()), EchoStream(), backend)
        else:
            server = AsyncUDPNetworkServer("127.0.0.1", 0, DatagramProtocol(StringLineSerializer()), EchoDatagram(), backend)
        st["server"] = server
        st["done"] = loop.create_future()
        st["loop"] = loop
        try:
            await st["done"]
        finally:
            out["final"] = {"is_serving": server.is_serving(), "is_listening": server.is_listening(),
                            "listeners_open": [s.tag for s in listeners if not s.closed_flag], "listeners": len(listeners)}
            c = st["client"]
            if c is not None:
                if kind == "tcp":
                    out["client"] = ("answered" if bytes(c.tx.total) == b"hello\n" else "closed" if c.closed_flag else
                                     "queued" if any(c in (s.accept_q or ()) for s in listeners) else "pending:" + repr(bytes(c.tx.total)))
                else:
                    out["client"] = "answered" if c.txd else "unanswered"
            else:
                out["client"] = st["client_state"]
            for t in st["tasks"]:
                t.cancel()

    status, value, loop = vloop.run(world, main)
    out["status"] = status
    if status == "exc":
        out["status_detail"] = repr(value)
    elif status != "ok":
        out["status_detail"] = str(value)
    out.setdefault("final", {"is_serving": None, "is_listening": None, "listeners_open": [], "listeners": len(listeners)})
    out.setdefault("client", st["client_state"])
    out["ops"] = [o.doc() for o in ops]
    out["iterations"] = loop.iterations
    out["served_listeners"] = sorted(served)
    out["unwrapped_listeners"] = sorted(s.tag for s in listeners if not s.wrapped)
    out["unhandled"] = len(loop.unhandled)
    out["unhandled_detail"] = loop.unhandled[:2]
    return out


INF = 10 ** 9


def _end(o: dict) -> int:
    return INF if o["e"] is None else o["e"]


def oracle_async(obs: dict) -> list[str]:
    """Reference model.  All instants come from one logical clock on one thread, so intervals are exact."""
    bad: list[str] = []
    if obs["status"] in ("deadlock", "horizon"):
        return [obs["status"]]
    if obs["status"] != "ok":
        return ["harness-status-" + obs["status"]]
    ops = [o for o in obs["ops"] if o["b"] is not None]
    S = [o for o in ops if o["op"] == "S"]
    H = [o for o in ops if o["op"] == "H"]
    C = [o for o in ops if o["op"] == "C"]
    final = obs["final"]
    for h in H:
        if h["e"] is None:
            bad.append("shutdown-never-returned")
            continue
        if h["result"] != "ok":
            bad.append("shutdown-raised-" + h["result"])
        for s in S:
            if s["b"] < h["b"] and _end(s) > h["e"]:
                bad.append("shutdown-returned-while-serving")
        later = [s for s in S if s["b"] > h["b"] and _end(s) > h["e"]]
        if h["snap"].get("is_serving") and not later:
            bad.append("is-serving-true-at-shutdown-return")
    for c in C:
        if c["e"] is None:
            bad.append("server-close-never-returned")
            continue
        if c["result"] == "BusyResourceError":
            # latitude: some serve_forever is between its start and 'is up' during the call
            if not any(s["b"] < c["e"] and (s["up"] if s["up"] is not None else _end(s)) > c["b"] for s in S):
                bad.append("server-close-busy-outside-setup-window")
        elif c["result"] != "ok":
            bad.append("server-close-raised-" + c["result"])
        else:
            if c["snap"].get("listeners_open"):
                # distinguish the listener of an activation that was still in flight when server_close ran (it is closed a
                # moment later by the refused serve_forever) from a listener of a server that was up
                bad.append(_open_listener_symptom(obs, c["snap"]["listeners_open"], False) + "-when-server-close-returned")
            if c["snap"].get("is_listening"):
                bad.append("is-listening-true-when-server-close-returned")
    closed_ok = [c for c in C if c["result"] == "ok" and c["e"] is not None]
    if closed_ok and final["listeners_open"]:
        bad.append(_open_listener_symptom(obs, final["listeners_open"], True) + "-at-the-end-after-server-close")
    if closed_ok and final["is_listening"]:
        bad.append("is-listening-true-at-the-end-after-server-close")
    pending = []
    for s in S:
        overlapping = [x for x in S if x is not s and x["b"] < s["b"] and _end(x) > s["b"]]
        r = s["result"]
        if r == "ServerAlreadyRunning":
            if not overlapping:
                bad.append("serve-forever-spurious-ServerAlreadyRunning")
            continue
        if overlapping:
            bad.append("second-serve-forever-not-refused:" + str(r))
            continue
        if r == "ServerClosedError":
            if not any(c["b"] < _end(s) for c in C):
                bad.append("serve-forever-spurious-ServerClosedError")
            continue
        if any(c["e"] < s["b"] for c in closed_ok):
            bad.append("serve-forever-after-close-not-refused:" + str(r))
            continue
        # shutdown() obliges a serve_forever that began before it to stop; server_close() only closes the listeners (a
        # serve_forever with connected clients may go on serving them), so it obliges nothing here
        stoppers = [x for x in H if x["b"] > s["b"]]
        closers = [c for c in closed_ok if c["e"] > s["b"]]
        if r == "ok":
            # returned normally: somebody must have asked for it (a call overlapping this serve_forever)
            if not any(x["b"] < s["e"] and _end(x) > s["b"] for x in H + C):
                bad.append("serve-forever-returned-spontaneously")
            continue
        if r is None:
            pending.append(s)
            if stoppers:
                bad.append("serve-forever-not-stopped")
            elif not closers and (s["up"] is None or not final["is_serving"]):
                bad.append("serve-forever-not-serving")
            continue
        bad.append("serve-forever-raised-" + r)
    if len(pending) > 1:
        bad.append("two-serve-forever-in-progress")
    if not pending and final["is_serving"]:
        bad.append("is-serving-true-with-no-serve-forever")
    return sorted(set(bad))


def _open_listener_symptom(obs: dict, open_tags: list, at_end: bool) -> str:
    """Which kind of listener socket is still open: one a server was up with (serious), or one opened by an activation
    (serve_forever -> server_activate -> create_*_listeners) that server_close / shutdown cancelled half-way."""
    if set(open_tags) & set(obs.get("served_listeners", ())):
        return "listener-open"
    if not at_end:
        return "listener-of-inflight-activation-open"
    if set(open_tags) <= set(obs.get("unwrapped_listeners", ())):
        return "unwrapped-socket-of-cancelled-activation-leaked"
    return "wrapped-listener-of-cancelled-activation-leaked"


def _outcome_class(obs: dict) -> str:
    return " ".join(f"{o['op']}:{o['result'] if o['result'] is not None else ('serving' if o['op'] == 'S' and o['b'] is not None else 'pending')}"
                    for o in obs["ops"])


def async_sequences(tier: str) -> list[str]:
    maxlen = 4 if tier == "quick" else 5
    out = []
    for n in range(1, maxlen + 1):
        for t in itertools.product("SHCK", repeat=n):
            s = "".join(t)
            if s.count("S") > 2 or s.count("H") > 2 or s.count("C") > 2 or s.count("K") > 1:
                continue
            out.append(s)
    return out


def run_async_job(job: dict, res: JobResult) -> None:
    bound = job["bound"]
    for seq in job["seqs"]:
        cfg = {"kind": job["kind"], "ops": seq, "nlisten": job["nlisten"]}
        found: dict[str, tuple[Ctx, dict]] = {}
        classes: set = set()

        def check(ctx: Ctx, obs: dict) -> None:
            res.evaluations += 1
            bad = oracle_async(obs)
            oc = _outcome_class(obs)
            for part in oc.split():
                res.outcome("async " + part)
            if obs["unhandled"]:
                res.count("async executions with unhandled loop exceptions")
            res.count("async loop iterations", obs["iterations"])
            res.count("async executions")
            classes.add(oc)
            if any(ctx.choices):
                res.nontrivial.add(digest(("async", job["kind"], job["nlisten"], seq, oc, obs["final"], obs["client"])))
            for b in bad:
                res.outcome("VIOLATION async " + b)
                if b not in found or len(ctx.choices) < len(found[b][0].choices):
                    found[b] = (ctx, obs)

        stats = explore(lambda ctx: run_async(ctx, cfg), bound=bound, check=check, max_runs=job.get("max_runs", 60000))
        res.transitions += stats["points"]
        res.count("async configurations")
        if stats["cap_hit"]:
            res.caps.append(f"async max_runs {job['kind']} {seq}")
        for b, (ctx, obs) in found.items():
            if not _replays_identically(lambda c: run_async(c, cfg), ctx.choices, res, f"async/{job['kind']}/{seq}/{job['nlisten']}"):
                continue
            res.violations.append(Violation(
                f"async/{job['kind']}/{b.split(':')[0]}",
                f"Async{job['kind'].upper()}NetworkServer listeners={job['nlisten']} calls={seq} ({_outcome_class(obs)}): {b}; final={obs['final']} choices={ctx.choices}",
                {"part": "async", "cfg": cfg, "choices": list(ctx.choices), "labels": [p[1] for p in ctx.points]},
            ))
        if job["chunk"] == 0 and job["nlisten"] == 1 and not res.samples and len(seq) >= 3 and len(classes) > 1:
            res.samples.append({"part": "async", "kind": job["kind"], "calls": seq, "executions": stats["runs"], "deviation_bound": bound,
                                "distinct_outcomes": sorted(classes)[:6]})


def _strip(obs: Any) -> str:
    return digest(obs)


def _replays_identically(run: Any, choices: list[int], res: JobResult, what: str) -> bool:
    """Determinism guard: a counterexample is reported only if two more executions of its schedule agree."""
    try:
        a = run(Ctx(list(choices)))
        b = run(Ctx(list(choices)))
    except DivergenceError as exc:
        res.internal.append(f"{what}: schedule {choices} does not replay: {exc}")
        return False
    if _strip(a) != _strip(b):
        res.internal.append(f"{what}: schedule {choices} is not deterministic")
        return False
    return True


# ---------------------------------------------------------------------------------------------------------
# threads part


THREAD_HORIZON = 6000


def run_threads(ctx: Ctx, cfg: dict, trace: bool = False) -> dict:
    """One execution: one REAL thread per call of cfg['ops'] on a Standalone*NetworkServer under the baton scheduler.
    'N' = NetworkServerThread(server).start() then .join() (which shuts the server down)."""
    if vthreads.tainted():
        raise vthreads.HarnessHang("an earlier execution left a thread behind: " + vthreads.tainted()[0])
    kind = cfg["kind"]
    world = World(ctx, horizon=THREAD_HORIZON)
    sched = vthreads.Scheduler(ctx, world, horizon=THREAD_HORIZON, costed_switches=bool(cfg.get("costed_switches")))
    sched.keep_trace = trace
    listeners: list = []
    served: set = set()
    ops = [Op(i, o) for i, o in enumerate(cfg["ops"])]
    st = {"tick": 0}
    loops: dict[int, Any] = {}  # op index -> event loop created by that serve_forever

    def tick() -> int:
        st["tick"] += 1
        return st["tick"]

    class Backend(AsyncIOBackend):
        __slots__ = ()

        async def create_tcp_listeners(self, host: Any, port: int, backlog: int, *, reuse_port: bool = False) -> Any:
            await asyncio.sleep(0)
            sock = world.listener_socket(local=("127.0.0.1", 50000 + len(listeners)))
            sock.tag = f"listener{len(listeners)}"
            sock.wrapped = True
            sock.loop = asyncio.get_running_loop()
            listeners.append(sock)
            if cfg.get("client"):
                c = world.stream_socket()
                c.tag = "client"
                c.rx.put(b"hello\n")
                sock.accept_q.append(c)
            return [ListenerSocketAdapter(self, sock, AcceptedSocketFactory())]

        async def create_udp_listeners(self, host: Any, port: int, *, reuse_port: bool = False) -> Any:
            await asyncio.sleep(0)
            loop = asyncio.get_running_loop()
            sock = world.dgram_socket(peer=None, local=("127.0.0.1", 50000 + len(listeners)))
            sock.tag = f"listener{len(listeners)}"
            sock.wrapped = False
            sock.loop = loop
            listeners.append(sock)
            if cfg.get("client"):
                sock.rxd.append((b"hello", ("127.0.0.1", 40000)))
            transport, protocol = await loop.create_datagram_endpoint(lambda: DatagramListenerProtocol(loop=loop), sock=sock)
            sock.wrapped = True
            return [DatagramListenerSocketAdapter(self, transport, protocol)]

    class Up:
        """is_up_event: runs in the loop thread of the serve_forever it belongs to."""

        def __init__(self, rec: Op) -> None:
            self.rec = rec

        def set(self) -> None:
            if self.rec.up is None:
                self.rec.up = tick()
                loop = loops.get(self.rec.i)
                served.update(s.tag for s in listeners if not s.closed_flag and s.wrapped and s.loop is loop)

    cur_rec: dict[int, Op] = {}  # VThread index -> op being executed by that thread

    def loop_factory() -> Any:
        loop = sched.loop_factory()
        th = sched.current_thread()
        rec = cur_rec.get(th.index) if th is not None else None
        if rec is not None:
            loops[rec.i] = loop
        return loop

    def snap() -> dict:
        return {"listeners_open": [s.tag for s in listeners if not s.closed_flag],
                "loops_running": sorted(i for i, lp in loops.items() if lp.is_running())}

    out: dict[str, Any] = {}
    with vthreads.installed(sched):
        backend = Backend()
        if kind == "tcp":
            server: Any = StandaloneTCPNetworkServer("127.0.0.1", 0, StreamProtocol(StringLineSerializer()), EchoStream(), backend,
                                                     runner_options={"loop_factory": loop_factory})
        else:
            server = StandaloneUDPNetworkServer("127.0.0.1", 0, DatagramProtocol(StringLineSerializer()), EchoDatagram(), backend,
                                                runner_options={"loop_factory": loop_factory})

        # the commit point of a serve_forever(): the instant its thread takes the bootstrap lock (state checks passed, the run has begun)
        class RecRLock(vthreads.CRLock):
            def acquire(self, blocking: bool = True, timeout: float = -1) -> bool:
                got = super().acquire(blocking, timeout)
                th = sched.current_thread()
                rec = cur_rec.get(th.index) if th is not None else None
                if got and rec is not None and rec.op in ("S", "N") and rec.committed is None and rec.result is None:
                    rec.committed = tick()
                return got

            __enter__ = acquire

        fsl = server._BaseStandaloneNetworkServerImpl__bootstrap_lock
        if not isinstance(fsl.get(), vthreads.CRLock):
            raise RuntimeError("the bootstrap lock is not the controlled RLock the harness expects")
        fsl._ForkSafeLock__unsafe_lock = RecRLock()

        def body(rec: Op) -> Any:
            def f() -> None:
                th = sched.current_thread()
                cur_rec[th.index] = rec
                rec.b = tick()
                try:
                    if rec.op == "S":
                        server.serve_forever(is_up_event=Up(rec))
                    elif rec.op == "H":
                        server.shutdown()
                    elif rec.op == "C":
                        server.server_close()
                    elif rec.op == "N":
                        inner = Op(100 + rec.i, "S")
                        nst = NetworkServerThread(server)
                        # the helper thread runs serve_forever: make its loop attributable to this call
                        orig_run = nst.run

                        def run_wrapper() -> None:
                            t2 = sched.current_thread()
                            cur_rec[t2.index] = rec
                            orig_run()

                        nst.run = run_wrapper  # type: ignore[method-assign]
                        nst.start()
                        rec.up = tick()
                        rec.snap["up_listeners_open"] = [s.tag for s in listeners if not s.closed_flag]
                        if nst.is_alive():
                            lp = loops.get(rec.i)
                            served.update(s.tag for s in listeners if not s.closed_flag and s.wrapped and s.loop is lp)
                        nst.join()
                        rec.snap["alive_after_join"] = nst.is_alive()
                        del inner
                    rec.result = "ok"
                except Exception as exc:  # noqa: BLE001 - the oracle decides
                    rec.result = _exc_name(exc)
                rec.e = tick()
                rec.snap.update(snap())
                if rec.op == "H" and rec.result == "ok":
                    # public API, from the thread that called shutdown(), right after it returned
                    rec.snap["is_serving"] = server.is_serving()
                    rec.snap["e2"] = tick()

            return f

        for rec in ops:
            sched.spawn(body(rec), f"{rec.op}{rec.i}")
        status = sched.run()
        out["status"] = status
        out["ops"] = [o.doc() for o in ops]  # before the deterministic continuation
        out["parked"] = [(t.name, t.parked_kind) for t in sched.threads if not t.done]
        out["quiescent"] = snap()
        # a NetworkServerThread whose serve_forever is refused dies with that exception (threading.excepthook in real
        # life): that is the documented behaviour of the refused call, not a fault of its own
        out["thread_exc"] = [(t.name, type(t.exc).__name__, str(t.exc)[:200]) for t in sched.threads if t.exc is not None
                             and not (t.index >= len(ops) and isinstance(t.exc, (ServerClosedError, ServerAlreadyRunning)))]
        out["helper_thread_exc"] = [type(t.exc).__name__ for t in sched.threads[len(ops):] if t.exc is not None]
        out["steps"] = sched.steps
        out["preemptions"] = sched.preemptions
        out["free_switches"] = sched.free_switches
        out["fair_yields"] = sched.fair_yields
        # deterministic continuation: whatever is still serving legitimately must be stoppable
        fin: dict[str, Any] = {}

        def cleanup() -> None:
            fin["is_serving_before"] = server.is_serving()
            server.shutdown()
            fin["shutdown"] = "ok"
            server.server_close()
            fin["close"] = "ok"

        if status == "deadlock" and all(k == "select" for _n, k in out["parked"]):
            sched.spawn(cleanup, "cleanup")
            out["cleanup_status"] = sched.run(explore=False)
        elif status == "ok":
            sched.spawn(cleanup, "cleanup")
            out["cleanup_status"] = sched.run(explore=False)
        else:
            out["cleanup_status"] = "skipped"
        out["cleanup"] = fin
        out["final"] = snap()
        out["steps_total"] = sched.steps
        if trace:
            out["trace"] = [f"{sched.threads[i].name}:{k}" for i, k in sched.trace]
    world.close_all()
    out["served_listeners"] = sorted(served)
    out["unwrapped_listeners"] = sorted(s.tag for s in listeners if not s.wrapped)
    out["listeners"] = len(listeners)
    return out


def oracle_threads(obs: dict) -> list[str]:
    """Reference model for concurrent calls.  Instants come from one logical clock (exactly one thread runs at a time), so
    'call x began before call y ended' is exact; the oracle only claims what holds for EVERY linearisation of overlapping
    calls (a call that overlaps a serve_forever's start-up may or may not affect it)."""
    bad: list[str] = []
    status = obs["status"]
    if status == "horizon":
        return ["horizon"]
    if obs["thread_exc"]:
        return ["thread-died-" + obs["thread_exc"][0][1]]
    ops = obs["ops"]
    S = [o for o in ops if o["op"] == "S" and o["b"] is not None]
    H = [o for o in ops if o["op"] == "H" and o["b"] is not None]
    C = [o for o in ops if o["op"] == "C" and o["b"] is not None]
    N = [o for o in ops if o["op"] == "N" and o["b"] is not None]
    if status == "deadlock":
        for name, k in obs["parked"]:
            if name[0] == "H":
                bad.append("shutdown-never-returned")
            elif name[0] == "C":
                bad.append("server-close-never-returned")
            elif name[0] == "N":
                bad.append("server-thread-start-or-join-never-returned")
            elif k != "select":
                bad.append("serve-forever-blocked-outside-its-loop")
        if bad:
            return sorted(set(bad))
    for o in ops:
        if o["b"] is None:
            bad.append("thread-never-ran")
    for h in H:
        if h["e"] is None:
            continue
        if h["result"] != "ok":
            bad.append("shutdown-raised-" + str(h["result"]))
            continue
        # every serve_forever that was up before shutdown() was called: its event loop must have stopped
        for s in S:
            if s["up"] is not None and s["up"] < h["b"] and s["i"] in h["snap"]["loops_running"]:
                bad.append("shutdown-returned-while-serving")
        # a serve_forever that had passed its state checks (holds the bootstrap lock) before shutdown() was called is stopped by it
        # as well: it must not come up after this shutdown() returned (shutdown waits on that lock until the run can be stopped)
        for s in S + N:
            if s.get("committed") is not None and s["committed"] < h["b"] and s["result"] in ("ok", None) and s["op"] == "S":
                if s["up"] is not None and s["up"] > h["e"]:
                    bad.append("shutdown-returned-and-the-begun-serve-forever-came-up-afterwards")
        # is_serving() right after: must be false unless some serve_forever may legitimately be (coming) up
        maybe_up = [s for s in S + N if not (s["up"] is not None and s["up"] < h["b"]) and _end(s) > h["e"]]
        if h["snap"].get("is_serving") and not maybe_up:
            bad.append("is-serving-true-after-shutdown-returned")
    for c in C:
        if c["e"] is None:
            continue
        if c["result"] == "BusyResourceError":
            if not any(s["b"] < c["e"] and (s["up"] if s["up"] is not None else _end(s)) > c["b"] for s in S + N):
                bad.append("server-close-busy-outside-setup-window")
            continue
        if c["result"] != "ok":
            bad.append("server-close-raised-" + str(c["result"]))
            continue
        if c["snap"]["listeners_open"]:
            bad.append(_open_listener_symptom(obs, c["snap"]["listeners_open"], False) + "-when-server-close-returned")
    closed_ok = [c for c in C if c["result"] == "ok" and c["e"] is not None]
    if closed_ok and obs["quiescent"]["listeners_open"]:
        bad.append(_open_listener_symptom(obs, obs["quiescent"]["listeners_open"], True) + "-at-the-end-after-server-close")
    pending = []
    for s in S:
        r = s["result"]
        overlapping = [x for x in S + N if x is not s and x["b"] < _end(s) and _end(x) > s["b"]]
        if r == "ServerAlreadyRunning":
            if not overlapping:
                bad.append("serve-forever-spurious-ServerAlreadyRunning")
            continue
        if r == "ServerClosedError":
            if not any(c["b"] < _end(s) for c in C):
                bad.append("serve-forever-spurious-ServerClosedError")
            continue
        if any(c["e"] < s["b"] for c in closed_ok):
            bad.append("serve-forever-after-close-not-refused:" + str(r))
            continue
        # another serve_forever was up before this one was called and nobody asked it to stop before this one returned
        if any(x["up"] is not None and x["up"] < s["b"] and not any(y["b"] < _end(s) for y in H + C + N if y is not x)
               and _end(x) > _end(s) for x in S if x is not s):
            bad.append("second-serve-forever-not-refused:" + str(r))
            continue
        if r == "ok":
            if not any(x["b"] < s["e"] and _end(x) > s["b"] for x in H + C + N):
                bad.append("serve-forever-returned-spontaneously")
            continue
        if r is None:
            pending.append(s)
            if s["up"] is None:
                bad.append("serve-forever-hangs-before-being-up")
            elif any(h["b"] > s["up"] for h in H):
                bad.append("serve-forever-not-stopped-by-shutdown")
            elif not any(c["e"] > s["b"] for c in closed_ok) and not obs["cleanup"].get("is_serving_before"):
                bad.append("serve-forever-not-serving")
            continue
        bad.append("serve-forever-raised-" + r)
    if len(pending) > 1:
        bad.append("two-serve-forever-in-progress")
    for n in N:
        if n["e"] is None:
            continue
        if n["result"] != "ok":
            bad.append("server-thread-raised-" + str(n["result"]))
        if n["snap"].get("alive_after_join"):
            bad.append("server-thread-alive-after-join")
        if n["i"] in n["snap"].get("loops_running", ()):
            bad.append("server-thread-join-returned-while-serving")
    if not bad:
        # the deterministic continuation: shutdown() + server_close() must stop and close whatever is left
        if obs["cleanup_status"] != "ok":
            bad.append("final-shutdown-and-close-" + obs["cleanup_status"])
        elif obs["cleanup"].get("close") != "ok":
            bad.append("final-shutdown-and-close-failed")
        elif obs["final"]["listeners_open"]:
            bad.append(_open_listener_symptom(obs, obs["final"]["listeners_open"], True) + "-after-final-shutdown-and-close")
        elif obs["final"]["loops_running"]:
            bad.append("loop-running-after-final-shutdown-and-close")
    return sorted(set(bad))


def _thread_outcome(obs: dict) -> str:
    return " ".join(f"{o['op']}:{o['result'] if o['result'] is not None else ('serving' if o['up'] is not None else 'pending')}" for o in obs["ops"])


def thread_configs(tier: str) -> list[dict]:
    """Thread sets (creation order = default priority when the running thread blocks; which thread starts is free)."""
    quick = tier == "quick"
    one = ["S", "H", "C", "N"]
    two = ["SS", "SH", "SC", "HC", "NH", "NC", "NS"]
    three = ["SHC", "SSH", "SSC", "SHH", "SCC", "NHC"]
    three_alt = ["CHS", "HSS", "CSS", "HHS", "CCS", "CHN"]  # the same sets with the opposite default priority
    deep = ("SHC", "SSH", "SCC")  # quick: the sets that also get the backlog client
    four = ["SSHC", "SHHC"]
    out = []
    for kind in ("tcp", "udp"):
        for client in (0, 1):
            for m in one + two:
                out.append({"kind": kind, "ops": m, "client": client, "bound": 2 if quick else 3})
            for m in three:
                if quick and client and m not in deep:
                    continue  # quick: the backlog client only with SHC / SSH / SCC
                out.append({"kind": kind, "ops": m, "client": client, "bound": 3 if (not quick and client == 0 and m == "SHC") else 2})
        for m in three_alt:
            if quick and m not in ("CHS", "HSS"):
                continue
            out.append({"kind": kind, "ops": m, "client": 0, "bound": 2})
        if not quick:
            for m in four:
                out.append({"kind": kind, "ops": m, "client": 0, "bound": 2})
    return out


def _children(ctx: Ctx, prefix_len: int, bound: int) -> list[list[int]]:
    """The prefixes explore() would push after running ``ctx`` (same rule), in its order."""
    out = []
    cost = 0
    for i, c in enumerate(ctx.choices):
        n, _label, costed = ctx.points[i]
        if i >= prefix_len and cost + (1 if costed else 0) <= bound:
            for alt in range(1, n):
                out.append(ctx.choices[:i] + [alt])
        if c and costed:
            cost += 1
    return out


def run_threads_job(job: dict, res: JobResult) -> None:
    cfg = {"kind": job["kind"], "ops": job["ops"], "client": job["client"], "costed_switches": 1}
    bound = job["bound"]
    found: dict[str, tuple[Ctx, dict]] = {}
    classes: set = set()
    what = f"threads/{job['kind']}/{job['ops']}/client{job['client']}"

    def check(ctx: Ctx, obs: dict) -> None:
        res.evaluations += 1
        bad = oracle_threads(obs)
        oc = _thread_outcome(obs)
        for part in oc.split():
            res.outcome("threads " + part)
        res.count("threads scheduling points", obs["steps"])
        res.count("threads preemptions", obs["preemptions"])
        res.count("threads free switches", obs["free_switches"])
        if obs["fair_yields"]:
            res.count("threads fairness yields", obs["fair_yields"])
        res.count("threads executions")
        res.count("threads executions with %d threads" % len(job["ops"]))
        classes.add(oc)
        if any(ctx.choices):
            res.nontrivial.add(digest((what, oc, obs["quiescent"], obs["final"])))
        for b in bad:
            res.outcome("VIOLATION threads " + b)
            if b not in found or len(ctx.choices) < len(found[b][0].choices):
                found[b] = (ctx, obs)

    def run(ctx: Ctx) -> dict:
        return run_threads(ctx, cfg)

    try:
        # the job owns the part-th slice of the root's subtrees (the root itself belongs to part 0)
        root = Ctx([], None, bound)
        robs = run(root)
        kids = _children(root, 0, bound)
        mine = [k for j, k in enumerate(kids) if j % job["slices"] == job["slice"]]
        if job["slice"] == 0:
            check(root, robs)
        if mine:
            stats = explore(run, bound=bound, check=check, first_prefixes=mine, max_runs=job.get("max_runs", 400000))
            res.transitions += stats["points"]
            if stats["cap_hit"]:
                res.caps.append(f"threads max_runs {what}")
    except vthreads.HarnessHang as exc:
        res.internal.append(f"{what}: {exc}")
        return
    res.count("threads jobs")
    for b, (ctx, obs) in found.items():
        if not _replays_identically(run, ctx.choices, res, what):
            continue
        res.violations.append(Violation(
            f"threads/{job['kind']}/{b.split(':')[0]}",
            f"Standalone{job['kind'].upper()}NetworkServer threads={job['ops']} backlog-client={job['client']} ({_thread_outcome(obs)}): {b}; "
            f"parked={obs['parked']} quiescent={obs['quiescent']} choices={ctx.choices}",
            {"part": "threads", "cfg": cfg, "choices": list(ctx.choices), "labels": [p[1] for p in ctx.points]},
        ))
    if job["slice"] == 0 and job["ops"] in ("SHC", "NHC") and job["client"] == 0 and not res.samples:
        res.samples.append({"part": "threads", "kind": job["kind"], "threads": job["ops"], "backlog_client": job["client"],
                            "preemption_bound": bound, "outcomes_in_this_slice": sorted(classes)[:6]})


# ---------------------------------------------------------------------------------------------------------
# jobs


def jobs(tier: str) -> list[dict]:
    out: list[dict] = []
    tj: list[dict] = []
    for cfg in thread_configs(tier):
        n = len(cfg["ops"])
        if n == 1:
            parts = 1
        elif n == 2:
            parts = 2 if cfg["bound"] == 2 else 6
        elif n == 3:
            parts = 6 if cfg["bound"] == 2 else 40
        else:
            parts = 24
        for part in range(parts):
            tj.append({"part": "threads", **cfg, "slices": parts, "slice": part, "tier": tier})
    # the longest jobs first: many threads / high bound
    tj.sort(key=lambda j: (-len(j["ops"]), -j["bound"]))
    out.extend(tj)
    seqs = async_sequences(tier)
    # longest first (they dominate the cost), dealt round-robin into chunks
    seqs.sort(key=lambda s: (-len(s), s))
    nchunks = 12 if tier == "quick" else 60
    for kind in ("tcp", "udp"):
        for nlisten in (1, 2):
            chunks: list[list[str]] = [[] for _ in range(nchunks)]
            for i, s in enumerate(q for q in seqs if nlisten == 1 or len(q) <= 4):
                chunks[i % nchunks].append(s)
            for k, ch in enumerate(chunks):
                if ch:
                    # bound = number of calls: every call at every boundary (complete for these sequences)
                    out.append({"part": "async", "kind": kind, "nlisten": nlisten, "seqs": ch, "bound": 5, "tier": tier, "chunk": k})
    return out


def run_job(job: dict) -> JobResult:
    res = JobResult()
    if job["part"] == "async":
        run_async_job(job, res)
    else:
        run_threads_job(job, res)
    return res


def replay(doc: dict) -> tuple[bool, str]:
    rp = doc["replay"]
    ctx = Ctx(rp["choices"])
    if rp["part"] == "async":
        obs = run_async(ctx, rp["cfg"])
        bad = oracle_async(obs)
    else:
        obs = run_threads(ctx, rp["cfg"], trace=True)
        bad = oracle_threads(obs)
    lines = [f"cfg={rp['cfg']}", f"choices={rp['choices']}", "labels=" + ",".join(p[1] for p in ctx.points)]
    for o in obs["ops"]:
        lines.append(f"  call {o}")
    lines += [f"  {k}={v!r}" for k, v in obs.items() if k != "ops"]
    lines.append(f"oracle: {bad}")
    want = doc.get("key", "").split("/")[-1]
    return any(b.split(":")[0] == want for b in bad) if want else bool(bad), "\n".join(lines)
