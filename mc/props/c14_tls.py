"""C14, TLS paths: AsyncTLSStreamTransport.aclose() (peer answers close_notify promptly / never => shutdown timeout;
standard_compatible both ways) and AsyncTLSStreamTransport.wrap() (handshake cut at a set of offsets, stalled peer =>
handshake timeout), each with a task.cancel() of the closing / wrapping task placed at every loop-iteration boundary, a
second aclose(), and leaf faults (leaf aclose raises, leaf send fails).  Uses the TLS rig (mc/tlsrig.py)."""
from __future__ import annotations

import asyncio
import errno
from typing import Any

from easynetwork.lowlevel.api_async.backend._asyncio.backend import AsyncIOBackend
from easynetwork.lowlevel.api_async.transports.tls import AsyncTLSStreamTransport

from .. import tlsrig, vloop
from ..core import Ctx, JobResult, Violation, digest, explore
from ..envsched import Chain, Placer
from ..world import World


def scenarios(tier: str) -> list[dict]:
    out: list[dict] = []
    for version in tlsrig.VERSIONS:
        for role in tlsrig.ROLES:
            for std in (True, False):
                for peer in ("answers", "silent"):
                    for fault in ("none", "leaf-close-error", "leaf-send-error"):
                        if tier == "quick" and fault != "none" and (role == "server" or version != tlsrig.VERSIONS[0]):
                            continue
                        out.append({"path": "tls-aclose", "version": version, "role": role, "std": std, "peer": peer, "fault": fault})
                    # the same close while ANOTHER task is parked in recv() on the transport (a server closing a client whose
                    # handler awaits the next request)
                    out.append({"path": "tls-aclose", "version": version, "role": role, "std": std, "peer": peer, "fault": "none", "reader": True})
                    # ... and while another task is blocked inside send_all() (the wrapped transport does not take its bytes: the peer stopped
                    # reading) holding the transport's send lock, which the close needs for its close_notify
                    if peer == "silent" or tier != "quick":
                        out.append({"path": "tls-aclose", "version": version, "role": role, "std": std, "peer": peer, "fault": "none", "writer": True})
            # wrap: cut after k bytes of the peer's handshake stream / stalled peer
            cuts = (0, 1, 5, 6, 100) if tier == "quick" else (0, 1, 4, 5, 6, 50, 100, 200, 500, 900)
            for cut in cuts:
                out.append({"path": "tls-wrap", "version": version, "role": role, "cut": cut})
            out.append({"path": "tls-wrap", "version": version, "role": role, "cut": None, "stall": True})
            out.append({"path": "tls-wrap", "version": version, "role": role, "cut": None})
    return out


def run(ctx: Ctx, cfg: dict) -> dict:
    world = World(ctx, horizon=3000)
    version, role = cfg["version"], cfg["role"]
    st: dict[str, Any] = {"ready": False, "task": None, "second": None, "cancel_applied": False, "started": False}
    out: dict[str, Any] = {}
    if cfg["path"] == "tls-aclose":
        relay = tlsrig.make_peer_and_relay(version, role, script=[], auto_reply_close=(cfg["peer"] == "answers"))
    else:
        relay = tlsrig.make_peer_and_relay(version, role, script=[], cut=cfg.get("cut"), cut_when="reached")
        if cfg.get("stall"):
            relay.policy = _HoldPeerOutput()

    def do_cancel() -> None:
        t = st["task"]
        if t is not None and not t.done():
            st["cancel_applied"] = True
            t.cancel()

    def do_second() -> None:
        if st.get("tls") is not None:
            st["second"] = asyncio.get_event_loop().create_task(st["tls"].aclose())

    cancel_chain = Chain("cancel", [("X", do_cancel)])
    chains = [cancel_chain]
    second_chain = None
    if cfg["path"] == "tls-aclose":
        second_chain = Chain("second", [("S", do_second)])
        chains.append(second_chain)
    placer = Placer(ctx, chains, gate=lambda: st["ready"], max_busy_points=60)
    world.env_pending = placer.pending

    def env(w: World, sel: Any, timeout: float | None) -> None:
        relay.env(w, sel, timeout)
        cancel_chain.hold = not st["started"]
        if second_chain is not None:
            second_chain.hold = not st["started"]
        placer(w, sel, timeout)

    world.env = env

    async def main(loop: Any) -> None:
        backend = AsyncIOBackend()
        kw: dict[str, Any] = {}
        if cfg.get("fault") == "leaf-close-error":
            kw["close_error"] = OSError(errno.EIO, "close failed")
        leaf = (_BlockedSendLeaf if cfg.get("writer") else tlsrig.MemTransport)(backend, **kw)
        relay.link = tlsrig.AsyncLink(relay, leaf)
        out["leaf"] = leaf
        lib_ctx = tlsrig.lib_context(version, role)

        async def do_wrap() -> Any:
            return await AsyncTLSStreamTransport.wrap(leaf, lib_ctx, server_side=(role == "server"), server_hostname=tlsrig.HOSTNAME if role == "client" else None,
                                                      standard_compatible=cfg.get("std", True))

        if cfg["path"] == "tls-wrap":
            async def first() -> Any:
                st["started"] = True
                return await do_wrap()

            t = loop.create_task(first())
            st["task"] = t
            st["ready"] = True
            await asyncio.wait([t])
            st["ready"] = False
            if t.cancelled():
                out["result"] = "cancelled"
            elif t.exception() is not None:
                out["result"] = "raised:" + type(t.exception()).__name__
            else:
                out["result"] = "returned"
                # a cut at or beyond the end of what the library NEEDS of the peer's handshake output does not have to fail wrap() (the
                # TLS 1.3 server's NewSessionTickets, label "hs-final", are post-handshake messages for a client)
                hs = [sg for sg in relay.segments if sg[0] in ("hs", "hs-final")]
                need = [sg for sg in hs if sg[0] == "hs"] if (version == "1.3" and role == "client") else hs
                out["needed_handshake_bytes"] = need[-1][2] if need else 0
                tls = t.result()
                out["tls_closing"] = tls.is_closing()
                await tls.aclose()
            for _ in range(3):
                await asyncio.sleep(0)
            out["leaf_closed"] = leaf.is_closing()
            return
        tls = await do_wrap()
        st["tls"] = tls
        if cfg.get("fault") == "leaf-send-error":
            leaf.send_error = BrokenPipeError(errno.EPIPE, "broken pipe")

        wtask = None
        if cfg.get("writer"):
            leaf.block_sends = asyncio.Event()

            async def blocked_writer() -> None:
                try:
                    await tls.send_all(b"w" * 100)
                    out["writer"] = ("returned",)
                except asyncio.CancelledError:
                    out["writer"] = ("cancelled",)
                    raise
                except Exception as exc:  # noqa: BLE001
                    out["writer"] = ("raised", type(exc).__name__)

            wtask = loop.create_task(blocked_writer())
            for _ in range(3):
                await asyncio.sleep(0)
        rtask = None
        if cfg.get("reader"):
            async def parked_reader() -> None:
                try:
                    out["reader"] = ("returned", len(await tls.recv(100)))
                except asyncio.CancelledError:
                    out["reader"] = ("cancelled",)
                    raise
                except Exception as exc:  # noqa: BLE001
                    out["reader"] = ("raised", type(exc).__name__)

            rtask = loop.create_task(parked_reader())
            for _ in range(3):
                await asyncio.sleep(0)

        async def first_close() -> None:
            st["started"] = True
            await tls.aclose()

        t = loop.create_task(first_close())
        st["task"] = t
        st["ready"] = True
        await asyncio.wait([t])
        st["ready"] = False
        out["result"] = "cancelled" if t.cancelled() else ("raised:" + type(t.exception()).__name__ if t.exception() else "returned")
        out["elapsed"] = round(world.clock, 3)
        if st["second"] is not None:
            for _ in range(3):
                if st["second"].done():
                    break
                await asyncio.sleep(0)
            out["second_done"] = st["second"].done()
            if not st["second"].done():
                st["second"].cancel()
        for _ in range(3):
            await asyncio.sleep(0)
        if wtask is not None:
            for _ in range(5):
                if wtask.done():
                    break
                await asyncio.sleep(0)
            out["writer_released"] = wtask.done()
            if not wtask.done():
                wtask.cancel()
        out["leaf_closed"] = leaf.is_closing()
        out["is_closing"] = tls.is_closing()
        t0 = world.clock
        third = loop.create_task(tls.aclose())
        for _ in range(3):
            if third.done():
                break
            await asyncio.sleep(0)
        out["third_done"] = third.done()
        out["third_time"] = round(world.clock - t0, 6)
        if not third.done():
            third.cancel()
        if rtask is not None:
            for _ in range(3):
                if rtask.done():
                    break
                await asyncio.sleep(0)
            out["reader_done"] = rtask.done()
            if not rtask.done():
                rtask.cancel()
        relay.drain()
        out["peer_saw_close_notify"] = bool(relay.peer.saw_close_notify)

    status, value, loop = vloop.run(world, main)
    out.pop("leaf", None)
    out["status"] = status
    out["value"] = repr(value)[:160] if status != "ok" else None
    out["cancel_applied"] = st["cancel_applied"]
    out["second_started"] = st["second"] is not None
    out["trace"] = placer.trace
    tlsrig.gc_tick()
    return out


class _BlockedSendLeaf(tlsrig.MemTransport):
    """send_all() blocks (the peer stopped reading) until the transport is closed, then fails like a closed transport."""

    block_sends: Any = None

    async def send_all(self, data: Any) -> None:
        if self.block_sends is not None and not self._closing:
            await self.block_sends.wait()
        await super().send_all(data)

    async def aclose(self) -> None:
        if self.block_sends is not None:
            self.block_sends.set()
        await super().aclose()


class _HoldPeerOutput:
    """The peer never answers: everything it would send is held back (stalled handshake)."""

    def decide(self, direction: str, avail: int, rem: int | None, can_hold: bool) -> int:
        return 0 if direction == "to_lib" else avail


def oracle(cfg: dict, obs: dict) -> str | None:
    if obs["status"] in ("deadlock", "horizon"):
        return "never-finishes"
    if obs["status"] != "ok":
        return "unexpected-exception"
    r = obs.get("result", "")
    if obs.get("writer_released") is False:
        return "blocked-writer-not-released-by-the-close"
    if cfg["path"] == "tls-wrap":
        if r != "returned" and not obs.get("leaf_closed"):
            return "failed-or-cancelled-handshake-leaves-wrapped-transport-open"
        if r == "cancelled" and not obs["cancel_applied"]:
            return "cancelled-without-cancel-request"
        if r == "returned" and ((cfg.get("cut") is not None and cfg["cut"] < obs.get("needed_handshake_bytes", 0)) or cfg.get("stall")) and not obs["cancel_applied"]:
            return "handshake-succeeded-on-a-cut-stream"
        if r == "returned" and not obs.get("leaf_closed"):
            return "wrapped-transport-left-open-after-close"
        return None
    if not obs.get("leaf_closed"):
        return "wrapped-transport-left-open"
    if not obs.get("is_closing"):
        return "is_closing-false-after-close"
    if r.startswith("raised:"):
        injected = cfg.get("fault") in ("leaf-close-error", "leaf-send-error")
        if not injected or r not in ("raised:OSError", "raised:BrokenPipeError"):
            return "close-raised-unexpected-" + r[7:]
    if r == "cancelled" and not obs["cancel_applied"]:
        return "cancelled-without-cancel-request"
    # "closing the transport sends a close notification" (standard-compatible mode): an undisturbed close must have put it
    # on the wire - also when another task is parked in recv()
    # (not with a blocked writer: the wrapped transport takes no bytes at all, the close can only give up after its shutdown timeout)
    if cfg.get("std") and r == "returned" and not obs["cancel_applied"] and cfg.get("fault") == "none" and not obs.get("second_started") and not cfg.get("writer"):
        if not obs.get("peer_saw_close_notify"):
            return "close-did-not-send-close_notify"
    if cfg.get("reader") and obs.get("reader_done") is False:
        return "parked-reader-left-pending-after-close"
    if obs.get("second_started") and obs.get("second_done") is False:
        return "second-close-does-not-return"
    if not obs.get("third_done") or obs.get("third_time", 0) > 1e-3:
        return "later-close-does-not-return-promptly"
    return None


def jobs(tier: str) -> list[dict]:
    tlsrig.ensure_cert()
    return [{"part": "tls", "scenario": s, "tier": tier} for s in scenarios(tier)]


def run_job(job: dict) -> JobResult:
    res = JobResult()
    cfg = job["scenario"]
    bound = 2 if job["tier"] == "quick" else 3
    found: dict[str, tuple[Ctx, dict]] = {}

    def check(ctx: Ctx, obs: dict) -> None:
        res.evaluations += 1
        bad = oracle(cfg, obs)
        res.outcome(f"{cfg['path']}-{obs.get('result', obs['status'])}" if bad is None else "VIOLATION:" + bad)
        shape = tuple((k, n) for _s, k, n in obs["trace"])
        res.nontrivial.add(digest((tuple(sorted(cfg.items(), key=str)), obs.get("result"), obs["status"], shape)))
        if bad is not None and (bad not in found or len(ctx.choices) < len(found[bad][0].choices)):
            found[bad] = (ctx, obs)

    stats = explore(lambda ctx: run(ctx, cfg), bound=bound, check=check, max_runs=4000)
    res.transitions += stats["points"]
    if stats["cap_hit"]:
        res.caps.append("tls max_runs")
    for bad, (ctx, obs) in found.items():
        sub = f"{cfg['version']}/{cfg['role']}/" + (f"std={cfg['std']}/peer-{cfg['peer']}/{cfg['fault']}" if cfg["path"] == "tls-aclose" else f"cut={cfg.get('cut')}{'/stall' if cfg.get('stall') else ''}")
        res.violations.append(Violation(
            f"{cfg['path']}/{sub}/{bad}",
            f"{cfg}: {obs.get('result')} leaf_closed={obs.get('leaf_closed')} is_closing={obs.get('is_closing')} second_done={obs.get('second_done')} "
            f"third_done={obs.get('third_done')} status={obs['status']} {obs['value']} schedule={obs['trace']} choices={ctx.choices}",
            {"part": "tls", "cfg": cfg, "choices": list(ctx.choices)},
        ))
    res.samples.append({"scenario": cfg, "executions": stats["runs"], "busy_placement_bound": bound})
    return res


def replay(doc: dict) -> tuple[bool, str]:
    rp = doc["replay"]
    ctx = Ctx(rp["choices"])
    obs = run(ctx, rp["cfg"])
    bad = oracle(rp["cfg"], obs)
    return bad is not None, f"cfg={rp['cfg']}\nchoices={rp['choices']}\n" + "\n".join(f"  {k}={v!r}" for k, v in obs.items()) + f"\noracle: {bad}"
