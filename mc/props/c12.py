"""C12 - concurrent senders never interleave packets.

(1) AsyncTCPNetworkClient.send_packet from 2..3 tasks (1..2 packets each, every packet serialised as THREE chunks) over a
    FakeSocket with a tiny pipe, the peer draining k bytes at explorer-chosen loop-iteration boundaries;
(2) the raw AsyncStreamEndpoint (no lock, ResourceGuard): the loser gets BusyResourceError, the winners' packets stay intact;
(3) FairLock: explicit-state BFS to a fixpoint over {acquire by task i, release, cancel waiter i} with 3 tasks on the real
    object: mutual exclusion, FIFO hand-off, no lost wake-up;
(4) threads: TCPNetworkClient / UDPNetworkClient.send_packet from 2 threads under the baton scheduler with partial writes
    (see run_threads; preemption-bounded).
"""
from __future__ import annotations

import asyncio
import collections
import itertools
import re
from typing import Any

from easynetwork.clients.async_tcp import AsyncTCPNetworkClient
from easynetwork.exceptions import BusyResourceError
from easynetwork.lowlevel.api_async.backend._asyncio.backend import AsyncIOBackend
from easynetwork.lowlevel.api_async.backend._common.fair_lock import FairLock
from easynetwork.lowlevel.api_async.endpoints.stream import AsyncStreamEndpoint
from easynetwork.protocol import StreamProtocol
from easynetwork.serializers.abc import AbstractIncrementalPacketSerializer

from .. import vloop
from ..core import Ctx, JobResult, Violation, digest, explore
from ..envsched import Chain, Placer
from ..world import World

PROPERTY = "C12"
LEVEL = "exploration"
RULE = (
    "(1) AsyncTCPNetworkClient and the server-side client object of a running AsyncTCPNetworkServer (send_packet from tasks other than the handler's): senders x packets in {2x1, 2x2, 3x1} with packets '<' + tag*len + '>\\n' produced as three chunks; pipe capacity {1, 3, 8}; "
    "the peer drains 1 / 3 / all bytes per step, each step placed at any loop-iteration boundary (busy placements = costed deviations, "
    "bound 3 quick / 5 thorough); (2) raw endpoint, two concurrent send_packet; (3) BFS to fixpoint over the real FairLock with 3 tasks (arrive, release, release-and-re-acquire back to back inside the hand-off window, cancel a waiter); "
    "(4) two threads on the blocking TCP/UDP clients under the baton scheduler, preemption bound 2; distinct_nontrivial = distinct "
    "(scenario, order of packets on the wire, placement shape)"
)
ASSUMPTIONS = [
    "the reference decoder splits the wire at '\\n' and requires every frame to be '<', one repeated tag letter of the right length, '>'",
    "the async TLS transport is driven directly (props/c12_tls.py: two senders + a parked reader over a leaf that suspends inside send_all)",
]
BOUNDS = {"quick": "busy-placement bound 3", "thorough": "busy-placement bound 5"}


class TriSerializer(AbstractIncrementalPacketSerializer[str, str]):
    __slots__ = ()

    def incremental_serialize(self, packet: str):
        yield b"<"
        yield packet.encode()
        yield b">\n"

    def incremental_deserialize(self):
        data = yield
        while b"\n" not in data:
            data += yield
        line, _, rest = data.partition(b"\n")
        return line[1:-1].decode(), rest


FRAME = re.compile(rb"^<([A-Z])\1*>$")


def decode_wire(wire: bytes) -> list[str] | None:
    if not wire:
        return []
    if not wire.endswith(b"\n"):
        return None
    out = []
    for fr in wire[:-1].split(b"\n"):
        if not FRAME.match(fr):
            return None
        out.append(fr[1:-1].decode())
    return out


SCENARIOS = {"2x1": [["AAA"], ["BB"]], "2x2": [["AAA", "AAAAA"], ["BB", "BBBB"]], "3x1": [["AAA"], ["BB"], ["CCCC"]]}


def run_client(ctx: Ctx, cfg: dict) -> dict:
    plan: list[list[str]] = SCENARIOS[cfg["scenario"]]
    total = sum(len(p) + 3 for s in plan for p in s)
    world = World(ctx, horizon=1500)
    sock = world.stream_socket(tx_cap=cfg["cap"])
    st: dict[str, Any] = {"ready": False}

    def read(k: int | None):
        def act() -> None:
            q = sock.tx.q
            n = len(q) if k is None else min(k, len(q))
            del q[:n]
        return act

    k = {"all": None, "1": 1, "3": 3}[cfg["drain"]]
    events = [(f"r{i}", read(k)) for i in range(total + 3)]
    placer = Placer(ctx, [Chain("peer", events)], gate=lambda: st["ready"], max_busy_points=cfg.get("max_busy", 24)).install(world)
    results: list[list[str]] = [[] for _ in plan]

    async def main(loop: Any) -> None:
        backend = AsyncIOBackend()
        server = None
        if cfg["subject"] == "client":
            subj: Any = AsyncTCPNetworkClient(sock, StreamProtocol(TriSerializer()), backend)
            await subj.wait_connected()
        elif cfg["subject"] == "srvclient":
            # the server-side client object of the real AsyncTCPNetworkServer: send_packet from several tasks that are not the handler's
            from easynetwork.servers.async_tcp import AsyncTCPNetworkServer
            from easynetwork.servers.handlers import AsyncStreamRequestHandler

            from ..srvrig import RigBackend, quiet_logger

            connected: dict[str, Any] = {}

            class Handler(AsyncStreamRequestHandler):
                async def on_connection(self, client: Any) -> None:
                    connected["client"] = client

                async def handle(self, client: Any) -> Any:
                    while True:
                        yield

            rb = RigBackend(world)
            server = AsyncTCPNetworkServer(None, 0, StreamProtocol(TriSerializer()), Handler(), backend=rb, logger=quiet_logger())
            srv_task = loop.create_task(server.serve_forever())
            for _ in range(50):
                if server.is_serving():
                    break
                await asyncio.sleep(0)
            rb.tcp_listener_socks[0].accept_q.append(sock)
            for _ in range(50):
                if "client" in connected:
                    break
                await asyncio.sleep(0.001)
            subj = connected["client"]
        else:
            tr = await backend.wrap_stream_socket(sock)
            subj = AsyncStreamEndpoint(tr, StreamProtocol(TriSerializer()), max_recv_size=64)

        async def sender(i: int) -> None:
            for p in plan[i]:
                try:
                    await subj.send_packet(p)
                    results[i].append("ok")
                except BusyResourceError:
                    results[i].append("busy")
                except OSError as exc:
                    results[i].append("oserror:" + type(exc).__name__)

        tasks = [loop.create_task(sender(i)) for i in range(len(plan))]
        st["ready"] = True
        await asyncio.wait(tasks)
        if server is not None:
            await server.shutdown()
            await asyncio.wait([srv_task])
        for t in tasks:
            if t.exception() is not None:
                raise t.exception()

    status, value, loop = vloop.run(world, main)
    return {"status": status, "value": repr(value) if status != "ok" else None, "wire": bytes(sock.tx.total), "results": results, "trace": placer.trace}


def oracle_client(cfg: dict, obs: dict) -> str | None:
    plan = SCENARIOS[cfg["scenario"]]
    if obs["status"] in ("deadlock", "horizon"):
        return "hang-" + obs["status"]
    if obs["status"] != "ok":
        return "unexpected-exception"
    frames = decode_wire(obs["wire"])
    if frames is None:
        return "packets-interleaved-or-corrupted-on-the-wire"
    sent_ok: list[str] = []
    for i, s in enumerate(plan):
        for p, r in zip(s, obs["results"][i]):
            if r == "ok":
                sent_ok.append(p)
            elif r == "busy" and cfg["subject"] == "endpoint":
                pass
            else:
                return "send-failed" if cfg["subject"] != "endpoint" else "unexpected-result-" + r
        if len(obs["results"][i]) != len(s):
            return "sender-did-not-finish"
    if cfg["subject"] != "endpoint" and collections.Counter(frames) != collections.Counter(p for s in plan for p in s):
        return "wire-is-not-the-multiset-of-sent-packets"
    if cfg["subject"] == "endpoint":
        # packets whose send raised BusyResourceError may be absent or partially absent? no: a refused send writes nothing
        if collections.Counter(frames) != collections.Counter(sent_ok):
            return "wire-differs-from-the-successful-sends"
    for s in plan:
        pos = [frames.index(p) for p in s if p in frames]
        if pos != sorted(pos):
            return "per-sender-order-not-preserved"
    return None


# ---------------------------------------------------------------------------------------------------------
# (3) FairLock BFS


def fl_build(history: tuple[str, ...]) -> dict:
    world = World(Ctx(), horizon=600)
    out: dict[str, Any] = {}

    async def main(loop: Any) -> None:
        backend = AsyncIOBackend()
        lock = FairLock(backend)
        N = 3
        release_ev = [asyncio.Event() for _ in range(N)]
        state = ["idle"] * N  # idle | waiting | holding | done | cancelled
        order: list[int] = []  # acquisition order
        arrivals: list[int] = []
        tasks: list[asyncio.Task | None] = [None] * N
        holders_overlap = {"bad": False}

        again = [False] * N  # set by a "B" event: the holder releases and calls acquire() again at once (back-to-back sends)

        async def body(i: int) -> None:
            while True:
                state[i] = "waiting"
                try:
                    await lock.acquire()
                except asyncio.CancelledError:
                    state[i] = "cancelled"
                    raise
                if any(s == "holding" for s in state):
                    holders_overlap["bad"] = True
                state[i] = "holding"
                order.append(i)
                try:
                    await release_ev[i].wait()
                finally:
                    lock.release()
                    state[i] = "done"
                if not again[i]:
                    return
                # no checkpoint between release() and the next acquire(): the call lands in the hand-off window of the lock
                again[i] = False
                release_ev[i].clear()
                arrivals.append(i)

        async def settle() -> None:
            for _ in range(8):
                await asyncio.sleep(0)

        for ev in history:
            i = int(ev[1])
            if ev[0] == "A":
                arrivals.append(i)
                tasks[i] = loop.create_task(body(i))
            elif ev[0] == "R":
                release_ev[i].set()
            elif ev[0] == "B":
                again[i] = True
                release_ev[i].set()
            elif ev[0] == "X":
                tasks[i].cancel()  # type: ignore[union-attr]
            await settle()
        out["state"] = list(state)
        out["order"] = list(order)
        out["arrivals"] = list(arrivals)
        out["overlap"] = holders_overlap["bad"]
        out["locked"] = lock.locked()
        out["nwaiters"] = len(lock._waiters or ())
        for t in tasks:
            if t is not None:
                t.cancel()

    status, value, _loop = vloop.run(world, main)
    out["status"] = status
    out.setdefault("state", [])
    return out


def fl_enabled(history: tuple[str, ...], st: dict) -> list[str]:
    evs = []
    for i, s in enumerate(st["state"] or ["idle"] * 3):
        if s == "idle" and f"A{i}" not in history:
            evs.append(f"A{i}")
        elif s == "holding":
            evs.append(f"R{i}")
            if f"B{i}" not in history:
                evs.append(f"B{i}")  # release and re-acquire back to back (once per task)
        elif s == "waiting" and f"B{i}" not in history:
            evs.append(f"X{i}")  # (a task that re-arrived back to back is not cancelled: keeps the FIFO reference simple)
    return evs


def fl_invariant(history: tuple[str, ...], st: dict) -> str | None:
    if st["status"] != "ok":
        return "harness-run-" + st["status"]
    s = st["state"]
    if st["overlap"] or s.count("holding") > 1:
        return "two-holders"
    if "waiting" in s and "holding" not in s:
        return "lost-wake-up"
    if ("holding" in s) != st["locked"]:
        return "locked-flag-inconsistent"
    if st["nwaiters"] != s.count("waiting"):
        return "waiter-queue-leak"
    # FIFO: the acquisition order is the arrival order with cancelled-while-waiting tasks removed
    cancelled = {int(e[1]) for e in history if e[0] == "X"}
    expected = [i for i in st["arrivals"] if i not in cancelled or i in st["order"]]
    if st["order"] != expected[: len(st["order"])]:
        return "not-first-come-first-served"
    return None


def run_fairlock(res: JobResult) -> None:
    init = fl_build(())
    canon = lambda st: (tuple(st["state"]), tuple(st["order"]), tuple(st["arrivals"]))  # noqa: E731
    seen = {canon(init): ()}
    frontier: collections.deque = collections.deque([((), init)])
    res.evaluations += 1
    while frontier:
        hist, st = frontier.popleft()
        for ev in fl_enabled(hist, st):
            h2 = hist + (ev,)
            nxt = fl_build(h2)
            res.evaluations += 1
            res.transitions += 1
            bad = fl_invariant(h2, nxt)
            if bad is not None:
                res.outcome("VIOLATION:" + bad)
                if not any(v.key == f"fairlock/{bad}" for v in res.violations):
                    res.violations.append(Violation(f"fairlock/{bad}", f"FairLock history {list(h2)} -> {nxt}", {"part": "fairlock", "history": list(h2)}))
                continue
            res.outcome("fairlock-state-ok")
            c = canon(nxt)
            if c not in seen:
                seen[c] = h2
                frontier.append((h2, nxt))
                res.nontrivial.add(digest(("fairlock", c)))
    res.states += len(seen)
    res.count("fairlock_states", len(seen))
    res.samples.append({"part": "fairlock-bfs", "states": len(seen), "deepest_history": list(max(seen.values(), key=len)), "closed": True})


def jobs(tier: str) -> list[dict]:
    out: list[dict] = [{"part": "fairlock", "tier": tier}]
    for subject in ("client", "endpoint", "srvclient"):
        for scen in SCENARIOS:
            if subject == "endpoint" and scen != "2x1":
                continue
            for cap in (1, 3, 8):
                for drain in ("all", "1", "3"):
                    out.append({"part": "async", "subject": subject, "scenario": scen, "cap": cap, "drain": drain, "tier": tier})
    from . import c12_threads, c12_tls

    out += c12_threads.jobs(tier)
    out += c12_tls.jobs(tier)
    return out


def run_job(job: dict) -> JobResult:
    res = JobResult()
    if job["part"] == "fairlock":
        run_fairlock(res)
        return res
    if job["part"] == "threads":
        from . import c12_threads

        return c12_threads.run_job(job)
    if job["part"] == "tls":
        from . import c12_tls

        return c12_tls.run_job(job)
    cfg = {k: job[k] for k in ("subject", "scenario", "cap", "drain")}
    bound = 3 if job["tier"] == "quick" else 5
    found: dict[str, tuple[Ctx, dict]] = {}

    def check(ctx: Ctx, obs: dict) -> None:
        res.evaluations += 1
        bad = oracle_client(cfg, obs)
        frames = decode_wire(obs["wire"])
        res.outcome(f"{cfg['subject']}-ok" if bad is None else "VIOLATION:" + bad)
        shape = tuple((k, len(n)) for _s, k, n in obs["trace"])
        res.nontrivial.add(digest((tuple(sorted(cfg.items())), tuple(frames or ()), tuple(map(tuple, obs["results"])), shape[:6])))
        if bad is not None and (bad not in found or len(ctx.choices) < len(found[bad][0].choices)):
            found[bad] = (ctx, obs)

    stats = explore(lambda ctx: run_client(ctx, cfg), bound=bound, check=check, max_runs=30000)
    res.transitions += stats["points"]
    if stats["cap_hit"]:
        res.caps.append("max_runs")
    for bad, (ctx, obs) in found.items():
        res.violations.append(Violation(
            f"async/{cfg['subject']}/{bad}",
            f"{cfg}: wire={obs['wire']!r} results={obs['results']} status={obs['status']} {obs['value']} schedule={obs['trace'][:8]} choices={ctx.choices}",
            {"part": "async", "cfg": cfg, "choices": list(ctx.choices)},
        ))
    res.samples.append({"part": "async", **cfg, "executions": stats["runs"], "busy_placement_bound": bound})
    return res


def replay(doc: dict) -> tuple[bool, str]:
    rp = doc["replay"]
    if rp["part"] == "fairlock":
        st = fl_build(tuple(rp["history"]))
        bad = fl_invariant(tuple(rp["history"]), st)
        return bad is not None, f"history={rp['history']}\nstate={st}\ninvariant: {bad}"
    if rp["part"] == "threads":
        from . import c12_threads

        return c12_threads.replay(doc)
    if rp["part"] == "tls":
        from . import c12_tls

        return c12_tls.replay(doc)
    ctx = Ctx(rp["choices"])
    obs = run_client(ctx, rp["cfg"])
    bad = oracle_client(rp["cfg"], obs)
    return bad is not None, f"cfg={rp['cfg']}\nchoices={rp['choices']}\n" + "\n".join(f"  {k}={v!r}" for k, v in obs.items()) + f"\noracle: {bad}"
