"""C10, layer "TLS over the socket adapter": AsyncTLSStreamTransport wrapped around the real asyncio socket adapter on a
FakeSocket, the peer (stdlib SSLObject) writes a short plaintext stream in 1..3 TLS records and closes; receive #1 of the
library runs in its own task and is cancelled at an explorer-chosen select() boundary (directly, through a canceller task,
or through a cancel scope), while the relay delivers the ciphertext whole, fragmented or late (tlsrig.Explore).  Afterwards
the main task keeps receiving until the clean end-of-stream: the concatenation must be exactly the peer's plaintext."""
from __future__ import annotations

import asyncio
import itertools
from typing import Any

from easynetwork.lowlevel.api_async.backend._asyncio.backend import AsyncIOBackend
from easynetwork.lowlevel.api_async.transports.tls import AsyncTLSStreamTransport

from .. import tlsrig, vloop
from ..core import Ctx, JobResult, Violation, digest, explore
from ..world import World

STREAMS = {"short": b"abcdef", "two-records": None}  # "two-records": 17000 bytes in one write = two TLS records
RECVS = ("recv2", "recv64", "into2", "into64")
CANCELLERS = ("task_cancel", "canceller_task", "scope_cancel")


def plaintext(cfg: dict) -> list[bytes]:
    if cfg["stream"] == "two-records":
        return [tlsrig.pattern("peer", 0, 17000)]
    data = STREAMS["short"]
    cuts = [0, *cfg["cuts"], len(data)]
    return [data[a:b] for a, b in zip(cuts, cuts[1:])]


def run(ctx: Ctx, cfg: dict) -> dict:
    version, role = cfg["version"], cfg["role"]
    pw = plaintext(cfg)
    world = World(ctx, horizon=6000)
    relay = tlsrig.make_peer_and_relay(version, role, policy=tlsrig.Explore(ctx), script=[("wait_until", lambda: st["parked"]() or not cfg["gated"])] + [("write", w) for w in pw] + [("unwrap",)])
    sock = world.stream_socket()
    relay.link = tlsrig.FakeSocketLink(relay, sock)
    st: dict[str, Any] = {"r1": None, "cancelled": False, "fire": None, "parked": lambda: False}
    out: dict[str, Any] = {"first": "not-started", "got": b"", "receives": 0}

    def env(w: Any, sel: Any, timeout: float | None) -> None:
        t = st["r1"]
        if t is not None and not t.done() and not st["cancelled"] and st["fire"] is not None:
            if ctx.choose(2, "cancel-receive-1") == 1:
                st["cancelled"] = True
                st["fire"]()
        relay.env(w, sel, timeout)

    world.env = env

    async def main(loop: Any) -> None:
        backend = AsyncIOBackend()
        leaf = await backend.wrap_stream_socket(sock)
        tls = await AsyncTLSStreamTransport.wrap(leaf, tlsrig.lib_context(version, role), server_side=(role == "server"),
                                                 server_hostname=tlsrig.HOSTNAME if role == "client" else None)
        size = int(cfg["recv"].lstrip("recvinto"))
        got = bytearray()

        async def receive() -> bytes:
            if cfg["recv"].startswith("recv"):
                return await tls.recv(size)
            buf = bytearray(size)
            n = await tls.recv_into(buf)
            return bytes(buf[:n])

        scope_box: dict[str, Any] = {}

        async def receive_1() -> bytes | None:
            if cfg["canceller"] == "scope_cancel":
                with backend.open_cancel_scope() as scope:
                    scope_box["scope"] = scope
                    return await receive()
                return None
            return await receive()

        r1 = loop.create_task(receive_1())
        wake = asyncio.Event()

        async def canceller() -> None:
            await wake.wait()
            r1.cancel()

        if cfg["canceller"] == "task_cancel":
            st["fire"] = r1.cancel
        elif cfg["canceller"] == "canceller_task":
            ct = loop.create_task(canceller())
            st["fire"] = wake.set
        else:
            st["fire"] = lambda: scope_box["scope"].cancel() if "scope" in scope_box else r1.cancel()
        st["r1"] = r1
        # gated configurations: the peer writes only once receive #1 is really waiting for ciphertext (or is over)
        st["parked"] = lambda: r1.done() or bool(getattr(leaf, "_AsyncioTransportStreamSocketAdapter__protocol", None) and parked_reader(leaf))
        try:
            d = await r1
        except asyncio.CancelledError:
            if not r1.cancelled():
                raise
            out["first"] = "cancelled"
        else:
            if d is None:
                out["first"] = "cancelled"
            else:
                out["first"] = f"got{len(d)}" if d else "eof"
                got.extend(d)
        if cfg["canceller"] == "canceller_task":
            ct.cancel()
        eof = out["first"] == "eof"
        while not eof:
            d = await receive()
            out["receives"] += 1
            if not d:
                eof = True
            got.extend(d)
            out["got"] = bytes(got)
        out["got"] = bytes(got)
        await tls.aclose()
        relay.drain()

    status, value, loop = vloop.run(world, main)
    out["status"] = status
    out["error"] = None if status == "ok" else repr(value)[:200]
    out["expected"] = b"".join(pw)
    out["cancel_requested"] = st["cancelled"]
    out["deliveries"] = tuple(relay.deliveries)
    tlsrig.gc_tick()
    return out


def parked_reader(leaf: Any) -> bool:
    proto = leaf._AsyncioTransportStreamSocketAdapter__protocol
    waiter = getattr(proto, "_StreamReaderBufferedProtocol__read_waiter", None)
    return waiter is not None and not waiter.done()


def oracle(obs: dict) -> str | None:
    if obs["status"] in ("deadlock", "horizon"):
        return "hang-after-cancelled-receive" if obs["cancel_requested"] else "hang"
    if obs["status"] != "ok":
        return "unexpected-exception"
    if obs["got"] != obs["expected"]:
        exp, got = obs["expected"], obs["got"]
        if len(got) < len(exp):
            return "bytes-lost"
        if len(got) > len(exp):
            return "bytes-duplicated"
        return "bytes-reordered-or-corrupted"
    return None


def jobs(tier: str) -> list[dict]:
    tlsrig.ensure_cert()
    out = []
    for vi, v in enumerate(tlsrig.VERSIONS):
        for ri, r in enumerate(tlsrig.ROLES):
            for ki, recv in enumerate(RECVS):
                for ci, canceller in enumerate(CANCELLERS):
                    if tier == "quick" and (vi + ri + ki + ci) % 2:
                        continue  # quick: half of the (version, role, receive kind, canceller) grid, every value of each dimension kept
                    out.append({"kind": "tls", "version": v, "role": r, "recv": recv, "canceller": canceller, "tier": tier})
    return out


def cfgs_of(job: dict) -> list[dict]:
    n = len(STREAMS["short"])
    cuts: list[tuple[int, ...]] = [(), (2,), (3,), (5,)] + ([(2, 4), (1, 5)] if job["tier"] == "thorough" else [(2, 4)])
    out = []
    for canceller in (job["canceller"],):
        for gated in (True, False):
            for c in (cuts if gated or job["tier"] == "thorough" else cuts[:2]):
                out.append({"version": job["version"], "role": job["role"], "recv": job["recv"], "canceller": canceller, "stream": "short", "cuts": list(c), "gated": gated})
            out.append({"version": job["version"], "role": job["role"], "recv": job["recv"], "canceller": canceller, "stream": "two-records", "cuts": [], "gated": gated})
    return out


def run_job(job: dict) -> JobResult:
    res = JobResult()
    bound = 2 if job["tier"] == "quick" else 3
    for cfg in cfgs_of(job):
        found: dict[str, tuple[Ctx, dict]] = {}

        def check(ctx: Ctx, obs: dict, cfg: dict = cfg, found: dict = found) -> None:
            res.evaluations += 1
            bad = oracle(obs)
            res.outcome(("tls-first-" + ("cancelled" if obs["first"] == "cancelled" else "returned")) if bad is None else "VIOLATION:" + bad)
            if obs["first"] == "cancelled":
                res.nontrivial.add(digest(("tls", cfg["recv"], cfg["canceller"], cfg["gated"], cfg["stream"], tuple(cfg["cuts"]), obs["deliveries"][:8], obs["receives"])))
            if bad is not None and (bad not in found or len(ctx.choices) < len(found[bad][0].choices)):
                found[bad] = (ctx, obs)

        stats = explore(lambda ctx, cfg=cfg: run(ctx, cfg), bound=bound, check=check, max_runs=20000)
        res.transitions += stats["points"]
        if stats["cap_hit"]:
            res.caps.append("tls: max_runs")
        for bad, (ctx, obs) in found.items():
            key = f"tls/{cfg['recv']}/{cfg['canceller']}/{bad}"
            if not any(v.key == key for v in res.violations):
                res.violations.append(Violation(key, f"{cfg}: first={obs['first']} got={obs['got'][:40]!r} ({len(obs['got'])} bytes) expected {len(obs['expected'])} bytes; "
                                                     f"status={obs['status']} {obs['error']} choices={ctx.choices}",
                                                {"kind": "tls", "cfg": cfg, "choices": list(ctx.choices)}))
    res.samples.append({"kind": "tls-over-adapter", "version": job["version"], "role": job["role"], "recv": job["recv"], "canceller": job["canceller"], "deviation_bound": bound})
    return res


def replay(doc: dict) -> tuple[bool, str]:
    rp = doc["replay"]
    ctx = Ctx(rp["choices"])
    obs = run(ctx, rp["cfg"])
    bad = oracle(obs)
    lines = [f"cfg={rp['cfg']}", f"choices={rp['choices']}", "labels=" + ",".join(p[1] for p in ctx.points)]
    lines += [f"  {k}={obs[k]!r}" for k in ("status", "error", "first", "receives", "cancel_requested", "deliveries")]
    lines.append(f"  got {len(obs['got'])} bytes, expected {len(obs['expected'])}: {obs['got'][:40]!r}")
    lines.append(f"oracle: {bad}")
    return bad is not None, "\n".join(lines)
