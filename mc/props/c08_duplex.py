"""C08, full-duplex under back-pressure: the library's writer is blocked inside the wrapped transport's send_all() (the peer does
not read before it has finished its own large write) while the peer's data is waiting to be read by the library's reader task.
A transparent full-duplex stream must let the reader drain the peer's data (which is what unblocks the peer, hence the writer)."""
from __future__ import annotations

import asyncio
from typing import Any

from easynetwork.lowlevel.api_async.backend._asyncio.backend import AsyncIOBackend
from easynetwork.lowlevel.api_async.transports.tls import AsyncTLSStreamTransport

from .. import tlsrig, vloop
from ..core import Ctx, JobResult, Violation, digest
from ..world import World


class GatedLeaf(tlsrig.MemTransport):
    """send_all() of application-phase data completes only once the gate is open (the peer started reading)."""

    gate: asyncio.Event | None = None

    async def send_all(self, data: Any) -> None:
        if self.gate is not None:
            await self.gate.wait()
        await super().send_all(data)


def run(cfg: dict) -> dict:
    world = World(Ctx(), horizon=20000)
    version, role = cfg["version"], cfg["role"]
    npeer, nlib = cfg["peer_bytes"], cfg["lib_bytes"]
    go = {"on": not cfg.get("late_peer")}
    # late_peer: the peer's bulk write only starts once every library task has been started and has run for a few loop turns (the reader
    # is already parked in recv(), the writers already encrypted their data / queued on the send lock when the first peer byte arrives)
    relay = tlsrig.make_peer_and_relay(version, role, script=[("wait_until", lambda: go["on"]), ("write", tlsrig.pattern("peer", 0, npeer))])
    world.env = relay.env
    out: dict[str, Any] = {}

    async def main(loop: Any) -> None:
        leaf = GatedLeaf(AsyncIOBackend())
        relay.link = tlsrig.AsyncLink(relay, leaf)
        tls = await AsyncTLSStreamTransport.wrap(leaf, tlsrig.lib_context(version, role), server_side=(role == "server"),
                                                 server_hostname=tlsrig.HOSTNAME if role == "client" else None)
        leaf.gate = asyncio.Event()  # from now on the peer "does not read": the library's writes are blocked
        got = bytearray()

        async def reader() -> None:
            while len(got) < npeer:
                if cfg["recv"] == "recv":
                    d = await tls.recv(65536)
                else:
                    buf = bytearray(65536)
                    n = await tls.recv_into(buf)
                    d = bytes(buf[:n])
                if not d:
                    break
                got.extend(d)
            leaf.gate.set()  # the peer finished its write (everything was drained by us): it reads now

        async def writer() -> None:
            await tls.send_all(tlsrig.pattern("lib", 0, nlib))

        async def writer2() -> None:
            await tls.send_all(tlsrig.pattern("lib", nlib, 33))

        order = cfg["order"]
        tasks: dict[str, Any] = {}
        for name in order:
            tasks[name] = loop.create_task({"w": writer, "r": reader, "x": writer2}[name]())
            for _ in range(cfg["gap"]):
                await asyncio.sleep(0)
        for _ in range(4):
            await asyncio.sleep(0)
        go["on"] = True
        done, pending = await asyncio.wait(list(tasks.values()), timeout=300.0)
        out["pending"] = sorted(k for k, t in tasks.items() if t in pending)
        for t in pending:
            t.cancel()
        for t in done:
            if t.exception() is not None:
                out["exc"] = repr(t.exception())[:120]
        relay.drain()
        out["got_ok"] = bytes(got) == tlsrig.pattern("peer", 0, npeer)
        out["peer_ok"] = bytes(relay.peer.received) == tlsrig.pattern("lib", 0, nlib + (33 if "x" in order else 0))

    status, value, _loop = vloop.run(world, main)
    tlsrig.gc_tick()
    out["status"] = status
    out["value"] = repr(value)[:120] if status != "ok" else None
    return out


def run_cancelled_waiter(cfg: dict) -> dict:
    """Writer A blocked in the leaf (holding the transport send lock), writer B cancelled while it waits for that lock, then the peer
    reads again and writer C sends: the TLS stream must stay intact - the peer decrypts A, then B entirely or not at all, then C."""
    world = World(Ctx(), horizon=20000)
    version, role = cfg["version"], cfg["role"]
    relay = tlsrig.make_peer_and_relay(version, role, script=[])
    world.env = relay.env
    out: dict[str, Any] = {}
    A, B, C = tlsrig.pattern("lib", 0, cfg["a_bytes"]), b"<<B:" + bytes(range(65, 65 + 20)) + b">>", b"<<C-after-the-cancelled-send>>"

    async def main(loop: Any) -> None:
        leaf = GatedLeaf(AsyncIOBackend())
        relay.link = tlsrig.AsyncLink(relay, leaf)
        tls = await AsyncTLSStreamTransport.wrap(leaf, tlsrig.lib_context(version, role), server_side=(role == "server"),
                                                 server_hostname=tlsrig.HOSTNAME if role == "client" else None)
        leaf.gate = asyncio.Event()
        ta = loop.create_task(tls.send_all(A))
        for _ in range(2 + cfg["gap"]):
            await asyncio.sleep(0)
        tb = loop.create_task(tls.send_all(B))
        for _ in range(1 + cfg["cdelay"]):
            await asyncio.sleep(0)
        tb.cancel()
        await asyncio.wait([tb])
        out["b"] = "cancelled" if tb.cancelled() else ("raised:" + type(tb.exception()).__name__ if tb.exception() else "returned")
        leaf.gate.set()
        done, pending = await asyncio.wait([ta], timeout=100.0)
        out["a"] = "pending" if pending else ("raised:" + type(ta.exception()).__name__ if ta.exception() else "returned")
        try:
            await tls.send_all(C)
            out["c"] = "returned"
        except Exception as exc:  # noqa: BLE001
            out["c"] = "raised:" + type(exc).__name__
        for _ in range(5):
            await asyncio.sleep(0)
        relay.drain()

    status, value, _loop = vloop.run(world, main)
    tlsrig.gc_tick()
    out["status"] = status
    out["value"] = repr(value)[:160] if status != "ok" else None
    got = bytes(relay.peer.received)
    out["peer_events"] = [e for e in relay.peer.events if e[0] != "data"][-3:]
    out["peer_ok"] = got in (A + C, A + B + C)
    out["peer_len"] = len(got)
    out["with_b"] = got == A + B + C
    out["peer_dead"] = relay.peer.dead
    return out


def oracle_cancelled_waiter(obs: dict) -> str | None:
    if obs["status"] != "ok":
        return "cancelled-waiter-" + obs["status"]
    if obs["a"] != "returned" or obs["c"] != "returned":
        return "send-failed-after-a-cancelled-send"
    if obs["peer_dead"] or not obs["peer_ok"]:
        return "tls-stream-corrupted-after-a-send-cancelled-while-waiting-for-its-turn"
    return None


def oracle(obs: dict) -> str | None:
    if obs["status"] != "ok":
        return "duplex-" + obs["status"]
    if obs.get("exc"):
        return "duplex-exception"
    if obs.get("pending"):
        return "duplex-deadlock-under-backpressure"
    if not obs.get("got_ok") or not obs.get("peer_ok"):
        return "duplex-plaintext-mismatch"
    return None


def jobs(tier: str) -> list[dict]:
    tlsrig.ensure_cert()
    return [{"kind": "duplex", "version": v, "role": r, "tier": tier} for v in tlsrig.VERSIONS for r in tlsrig.ROLES]


def run_job(job: dict) -> JobResult:
    res = JobResult()
    for order in ("wr", "rw", "wxr", "wrx", "rwx"):
        for gap in (0, 1, 3):
            for recv in ("recv", "recv_into"):
                for peer_bytes, lib_bytes in ((40000, 40000), (17, 40000), (40000, 17), (100000, 100000)):
                  for late in (False, True):
                    cfg = {"version": job["version"], "role": job["role"], "order": order, "gap": gap, "recv": recv, "peer_bytes": peer_bytes, "lib_bytes": lib_bytes, "late_peer": late}
                    obs = run(cfg)
                    res.evaluations += 1
                    bad = oracle(obs)
                    res.outcome("duplex-ok" if bad is None else "VIOLATION:" + bad)
                    res.nontrivial.add(digest(("duplex", order, gap, recv, peer_bytes, lib_bytes, late, bad)))
                    key = f"async/duplex/{'two-writers/' if 'x' in order else ''}{bad}"
                    if bad and not any(v.key == key for v in res.violations):
                        res.violations.append(Violation(key, f"{cfg}: {obs}", {"kind": "duplex", "cfg": cfg, "choices": []}))
    for a_bytes in (40000, 17):
        for gap in (0, 1, 3):
            for cdelay in (0, 1, 2, 4):
                cfg = {"version": job["version"], "role": job["role"], "a_bytes": a_bytes, "gap": gap, "cdelay": cdelay}
                obs = run_cancelled_waiter(cfg)
                res.evaluations += 1
                bad = oracle_cancelled_waiter(obs)
                res.outcome(("cancelled-waiter-ok:" + ("B-delivered" if obs.get("with_b") else "B-not-sent")) if bad is None else "VIOLATION:" + bad)
                res.nontrivial.add(digest(("cancelled-waiter", a_bytes, gap, cdelay, obs.get("b"), obs.get("with_b"), bad)))
                key = f"async/cancelled-waiter/{bad}"
                if bad and not any(v.key == key for v in res.violations):
                    res.violations.append(Violation(key, f"{cfg}: {obs}", {"kind": "duplex", "sub": "cancelled-waiter", "cfg": cfg, "choices": []}))
    res.samples.append({"kind": "duplex-under-backpressure", "version": job["version"], "role": job["role"]})
    return res


def replay(doc: dict) -> tuple[bool, str]:
    if doc["replay"].get("sub") == "cancelled-waiter":
        obs = run_cancelled_waiter(doc["replay"]["cfg"])
        bad = oracle_cancelled_waiter(obs)
        return bad is not None, f"cfg={doc['replay']['cfg']}\nobserved={obs}\noracle: {bad}"
    obs = run(doc["replay"]["cfg"])
    bad = oracle(obs)
    return bad is not None, f"cfg={doc['replay']['cfg']}\nobserved={obs}\noracle: {bad}"
