"""C06 - malformed network input only ever surfaces as a parse error (complete input enumeration on the real code).

Three completely enumerated input families (no sampling):
 (1) every byte string of length <= L over a per-serializer alphabet of structural bytes;
 (2) the full single-edit (thorough: double-edit on short streams) neighbourhood of valid streams of the zoo;
 (3) depth/length ladders up to the configured limit (64 KiB): nesting, digit runs, long strings.
Each input goes through one-shot deserialize, the datagram protocol, and both stream consumers (whole / byte by byte /
split in the middle).  Outcome must be packet | parse error | still waiting; every error must consume >= 1 byte.
"""
from __future__ import annotations

import itertools
import pickle
import signal
from typing import Any, Callable

from easynetwork.exceptions import DatagramProtocolParseError, DeserializeError
from easynetwork.protocol import BufferedStreamProtocol, DatagramProtocol, StreamProtocol
from easynetwork.serializers import JSONSerializer, PickleSerializer, StringLineSerializer
from easynetwork.serializers.abc import AbstractIncrementalPacketSerializer, BufferedIncrementalPacketSerializer

from .. import chunkmc, zoo
from ..core import JobResult, Violation, digest

PROPERTY = "C06"
LEVEL = "exploration"
RULE = (
    "inputs enumerated completely: (1) all byte strings of length <= L over each serializer's structural alphabet, "
    "(2) all single edits (delete/duplicate/replace/bit-flip/truncate/insert-separator at every position; thorough: all double "
    "edits of streams <= 12 bytes) of every valid single-packet and two-packet stream of the zoo, (3) ladders of nesting depth / "
    "digit run / string length up to the 64 KiB limit; each through one-shot, datagram, copying and buffer-filling paths; "
    "distinct_nontrivial = distinct (serializer, path, outcome-shape) classes observed, evaluations = inputs x paths executed"
)
ASSUMPTIONS = [
    "pickle is driven through a restricted Unpickler whose find_class always raises, so enumerated byte strings cannot execute anything",
    "ladder inputs are fed whole and in 4 KiB reads (byte-by-byte feeding of 64 KiB is quadratic in the library's own buffer handling)",
    "a hang is detected by a 20 s watchdog per batch of inputs",
]
BOUNDS = {"quick": "L=4 (JSON reduced alphabet L=5, line L=7); single edits; ladders at powers of two, 900..1100, 4200..4400 and the limit",
          "thorough": "L=5 (JSON reduced alphabet L=6, line L=8); single + double edits; ladders every value up to 2200 then every 97th up to the limit"}


class _NoGlobals(pickle.Unpickler):
    def find_class(self, module: str, name: str) -> Any:
        raise pickle.UnpicklingError("globals are forbidden")


def B(*xs: Any) -> list[bytes]:
    out = []
    for x in xs:
        out.append(bytes([x]) if isinstance(x, int) else (x if isinstance(x, bytes) else x.encode()))
    return out


JSON_FULL = B("{", "}", "[", "]", '"', "\\", ",", ":", "1", "-", "e", "t", "n", " ", "\n", "a", 0xC3, 0xA9, 0xFF)
JSON_RED = B("{", "}", "[", "]", '"', "\\", ",", ":", "1", "e", "\n", 0xFF)
LINE_A = B("a", "\r", "\n", 0xFF, 0xC3)
B64_A = B("A", "=", "-", "_", "+", "/", "\r", "\n", ".")
BIN_A = B(0x00, 0x01, 0x7F, 0x80, 0xFF)
ZLIB_A = B("x", 0x9C, 0xDA, 0x01, 0x00, 0xFF, 0x03, "K", 0x78)
BZ2_A = B("B", "Z", "h", "9", "1", "A", "Y", "&", "S", 0x00, 0xFF)
PICKLE_A = B(0x80, 0x04, 0x05, 0x95, "N", ".", "K", 0x01, "]", "}", "(", "t", "e", "a", "u", 0x94, "0", "1", "2", "X", 0x00, ")", "l", "d", "c", "\n", "R", "b")

# name -> (make serializer, alphabet, L quick, L thorough)
TARGETS: dict[str, tuple[Callable[[], Any], list[bytes], int, int]] = {
    "json/lines/full": (lambda: JSONSerializer(), JSON_FULL, 4, 5),
    "json/raw/full": (lambda: JSONSerializer(use_lines=False), JSON_FULL, 4, 5),
    "json/lines/reduced": (lambda: JSONSerializer(), JSON_RED, 5, 6),
    "json/raw/reduced": (lambda: JSONSerializer(use_lines=False), JSON_RED, 5, 6),
    "line/LF/ascii": (lambda: StringLineSerializer("LF"), LINE_A, 7, 8),
    "line/CRLF/utf-8": (lambda: StringLineSerializer("CRLF", encoding="utf-8"), LINE_A, 7, 8),
    "line/CR/utf-8/keep": (lambda: StringLineSerializer("CR", encoding="utf-8", keep_end=True, limit=6), LINE_A, 7, 8),
    "base64/urlsafe": (lambda: zoo.by_name("base64/urlsafe/ck=off/sep=b'\\r\\n'").make(), B64_A, 5, 6),
    "base64/standard": (lambda: zoo.by_name("base64/standard/ck=off/sep=b'\\r\\n'").make(), B64_A, 5, 6),
    "base64/checksum": (lambda: zoo.by_name("base64/urlsafe/ck=sha/sep=b'\\n'").make(), B64_A, 4, 5),
    "struct/!Hb": (lambda: zoo.by_name("struct/!Hb").make(), BIN_A, 6, 7),
    "namedtuple/!h3s": (lambda: zoo.by_name("namedtuple/!h3s").make(), BIN_A + [b"a"], 5, 6),
    "zlib/json": (lambda: zoo.by_name("zlib/json").make(), ZLIB_A, 4, 5),
    "bz2/json": (lambda: zoo.by_name("bz2/json").make(), BZ2_A, 4, 5),
    "autosep/3": (lambda: zoo.SepSer(b"#~#", limit=6), B("#", "~", "a", 0xFF), 7, 9),
    "filebased/len": (lambda: zoo.LenFileSer(limit=6), B(0, 1, 2, 3, 9, "a", 0xFF), 5, 6),
    "genreader": (lambda: zoo.GenReaderSer(), B(0, 1, 2, 41, ".", "a"), 5, 6),
    "pickle": (lambda: PickleSerializer(unpickler_cls=_NoGlobals), PICKLE_A, 3, 4),
    "conv/line+int": (lambda: StringLineSerializer("LF"), B("1", "-", "a", "\n", 0xFF, " "), 6, 7),
    "json/lines/reduced/debug": (lambda: JSONSerializer(debug=True), JSON_RED, 4, 5),
    "json/raw/reduced/debug": (lambda: JSONSerializer(use_lines=False, debug=True), JSON_RED, 4, 5),
    "line/CRLF/utf-8/debug": (lambda: StringLineSerializer("CRLF", encoding="utf-8", debug=True), LINE_A, 6, 7),
    "base64/checksum/debug": (lambda: zoo.by_name("base64/urlsafe/ck=sha/sep=b'\\n'").make().__class__(StringLineSerializer("LF", encoding="utf-8", debug=True), checksum=True, separator=b"\n", debug=True), B64_A, 4, 5),
    "filebased/len/debug": (lambda: _dbg_file(), B(0, 1, 2, 3, 9, "a", 0xFF), 5, 6),
}


def _dbg_file() -> Any:
    class DebugLenFile(zoo.LenFileSer):
        def __init__(self) -> None:
            from easynetwork.serializers.base_stream import FileBasedPacketSerializer

            FileBasedPacketSerializer.__init__(self, expected_load_error=ValueError, limit=6, debug=True)

    return DebugLenFile()
CONVERTERS = {"conv/line+int": lambda: zoo.IntStrConverter()}


class Hang(Exception):
    pass


def _alarm(_sig: int, _frm: Any) -> None:
    raise Hang()


def classify_stream_outs(outs: list) -> tuple[str, str | None]:
    for t in outs:
        if t[0] == "X":
            return "crash", "/".join(str(x) for x in t[1:] if x)
    return "ok", None


class Runner:
    """Pushes one input through every path of one serializer."""

    def __init__(self, name: str, make: Callable[[], Any], res: JobResult, conv: Callable[[], Any] | None = None, ladder: bool = False) -> None:
        self.name = name
        self.family = name.split("/")[0]
        self.make = make
        self.conv = conv
        self.res = res
        self.ser = make()
        self.ladder = ladder
        self.incremental = isinstance(self.ser, AbstractIncrementalPacketSerializer)
        self.buffered = isinstance(self.ser, BufferedIncrementalPacketSerializer)
        self.dproto = DatagramProtocol(self.ser, conv() if conv else None)
        self.current: bytes = b""
        self.shapes: set = set()

    def violation(self, path: str, sym: str, data: bytes, detail: str, chunking: list[int] | None = None) -> None:
        self.res.outcome("VIOLATION:" + sym)
        if sum(1 for v in self.res.violations if v.key == f"{path}/{self.family}/{sym}") >= 20:
            return  # keep the list small; the count is in outcomes
        self.res.violations.append(Violation(
            f"{path}/{self.family}/{sym}",
            f"{self.name} {path} input={_short(data)} ({len(data)} bytes){' chunking=' + str(chunking) if chunking else ''}: {detail}",
            {"target": self.name, "path": path, "data": _enc(data), "chunking": chunking, "ladder": self.ladder},
        ))

    def one(self, data: bytes) -> None:
        res = self.res
        self.current = data
        # one-shot
        res.evaluations += 1
        try:
            self.ser.deserialize(data)
            o = "P"
        except DeserializeError:
            o = "E"
        except Hang:
            raise
        except BaseException as exc:
            o = "X"
            self.violation("oneshot", type(exc).__name__, data, f"{type(exc).__name__}: {str(exc)[:120]}")
        self.shapes.add(("oneshot", o))
        # datagram protocol
        res.evaluations += 1
        try:
            self.dproto.build_packet_from_datagram(data)
            o = "P"
        except DatagramProtocolParseError:
            o = "E"
        except Hang:
            raise
        except BaseException as exc:
            o = "X"
            self.violation("datagram", type(exc).__name__, data, f"{type(exc).__name__}: {str(exc)[:120]}")
        self.shapes.add(("datagram", o))
        if not self.incremental or not data:
            return
        n = len(data)
        if self.ladder:
            chunkings = [[n], [4096] * (n // 4096) + ([n % 4096] if n % 4096 else [])]
        else:
            chunkings = [[n]]
            if n > 1:
                chunkings.append([1] * n)
            if n > 2:
                chunkings.append([n // 2, n - n // 2])
        for kind in ("copy", "buf") if self.buffered else ("copy",):
            for ch in chunkings:
                res.evaluations += 1
                res.transitions += len(ch)
                conv = self.conv() if self.conv else None
                try:
                    if kind == "copy":
                        drv: Any = chunkmc.CopyDriver(StreamProtocol(self.make(), conv))
                    else:
                        drv = chunkmc.BufDriver(BufferedStreamProtocol(self.make(), conv), 8 if not self.ladder else 65536)
                    outs: list = []
                    pos = 0
                    for k in ch:
                        while k > 0:
                            kk = min(k, drv.max_feed())
                            outs.extend(drv.feed(data[pos:pos + kk]))
                            pos += kk
                            k -= kk
                            if outs and outs[-1][0] == "X":
                                break
                        if outs and outs[-1][0] == "X":
                            break
                except Hang:
                    raise
                except BaseException as exc:
                    cause = type(exc.__cause__).__name__ if exc.__cause__ is not None else ""
                    outs = [("X", type(exc).__name__, cause)]
                st, detail = classify_stream_outs(outs)
                if st == "crash":
                    self.violation(kind, detail.replace("RuntimeError/", ""), data, f"escaped the consumer: {detail}", ch)
                self.shapes.add((kind, tuple(t[0] + (":" + t[1] if t[0] == "E" else "") for t in outs)[:4]))

    def finish(self) -> None:
        for s in self.shapes:
            self.res.nontrivial.add(digest((self.name, s)))
            self.res.outcome(f"shape:{s[0]}:{'packet' if s[1] == 'P' else 'parse-error' if s[1] == 'E' else 'stream'}")


def _short(b: bytes) -> str:
    return repr(b) if len(b) <= 60 else repr(b[:24]) + f"...({len(b)} bytes)..." + repr(b[-12:])


def _enc(b: bytes) -> Any:
    if len(b) <= 256:
        return b.decode("latin-1")
    # long ladder inputs are stored as a recipe
    return {"recipe": True, "head": b[:8].decode("latin-1"), "len": len(b)}


def with_watchdog(fn: Callable[[], None], runner_ref: list) -> None:
    signal.signal(signal.SIGALRM, _alarm)
    signal.setitimer(signal.ITIMER_REAL, 0)
    try:
        fn()
    finally:
        signal.setitimer(signal.ITIMER_REAL, 0)


# ---------------------------------------------------------------------------------------------------------
# jobs


def jobs(tier: str) -> list[dict]:
    out: list[dict] = []
    for name, (_mk, alpha, lq, lt) in TARGETS.items():
        L = lq if tier == "quick" else lt
        total = sum(len(alpha) ** i for i in range(0, L + 1))
        if total > 20000:
            for a in range(len(alpha)):
                out.append({"type": "enum", "target": name, "L": L, "first": a, "tier": tier})
            out.append({"type": "enum", "target": name, "L": min(L, 1), "first": None, "tier": tier})
        else:
            out.append({"type": "enum", "target": name, "L": L, "first": None, "tier": tier})
    for cfg in zoo.configs():
        out.append({"type": "edits", "cfg": cfg.name, "tier": tier})
    for shape in LADDERS:
        for lines in (True, False):
            parts = 4 if tier == "quick" else 16
            for part in range(parts):
                out.append({"type": "ladder", "shape": shape, "lines": lines, "part": part, "parts": parts, "tier": tier})
            # debug=True builds error_info from the exception: same ladders (one part in four at quick)
            for part in range(parts):
                if tier == "quick" and part != 0:
                    continue
                out.append({"type": "ladder", "shape": shape, "lines": lines, "part": part, "parts": parts, "tier": tier, "debug": True})
    for shape in ("line", "base64"):
        out.append({"type": "ladder2", "shape": shape, "tier": tier})
    return out


def run_enum(job: dict, res: JobResult) -> None:
    make, alpha, _lq, _lt = TARGETS[job["target"]]
    r = Runner(job["target"], make, res, CONVERTERS.get(job["target"]))
    L = job["L"]
    first = job["first"]
    count = 0

    def gen():
        if first is None:
            for n in range(0, L + 1):
                for t in itertools.product(alpha, repeat=n):
                    yield b"".join(t)
        else:
            for n in range(2, L + 1):
                for t in itertools.product(alpha, repeat=n - 1):
                    yield alpha[first] + b"".join(t)

    signal.signal(signal.SIGALRM, _alarm)
    try:
        for data in gen():
            if count % 2000 == 0:
                signal.setitimer(signal.ITIMER_REAL, 20.0)
            count += 1
            r.one(data)
    except Hang:
        r.violation("any", "hang", r.current, "no termination within 20 s (watchdog)")
    finally:
        signal.setitimer(signal.ITIMER_REAL, 0)
    r.finish()
    res.count("enumerated_inputs", count)
    if len(res.samples) < 2:
        res.samples.append({"family": "enum", "target": job["target"], "alphabet": [a.decode("latin-1") for a in alpha], "max_len": L,
                            "first_symbol": None if first is None else alpha[first].decode("latin-1"), "inputs": count, "last_input": r.current.decode("latin-1")})


EDIT_BYTES = B(0x00, 0xFF, "\n", "\r", '"', "\\", "{", "[", "A", "=", "|", "#", " ", "9", 0xC3)


def single_edits(s: bytes, seps: list[bytes]) -> set[bytes]:
    out: set[bytes] = set()
    n = len(s)
    for i in range(n + 1):
        out.add(s[:i])  # truncation
        for sep in seps:
            out.add(s[:i] + sep + s[i:])
        for b in EDIT_BYTES:
            out.add(s[:i] + b + s[i:])
    for i in range(n):
        out.add(s[:i] + s[i + 1:])
        out.add(s[:i] + s[i:i + 1] + s[i:])
        for b in EDIT_BYTES:
            out.add(s[:i] + b + s[i + 1:])
        for bit in range(8):
            out.add(s[:i] + bytes([s[i] ^ (1 << bit)]) + s[i + 1:])
    return out


def run_edits(job: dict, res: JobResult) -> None:
    from .c01 import make_stream

    cfg = zoo.by_name(job["cfg"])
    r = Runner(cfg.name, cfg.make, res, cfg.converter)
    seqs = [(p,) for p in cfg.packets] + [(cfg.packets[0], cfg.packets[-1])]
    seps = [b"\n", b"\r\n"]
    count = 0
    signal.signal(signal.SIGALRM, _alarm)
    try:
        for seq in seqs:
            stream, _ = make_stream(cfg, seq)
            if len(stream) > 80:
                stream = stream[:80] if len(seq) > 1 else stream
            ed = single_edits(stream, seps)
            if job["tier"] == "thorough" and len(stream) <= 12:
                ed2: set[bytes] = set()
                for e in list(ed):
                    if len(e) <= 13:
                        ed2 |= single_edits(e, seps[:1])
                ed |= ed2
            for data in sorted(ed):
                if count % 500 == 0:
                    signal.setitimer(signal.ITIMER_REAL, 20.0)
                count += 1
                r.one(data)
    except Hang:
        r.violation("any", "hang", r.current, "no termination within 20 s (watchdog)")
    finally:
        signal.setitimer(signal.ITIMER_REAL, 0)
    r.finish()
    res.count("edited_inputs", count)
    if len(res.samples) < 2:
        res.samples.append({"family": "edits", "config": cfg.name, "inputs": count, "example": r.current.decode("latin-1")})


LADDERS: dict[str, Callable[[int], bytes]] = {
    "open-brackets": lambda d: b"[" * d,
    "open-objects": lambda d: b'{"a":' * d,
    "balanced-brackets": lambda d: b"[" * d + b"]" * d,
    "digits": lambda d: b"1" * d,
    "string": lambda d: b'"' + b"a" * d + b'"',
    "neg-exp": lambda d: b"-1" + b"0" * d + b"e" + b"9" * min(d, 400),
}
LIMIT = 65536


def ladder_values(tier: str) -> list[int]:
    vals = set(2 ** i for i in range(0, 17))
    vals |= {LIMIT - 2, LIMIT - 1, LIMIT, LIMIT + 1, LIMIT // 2 - 1, LIMIT // 2, LIMIT // 2 + 1, 32766, 32767, 32768}
    if tier == "quick":
        vals |= set(range(900, 1101, 4)) | set(range(4290, 4311)) | {100, 300, 500, 700, 2000, 3000, 5000, 10000, 20000, 50000}
    else:
        vals |= set(range(1, 2201)) | set(range(4200, 4400)) | set(range(2200, LIMIT + 1, 97))
    return sorted(vals)


def run_ladder(job: dict, res: JobResult) -> None:
    shape = LADDERS[job["shape"]]
    dbg = bool(job.get("debug"))
    name = f"json/{'lines' if job['lines'] else 'raw'}/ladder" + ("/debug" if dbg else "")
    r = Runner(name, (lambda: JSONSerializer(use_lines=job["lines"], debug=dbg)), res, ladder=True)
    vals = [v for i, v in enumerate(ladder_values(job["tier"])) if i % job["parts"] == job["part"]]
    signal.signal(signal.SIGALRM, _alarm)
    try:
        for d in vals:
            signal.setitimer(signal.ITIMER_REAL, 60.0)
            data = shape(d)
            if len(data) > LIMIT + 8:
                continue
            for term in (b"", b"\n"):
                r.one(data + term)
    except Hang:
        r.violation("any", "hang", r.current, "no termination within 60 s (watchdog)")
    finally:
        signal.setitimer(signal.ITIMER_REAL, 0)
    r.finish()
    res.count("ladder_inputs", 2 * len(vals))
    if len(res.samples) < 1:
        res.samples.append({"family": "ladder", "shape": job["shape"], "use_lines": job["lines"], "values": vals[:8] + ["..."] + vals[-3:]})


def run_ladder2(job: dict, res: JobResult) -> None:
    if job["shape"] == "line":
        r = Runner("line/ladder", lambda: StringLineSerializer("CRLF", encoding="utf-8"), res, ladder=True)
        mk = lambda d: b"a" * d + b"\r\n"  # noqa: E731
    else:
        r = Runner("base64/ladder", lambda: zoo.by_name("base64/urlsafe/ck=off/sep=b'\\r\\n'").make().__class__(StringLineSerializer("LF", encoding="utf-8")), res, ladder=True)
        mk = lambda d: b"A" * d + b"\r\n"  # noqa: E731
    vals = [v for v in ladder_values("quick") if v <= LIMIT + 1]
    signal.signal(signal.SIGALRM, _alarm)
    try:
        for d in vals:
            signal.setitimer(signal.ITIMER_REAL, 60.0)
            r.one(mk(d))
            r.one(mk(d)[:-2] + b"\xff\r\n")
    except Hang:
        r.violation("any", "hang", r.current, "no termination within 60 s (watchdog)")
    finally:
        signal.setitimer(signal.ITIMER_REAL, 0)
    r.finish()
    res.count("ladder_inputs", 2 * len(vals))


def run_job(job: dict) -> JobResult:
    res = JobResult()
    {"enum": run_enum, "edits": run_edits, "ladder": run_ladder, "ladder2": run_ladder2}[job["type"]](job, res)
    return res


def replay(doc: dict) -> tuple[bool, str]:
    rp = doc["replay"]
    name = rp["target"]
    data = rp["data"]
    if isinstance(data, dict):
        return True, f"ladder input of {data['len']} bytes starting with {data['head']!r}: re-run ./check C06 --only ladder"
    data = data.encode("latin-1")
    res = JobResult()
    if name in TARGETS:
        r = Runner(name, TARGETS[name][0], res, CONVERTERS.get(name))
    elif name.startswith("json/") and "ladder" in name:
        r = Runner(name, (lambda: JSONSerializer(use_lines="lines" in name, debug=name.endswith("/debug"))), res, ladder=True)
    elif name == "line/ladder":
        r = Runner(name, lambda: StringLineSerializer("CRLF", encoding="utf-8"), res, ladder=True)
    else:
        cfg = zoo.by_name(name)
        r = Runner(name, cfg.make, res, cfg.converter)
    r.one(data)
    text = "\n".join([f"target={name} input={_short(data)}"] + [f"  {v.key}: {v.message}" for v in res.violations])
    return bool(res.violations), text
