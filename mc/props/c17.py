"""C17 - One client's failure (handler or connection set-up) never affects the others.

Subject: the REAL ``AsyncTCPNetworkServer`` (plain listener) and ``AsyncUDPNetworkServer`` on the virtual loop (E2) over fake
sockets.  One execution = one server, ONE faulty client (its handler hook raises exception class E at hook position P, or its
connection fails right after accept) and 1-2 healthy clients whose request/response exchanges are interleaved with the
faulty client's events by the explorer (which peer acts next, and at which loop-iteration boundary).  After the fault the
healthy clients send one more request, a brand-new client is served, and (UDP) the faulty address sends again.
"""
from __future__ import annotations

import errno
import gc
from typing import Any

from easynetwork.exceptions import (
    ClientClosedError,
    DatagramProtocolParseError,
    DeserializeError,
    IncrementalDeserializeError,
    StreamProtocolParseError,
)
from easynetwork.protocol import BufferedStreamProtocol, DatagramProtocol, StreamProtocol
from easynetwork.serializers.line import StringLineSerializer
from easynetwork.servers.async_tcp import AsyncTCPNetworkServer
from easynetwork.servers.async_udp import AsyncUDPNetworkServer
from easynetwork.servers.handlers import AsyncDatagramRequestHandler, AsyncStreamRequestHandler, INETClientAttribute

from .. import vloop
from ..core import Ctx, JobResult, Violation, digest, explore
from ..srvrig import Ev, Recorder, RigBackend, Script, quiet_logger, wait_until
from ..world import FakeSocket, Pipe, World

PROPERTY = "C17"
LEVEL = "fault_enumeration"
RULE = (
    "faults: exception class in {ValueError, KeyError, ExceptionGroup([ValueError]), ConnectionResetError, BrokenPipeError, "
    "ClientClosedError, TimeoutError, StreamProtocolParseError (re-raised where one was thrown in), "
    "BaseExceptionGroup([ClientClosedError, ValueError])} x hook position in {on_connection coroutine / generator before its first "
    "yield / generator after its yield, handle before first yield / after request 1 / while handling a thrown parse error / in "
    "finally after a normal return / in finally while being closed on disconnect, on_disconnection} for TCP (UDP: the four handle "
    "positions) + connection set-up faults {getpeername ENOTCONN after accept, set-up of the accepted socket failing with ENOTCONN / EINVAL inside the listener task, connection reset right after accept (x 3 positions), a malformed frame pipelined behind a valid request in one segment (handler never fails), a handler yielding NaN as its timeout} "
    "x 1-2 concurrent healthy clients x both TCP receive paths; schedules: the peer acting next and the loop-iteration boundary of "
    "every client event are explorer choices (round-robin default, bound 1 quick / 2 thorough deviations, 1 for TCP with 2 healthy clients); distinct_nontrivial = "
    "distinct (scenario, hook log) pairs of executions with at least one non-default choice"
)
ASSUMPTIONS = [
    "TLS listeners are driven in props/c17_tls.py (own RULE / ASSUMPTIONS / BOUNDS there): relays deliver ciphertext whole (no record fragmentation), F always ends before shutdown",
    "what the servers log is not an observable (the statement does not speak about logging); loop exception-handler calls are counted, not judged",
    "the faulty peer's own request/response exchange is not judged beyond 'its connection ends closed and on_disconnection ran iff documented'",
    "healthy handlers answer every request with one packet and never fail; sends never block (unbounded fake pipes)",
]
BOUNDS = {"quick": "1 placement deviation per scenario", "thorough": "2 placement deviations per scenario (1 for TCP scenarios with 2 healthy clients)"}

from . import c17_tls as _tls  # noqa: E402  (TLS-listener part: its rule, assumptions and bounds are part of this check's evidence)

RULE = RULE + " || " + _tls.RULE
ASSUMPTIONS = ASSUMPTIONS + list(_tls.ASSUMPTIONS)
BOUNDS = {k: BOUNDS[k] + "; " + _tls.BOUNDS[k] for k in BOUNDS}

EXC = ("ValueError", "KeyError", "EG", "ConnReset", "BrokenPipe", "ClientClosed", "Timeout", "ParseError", "BEG")
TCP_POS = ("oc-coro", "oc-gen-pre", "oc-gen-post", "h-pre", "h-post", "h-thrown", "h-finally-ret", "h-finally-exit", "disc")
UDP_POS = ("h-pre", "h-post", "h-thrown", "h-finally-ret")
F_PORT = 41000
H_PORT = 42000
HORIZON = 6000


def make_exc(name: str, udp: bool = False) -> BaseException:
    if name == "ValueError":
        return ValueError("boom")
    if name == "KeyError":
        return KeyError("boom")
    if name == "EG":
        return ExceptionGroup("group", [ValueError("boom")])
    if name == "ConnReset":
        return ConnectionResetError(errno.ECONNRESET, "Connection reset by peer")
    if name == "BrokenPipe":
        return BrokenPipeError(errno.EPIPE, "Broken pipe")
    if name == "ClientClosed":
        return ClientClosedError("Closed client")
    if name == "Timeout":
        return TimeoutError("timed out")
    if name == "ParseError":
        if udp:
            return DatagramProtocolParseError(DeserializeError("bad"))
        return StreamProtocolParseError(b"", IncrementalDeserializeError("bad", b""))
    if name == "BEG":
        return BaseExceptionGroup("group", [ClientClosedError("Closed client"), ValueError("boom")])
    raise AssertionError(name)


class SetupFailSocket(FakeSocket):
    """An accepted socket whose set-up inside the listener's per-connection task raises OSError (what a peer that sent RST
    right after the handshake produces on some platforms)."""

    fail_errno = errno.ENOTCONN
    sb_calls = 0

    def setblocking(self, flag: bool) -> None:
        # 1st call: loop.sock_accept() on the freshly accepted socket; 2nd call: loop.connect_accepted_socket() inside the
        # listener's per-connection task - that one fails
        self.sb_calls += 1
        if self.sb_calls == 2:
            raise OSError(self.fail_errno, "set-up failure injected by the harness")
        super().setblocking(flag)


def setup_fail_socket(world: World, peer: tuple, err: int) -> FakeSocket:
    import socket as _s

    s = SetupFailSocket(world, _s.AF_INET, _s.SOCK_STREAM)
    s.fail_errno = err
    s.rx = Pipe(None)
    s.tx = Pipe(None)
    s.peername = peer
    s.sockname = ("127.0.0.1", 50000)
    s.connected = True
    return s


def who_of(port: int) -> str:
    if port == F_PORT:
        return "F"
    return f"H{port - H_PORT}"


# ---------------------------------------------------------------------------------------------------------
# handlers


class Common:
    def __init__(self, rec: Recorder, cfg: dict, udp: bool) -> None:
        self.rec = rec
        self.cfg = cfg
        self.udp = udp
        self.fault_armed = True  # the faulty peer fails ONCE (UDP: later datagrams of that address are served normally)
        self.fired = 0

    def exc(self) -> BaseException:
        self.fired += 1
        self.rec.add("F", "raise", self.cfg["exc"])
        return make_exc(self.cfg["exc"], self.udp)

    async def healthy(self, client: Any, who: str):
        rec = self.rec
        g = rec.gen_start("h", who)
        rec.add(who, "gen-start")
        try:
            try:
                req = yield
            except GeneratorExit:
                rec.gen_exit(g)
                rec.add(who, "gen-exit")
                raise
            except BaseException as exc:
                rec.add(who, "thrown", type(exc).__name__)
                raise
            rec.add(who, "req", req)
            await client.send_packet("ok:" + str(req))
        finally:
            rec.gen_final(g)
            rec.add(who, "gen-final")

    async def faulty(self, client: Any):
        """handle() of the faulty peer: one request per generator, fails at cfg['pos'] (once)"""
        import asyncio

        rec, pos = self.rec, self.cfg["pos"]
        armed = self.fault_armed
        g = rec.gen_start("h", "F")
        rec.add("F", "gen-start")
        got = False
        exiting = False
        try:
            if armed and pos == "h-pre":
                self.fault_armed = False
                raise self.exc()
            try:
                # fault 'bad-timeout': the hook yields a value no timeout can be built from (what happens to this client is its own
                # business; the server and the other clients must not notice)
                req = yield (float("nan") if self.cfg.get("fault") == "bad-timeout" else None)
            except (StreamProtocolParseError, DatagramProtocolParseError):
                rec.add("F", "err")
                if armed and pos == "h-thrown":
                    self.fault_armed = False
                    if self.cfg["exc"] == "ParseError":
                        self.fired += 1
                        rec.add("F", "raise", "ParseError")
                        raise
                    raise self.exc()
                return
            except GeneratorExit:
                exiting = True
                rec.gen_exit(g)
                rec.add("F", "gen-exit")
                raise
            except asyncio.CancelledError:
                rec.add("F", "cancelled")
                raise
            except BaseException as exc:
                rec.add("F", "thrown", type(exc).__name__)
                raise
            got = True
            rec.add("F", "req", req)
            await client.send_packet("ok:" + str(req))
            if armed and pos == "h-post":
                self.fault_armed = False
                raise self.exc()
        finally:
            rec.gen_final(g)
            rec.add("F", "gen-final")
            if armed and self.fault_armed and ((pos == "h-finally-ret" and got) or (pos == "h-finally-exit" and exiting)):
                self.fault_armed = False
                raise self.exc()


class TCPHandler(AsyncStreamRequestHandler):
    def __init__(self, common: Common) -> None:
        self.c = common

    @staticmethod
    def who(client: Any) -> str:
        return who_of(client.extra(INETClientAttribute.remote_address).port)

    def on_connection(self, client: Any) -> Any:
        who = self.who(client)
        self.c.rec.add(who, "conn")
        pos = self.c.cfg["pos"]
        if who == "F" and pos == "oc-coro":
            return self._raise()
        if who == "F" and pos in ("oc-gen-pre", "oc-gen-post"):
            return self._oc_gen(client, pos)
        return self._noop()

    async def _noop(self) -> None:
        return None

    async def _raise(self) -> None:
        raise self.c.exc()

    async def _oc_gen(self, client: Any, pos: str):
        rec = self.c.rec
        g = rec.gen_start("oc", "F")
        rec.add("F", "oc-start")
        try:
            if pos == "oc-gen-pre":
                raise self.c.exc()
            try:
                req = yield
            except GeneratorExit:
                rec.gen_exit(g)
                rec.add("F", "oc-exit")
                raise
            rec.add("F", "oc-req", req)
            raise self.c.exc()
        finally:
            rec.gen_final(g)
            rec.add("F", "oc-final")

    def handle(self, client: Any) -> Any:
        who = self.who(client)
        if who == "F":
            return self.c.faulty(client)
        return self.c.healthy(client, who)

    async def on_disconnection(self, client: Any) -> None:
        who = self.who(client)
        self.c.rec.add(who, "disc")
        if who == "F" and self.c.cfg["pos"] == "disc":
            raise self.c.exc()


class UDPHandler(AsyncDatagramRequestHandler):
    def __init__(self, common: Common) -> None:
        self.c = common

    def handle(self, client: Any) -> Any:
        who = who_of(client.extra(INETClientAttribute.remote_address).port)
        if who == "F":
            return self.c.faulty(client)
        return self.c.healthy(client, who)


# ---------------------------------------------------------------------------------------------------------
# one execution (TCP)


def faulty_frames(cfg: dict) -> list[bytes]:
    pos = cfg["pos"]
    if cfg.get("fault") in ("enotconn", "connect-enotconn", "connect-einval"):
        return [b"f1\n"]
    if cfg.get("fault") == "bad-timeout":
        return [b"f1\n"]
    if cfg.get("fault") == "pipelined-bad-frame":
        # one segment: a valid request, a malformed frame right behind it (parsed from the leftover buffer), another valid request
        return [b"f0\n\xff\nf2\n"]
    if pos == "h-thrown":
        return [b"\xff\n"]
    if pos in ("oc-gen-post", "h-post", "h-finally-ret", "h-finally-exit", "disc"):
        return [b"f1\n"]
    return []


def run_tcp(ctx: Ctx, cfg: dict) -> dict:
    world = World(ctx, horizon=HORIZON)
    script = Script(world, ctx, place=True, place_costed=True, lane_costed=True, idle_rr=True)
    rec = Recorder(world, script)
    common = Common(rec, cfg, udp=False)
    serializer = StringLineSerializer()
    proto: Any = StreamProtocol(serializer) if cfg["proto"] == "copy" else BufferedStreamProtocol(serializer)
    nh = cfg["healthy"]
    out: dict = {}
    holder: dict = {}
    if cfg.get("fault") in ("connect-enotconn", "connect-einval"):
        fsock = setup_fail_socket(world, ("127.0.0.1", F_PORT), errno.ENOTCONN if cfg["fault"] == "connect-enotconn" else errno.EINVAL)
    else:
        fsock = world.stream_socket(peer=("127.0.0.1", F_PORT))
    fsock.tag = "F"
    if cfg.get("fault") == "enotconn":
        fsock.getpeername_error = OSError(errno.ENOTCONN, "Transport endpoint is not connected")
    hsocks = []
    for i in range(1, nh + 1):
        s = world.stream_socket(peer=("127.0.0.1", H_PORT + i))
        s.tag = f"H{i}"
        hsocks.append(s)

    def put(sock: Any, data: bytes) -> Any:
        def f() -> None:
            if not sock.closed_flag:
                sock.rx.put(data)
        return f

    def eof(sock: Any) -> Any:
        def f() -> None:
            if not sock.closed_flag:
                sock.rx.eof = True
        return f

    def reset(sock: Any) -> Any:
        def f() -> None:
            if not sock.closed_flag:
                sock.rx.error = ConnectionResetError(errno.ECONNRESET, "Connection reset by peer")
        return f

    def answered(sock: Any, n: int) -> Any:
        return lambda: sock.tx.total.count(b"\n") >= n or sock.closed_flag

    async def main(loop: Any) -> None:
        backend = RigBackend(world)
        server = AsyncTCPNetworkServer(None, 0, proto, TCPHandler(common), backend=backend, logger=quiet_logger())
        task = holder["task"] = loop.create_task(server.serve_forever())
        out["up"] = await wait_until(server.is_serving)
        lsock = backend.tcp_listener_socks[0]
        # phase 1: the faulty client and the healthy clients, interleaved
        fl = [Ev("F:connect", lambda: lsock.accept_q.append(fsock))]
        if cfg.get("fault") == "reset":
            fl.append(Ev("F:reset", reset(fsock)))
        else:
            for k, fr in enumerate(faulty_frames(cfg)):
                fl.append(Ev(f"F:frame{k}", put(fsock, fr)))
            fl.append(Ev("F:eof", eof(fsock)))
        script.lane(fl)
        for i, hs in enumerate(hsocks, 1):
            script.lane([
                Ev(f"H{i}:connect", (lambda hs=hs: lsock.accept_q.append(hs))),
                Ev(f"H{i}:req1", put(hs, f"h{i}r1\n".encode())),
                Ev(f"H{i}:req2", put(hs, f"h{i}r2\n".encode()), gate=answered(hs, 1)),
            ])
        script.start(loop)
        await script.quiescent()
        out["serving1"] = server.is_serving() and not task.done()
        out["f_closed"] = fsock.closed_flag
        out["open1"] = sorted(s.tag for s in world.open_sockets())
        out["nlog1"] = len(rec.log)
        # phase 2: the healthy clients go on, a brand-new client is served
        late = world.stream_socket(peer=("127.0.0.1", H_PORT + 9))
        late.tag = "H9"
        for i, hs in enumerate(hsocks, 1):
            script.lane([Ev(f"H{i}:req3", put(hs, f"h{i}r3\n".encode())), Ev(f"H{i}:eof", eof(hs), gate=answered(hs, 3))])
        script.lane([Ev("H9:connect", lambda: lsock.accept_q.append(late)), Ev("H9:req1", put(late, b"h9r1\n")), Ev("H9:eof", eof(late), gate=answered(late, 1))])
        await script.quiescent()
        out["serving2"] = server.is_serving() and not task.done()
        out["tx"] = {s.tag: bytes(s.tx.total) for s in hsocks + [late]}
        out["closed2"] = {s.tag: s.closed_flag for s in hsocks + [late, fsock]}
        out["alive"] = sorted(str(v) for v in rec.alive.values())
        if task.done() and not task.cancelled():
            out["serve_exc"] = repr(task.exception())[:400]
        await server.shutdown()
        try:
            await task
            out["serve_result"] = "returned"
        except BaseException as exc:  # noqa: BLE001
            out["serve_result"] = "raised " + repr(exc)[:300]
        await server.server_close()
        out["open_after"] = sorted(s.tag for s in world.open_sockets())

    status, value, loop = vloop.run(world, main)
    out["status"] = status if status != "exc" else "exc:" + repr(value)[:300]
    out["log"] = list(rec.log)
    out["fired"] = common.fired
    out["overlap"] = list(rec.overlap)
    out["applied"] = [(a, round(t, 6), s) for a, t, s in script.applied]
    out["pending"] = [lane[0].label for lane in script.lanes if lane]
    out["placed_busy"] = script.placed_busy
    out["unhandled"] = [u.get("exception") or u.get("message") for u in vloop.collect_unhandled(loop)]
    t = holder.get("task")
    if t is not None and t.done() and not t.cancelled() and "serve_exc" not in out:
        out["serve_exc"] = repr(t.exception())[:400]
    return out


def oracle_tcp(cfg: dict, obs: dict) -> tuple[str | None, str]:
    log = obs.get("log", [])
    if obs["status"] != "ok":
        st = obs["status"].split(":")[0]
        if st == "deadlock" and obs.get("serve_exc"):
            return "server-stopped-by-client-failure", f"serve_forever() died with {obs['serve_exc']}; events never applied: {obs.get('pending')}; log={log}"
        if st == "deadlock":
            return "hang", f"nothing can run any more; events never applied: {obs.get('pending')} (a healthy client never got its response, or shutdown hangs); log={log}"
        if st == "horizon":
            return "livelock", f"{obs['status']} log={log}"
        return "execution-raised-" + obs["status"][4:].split("(")[0], f"{obs['status']} log={log}"
    if not obs.get("up"):
        return "server-not-up", ""
    nh = cfg["healthy"]
    if not obs["serving1"]:
        return "server-stopped-by-client-failure", f"is_serving() is false after the faulty client ended; serve task: {obs.get('serve_exc')} log={log}"
    if not obs["serving2"]:
        return "server-stopped-later", f"is_serving() is false at the end; serve task: {obs.get('serve_exc')} log={log}"
    for tag in [f"H{i}" for i in range(1, nh + 1)] + ["H9"]:
        n = tag[1:]
        want = b"".join(f"ok:h{n}r{k}\n".encode() for k in ((1, 2, 3) if tag != "H9" else (1,)))
        if obs["tx"][tag] != want:
            return "healthy-client-missed-a-response", f"{tag} received {obs['tx'][tag]!r}, expected {want!r}; log={log}"
        hooks = [e[1] for e in log if e[0] == tag and e[1] in ("conn", "disc")]
        if hooks != ["conn", "disc"]:
            return "healthy-client-hooks-wrong", f"{tag}: hooks {hooks}; log={log}"
        if not obs["closed2"][tag]:
            return "healthy-client-socket-not-closed-after-eof", f"{tag}"
        thrown = [e for e in log if e[0] == tag and e[1] == "thrown"]
        if thrown:
            return "exception-thrown-into-healthy-handler", f"{thrown}; log={log}"
    if not obs["f_closed"]:
        return "faulty-client-socket-not-closed", f"open sockets after phase 1: {obs['open1']}; log={log}"
    want_open = sorted(["listener"] + [f"H{i}" for i in range(1, nh + 1)])
    if obs["open1"] != want_open:
        return "open-sockets-differ", f"after the fault: open={obs['open1']}, expected {want_open}"
    # the faulty client's hooks
    fh = [e[1] for e in log if e[0] == "F" and e[1] in ("conn", "disc")]
    pos, fault = cfg["pos"], cfg.get("fault")
    if fault in ("enotconn", "connect-enotconn", "connect-einval"):
        ok = fh in ([], ["conn", "disc"])
        want_h = "[] (set-up failed before on_connection) or [conn, disc]"
    elif pos in ("oc-coro", "oc-gen-pre", "oc-gen-post"):
        # documented: on_disconnection is not called if on_connection raises / is a generator and the connection is closed
        ok = fh == ["conn"]
        want_h = "[conn]"
    else:
        ok = fh == ["conn", "disc"]
        want_h = "[conn, disc]"
    if not ok:
        return "faulty-client-on_disconnection-not-as-documented", f"faulty client hooks {fh}, documented {want_h}; log={log}"
    if fault == "pipelined-bad-frame":
        fl = [e[1:] for e in log if e[0] == "F" and e[1] in ("req", "err")]
        if fl != [("req", "f0"), ("err",), ("req", "f2")]:
            return "pipelined-malformed-frame-not-delivered-as-one-parse-error-in-place", f"faulty client's handlers saw {fl}; log={log}"
    if fault in (None, "reset") and obs["fired"] != 1:
        return "fault-not-injected", f"harness: the fault fired {obs['fired']} times; log={log}"
    if obs["overlap"]:
        return "two-generators-alive-for-one-client", f"{obs['overlap']}"
    if obs["alive"]:
        return "generator-left-suspended", f"{obs['alive']}; log={log}"
    if obs["serve_result"] != "returned":
        return "serve_forever-raised-at-shutdown", f"{obs['serve_result']}"
    if obs["open_after"]:
        return "socket-leak-after-shutdown", f"{obs['open_after']}"
    return None, ""


# ---------------------------------------------------------------------------------------------------------
# one execution (UDP)


def run_udp(ctx: Ctx, cfg: dict) -> dict:
    world = World(ctx, horizon=HORIZON)
    script = Script(world, ctx, place=True, place_costed=True, lane_costed=True, idle_rr=True)
    rec = Recorder(world, script)
    common = Common(rec, cfg, udp=True)
    proto = DatagramProtocol(StringLineSerializer())
    nh = cfg["healthy"]
    out: dict = {}
    holder: dict = {}
    faddr = ("127.0.0.1", F_PORT)

    async def main(loop: Any) -> None:
        backend = RigBackend(world)
        server = AsyncUDPNetworkServer(None, 0, proto, UDPHandler(common), backend=backend, logger=quiet_logger())
        task = holder["task"] = loop.create_task(server.serve_forever())
        out["up"] = await wait_until(server.is_serving)
        usock = backend.udp_listener_socks[0]

        def dg(payload: bytes, addr: Any) -> Any:
            return lambda: usock.rxd.append((payload, addr))

        def answered(addr: Any, n: int) -> Any:
            return lambda: sum(1 for _d, a in usock.txd if a == addr) >= n

        first = b"\xff" if cfg["pos"] == "h-thrown" else b"f1"
        script.lane([Ev("F:dg1", dg(first, faddr))])
        for i in range(1, nh + 1):
            ha = ("127.0.0.1", H_PORT + i)
            script.lane([Ev(f"H{i}:dg1", dg(f"h{i}r1".encode(), ha)), Ev(f"H{i}:dg2", dg(f"h{i}r2".encode(), ha), gate=answered(ha, 1))])
        script.start(loop)
        await script.quiescent()
        out["serving1"] = server.is_serving() and not task.done()
        out["nlog1"] = len(rec.log)
        # phase 2: a later datagram of the faulty address must be served by a fresh generator; healthy addresses go on
        script.lane([Ev("F:dg2", dg(b"f2", faddr))])
        for i in range(1, nh + 1):
            ha = ("127.0.0.1", H_PORT + i)
            script.lane([Ev(f"H{i}:dg3", dg(f"h{i}r3".encode(), ha))])
        script.lane([Ev("H9:dg1", dg(b"h9r1", ("127.0.0.1", H_PORT + 9)))])
        await script.quiescent()
        out["serving2"] = server.is_serving() and not task.done()
        out["txd"] = [(bytes(d), who_of(a[1])) for d, a in usock.txd]
        out["alive"] = sorted(str(v) for v in rec.alive.values())
        if task.done() and not task.cancelled():
            out["serve_exc"] = repr(task.exception())[:400]
        await server.shutdown()
        try:
            await task
            out["serve_result"] = "returned"
        except BaseException as exc:  # noqa: BLE001
            out["serve_result"] = "raised " + repr(exc)[:300]
        await server.server_close()
        out["open_after"] = sorted(s.tag for s in world.open_sockets())

    status, value, loop = vloop.run(world, main)
    out["status"] = status if status != "exc" else "exc:" + repr(value)[:300]
    out["log"] = list(rec.log)
    out["fired"] = common.fired
    out["overlap"] = list(rec.overlap)
    out["applied"] = [(a, round(t, 6), s) for a, t, s in script.applied]
    out["pending"] = [lane[0].label for lane in script.lanes if lane]
    out["placed_busy"] = script.placed_busy
    out["unhandled"] = [u.get("exception") or u.get("message") for u in vloop.collect_unhandled(loop)]
    t = holder.get("task")
    if t is not None and t.done() and not t.cancelled() and "serve_exc" not in out:
        out["serve_exc"] = repr(t.exception())[:400]
    return out


def oracle_udp(cfg: dict, obs: dict) -> tuple[str | None, str]:
    log = obs.get("log", [])
    if obs["status"] != "ok":
        st = obs["status"].split(":")[0]
        if st == "deadlock" and obs.get("serve_exc"):
            return "server-stopped-by-client-failure", f"serve_forever() died with {obs['serve_exc']}; events never applied: {obs.get('pending')}; log={log}"
        if st == "deadlock":
            return "hang", f"nothing can run any more; events never applied: {obs.get('pending')}; log={log}"
        if st == "horizon":
            return "livelock", f"{obs['status']} log={log}"
        return "execution-raised-" + obs["status"][4:].split("(")[0], f"{obs['status']} log={log}"
    if not obs.get("up"):
        return "server-not-up", ""
    nh = cfg["healthy"]
    if not obs["serving1"]:
        return "server-stopped-by-client-failure", f"is_serving() is false after the faulty datagram; serve task: {obs.get('serve_exc')} log={log}"
    if not obs["serving2"]:
        return "server-stopped-later", f"serve task: {obs.get('serve_exc')} log={log}"
    for tag in [f"H{i}" for i in range(1, nh + 1)] + ["H9"]:
        n = tag[1:]
        want = [f"ok:h{n}r{k}".encode() for k in ((1, 2, 3) if tag != "H9" else (1,))]
        got = [d for d, a in obs["txd"] if a == tag]
        if got != want:
            return "healthy-client-missed-a-response", f"{tag} received {got}, expected {want}; log={log}"
        thrown = [e for e in log if e[0] == tag and e[1] == "thrown"]
        if thrown:
            return "exception-thrown-into-healthy-handler", f"{thrown}; log={log}"
    # the faulty address: its later datagram f2 is served by a fresh generator
    f_entries = [e for e in log if e[0] == "F"]
    if ("F", "req", "f2") not in f_entries:
        return "later-datagram-of-faulty-address-not-served", f"log={log}"
    i2 = f_entries.index(("F", "req", "f2"))
    if i2 == 0 or f_entries[i2 - 1] != ("F", "gen-start") or ("F", "gen-final") not in f_entries[:i2]:
        return "later-datagram-not-served-by-a-fresh-generator", f"log={log}"
    if (b"ok:f2", "F") not in obs["txd"]:
        return "later-datagram-of-faulty-address-not-answered", f"sent={obs['txd']}"
    if obs["fired"] != 1:
        return "fault-not-injected", f"harness: the fault fired {obs['fired']} times; log={log}"
    if obs["overlap"]:
        return "two-generators-alive-for-one-address", f"{obs['overlap']}"
    if obs["alive"]:
        return "generator-left-suspended", f"{obs['alive']}; log={log}"
    if obs["serve_result"] != "returned":
        return "serve_forever-raised-at-shutdown", f"{obs['serve_result']}"
    if obs["open_after"]:
        return "socket-leak-after-shutdown", f"{obs['open_after']}"
    return None, ""


# ---------------------------------------------------------------------------------------------------------
# enumeration


def scenarios(tier: str) -> list[dict]:
    out = []
    for nh in (1, 2):
        ubound = 1 if tier == "quick" else 2
        bound = 1 if (tier == "quick" or nh == 2) else 2  # TCP with 2 healthy clients: ~9000 executions per scenario at bound 2
        for proto in ("copy", "buf"):
            for pos in TCP_POS:
                for exc in EXC:
                    if tier == "quick" and proto == "buf" and nh == 2:
                        continue
                    out.append({"kind": "tcp", "proto": proto, "healthy": nh, "pos": pos, "exc": exc, "fault": None, "bound": bound})
            for fault in ("enotconn", "connect-enotconn", "connect-einval", "pipelined-bad-frame", "bad-timeout"):
                out.append({"kind": "tcp", "proto": proto, "healthy": nh, "pos": "none", "exc": "ValueError", "fault": fault, "bound": bound})
            for pos in ("oc-coro", "disc", "h-finally-exit"):
                for exc in EXC:
                    if tier == "quick" and exc not in ("ValueError", "ConnReset", "BEG"):
                        continue
                    out.append({"kind": "tcp", "proto": proto, "healthy": nh, "pos": pos, "exc": exc, "fault": "reset", "bound": bound})
        for pos in UDP_POS:
            for exc in EXC:
                out.append({"kind": "udp", "healthy": nh, "pos": pos, "exc": exc, "fault": None, "bound": ubound})
    return out


def jobs(tier: str) -> list[dict]:
    sc = scenarios(tier)
    per = 4 if tier == "quick" else 1
    out: list[dict] = [{"tier": tier, "lo": i, "hi": min(i + per, len(sc))} for i in range(0, len(sc), per)]
    from . import c17_tls

    out += c17_tls.jobs(tier)  # TLS listener: connection set-up faults (garbage / stalled / cut / reset handshakes) next to healthy TLS clients
    return out


def describe(cfg: dict) -> str:
    if cfg["kind"] == "tcp":
        return (f"tcp/{cfg['proto']} fault={cfg.get('fault') or 'handler'} exception={cfg['exc']} position={cfg['pos']} healthy_clients={cfg['healthy']}")
    return f"udp exception={cfg['exc']} position={cfg['pos']} healthy_addresses={cfg['healthy']}"


def run_one(ctx: Ctx, cfg: dict) -> dict:
    return run_tcp(ctx, cfg) if cfg["kind"] == "tcp" else run_udp(ctx, cfg)


def oracle(cfg: dict, obs: dict) -> tuple[str | None, str]:
    return oracle_tcp(cfg, obs) if cfg["kind"] == "tcp" else oracle_udp(cfg, obs)


def run_job(job: dict) -> JobResult:
    if job.get("kind") == "tls":
        from . import c17_tls

        return c17_tls.run_job(job)
    res = JobResult()
    for cfg in scenarios(job["tier"])[job["lo"]:job["hi"]]:
        found: dict[str, tuple[Ctx, dict, str]] = {}

        def check(ctx: Ctx, obs: dict, cfg: dict = cfg) -> bool:
            res.evaluations += 1
            if res.evaluations % 1000 == 0:
                gc.collect()  # abandoned loops/tasks are cyclic garbage: keep the workers' memory flat
            sym, msg = oracle(cfg, obs)
            if sym is None:
                fh = [e[1] for e in obs["log"] if e[0] == "F" and e[1] in ("conn", "disc")]
                res.outcome(f"ok:{cfg['kind']}:{cfg.get('fault') or 'handler-fault'}:faulty-hooks={'+'.join(fh) or 'none'}")
                if obs["placed_busy"]:
                    res.count("executions_with_busy_placement")
                if obs["unhandled"]:
                    res.count("executions_with_loop_exception_handler_calls")
            else:
                res.outcome("VIOLATION:" + sym)
                if sym not in found:
                    found[sym] = (ctx, obs, msg)
            if any(ctx.choices):
                res.nontrivial.add(digest((describe(cfg), obs["log"])))
            return sym is not None

        stats = explore(lambda ctx, cfg=cfg: run_one(ctx, cfg), bound=cfg["bound"], check=check, max_runs=200000)
        res.transitions += stats["points"]
        res.count("scenarios")
        if stats["cap_hit"]:
            res.caps.append("max_runs")
        if stats.get("diverged_after_violation"):
            res.caps.append("exploration of a scenario abandoned after a violation (the broken run does not replay deterministically)")
        for sym, (ctx, obs, msg) in found.items():
            fam = f"{cfg['kind']}/{cfg.get('fault') or 'handler'}/{cfg['pos']}/{cfg['exc']}"
            res.violations.append(Violation(
                f"{fam}/{sym}",
                f"{describe(cfg)}: {msg} | events={[a for a, _t, _s in obs.get('applied', [])]} choices={ctx.choices}",
                {"cfg": cfg, "choices": list(ctx.choices), "labels": [p[1] for p in ctx.points]},
            ))
        if len(res.samples) < 2 and stats["runs"] > 1:
            res.samples.append({"scenario": describe(cfg), "executions": stats["runs"], "choice_points_max": stats["max_depth"], "deviation_bound": cfg["bound"]})
    return res


def replay(doc: dict) -> tuple[bool, str]:
    rp = doc["replay"]
    if rp.get("kind") == "tls":
        from . import c17_tls

        return c17_tls.replay(doc)
    cfg = rp["cfg"]
    ctx = Ctx(rp["choices"])
    obs = run_one(ctx, cfg)
    sym, msg = oracle(cfg, obs)
    lines = [describe(cfg), f"choices={rp['choices']}", "labels=" + ",".join(p[1] for p in ctx.points),
             f"events applied (label, virtual time, select#)={obs['applied']}", f"status={obs['status']}", "hook log:"]
    lines += [f"  {e}" for e in obs["log"]]
    for k in ("serving1", "serving2", "f_closed", "open1", "tx", "txd", "closed2", "serve_exc", "serve_result", "open_after", "unhandled"):
        if k in obs:
            lines.append(f"{k}={obs[k]!r}")
    lines.append(f"oracle: {sym} {msg}")
    return sym is not None, "\n".join(lines)
