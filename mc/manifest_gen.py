"""Regenerates /verif/MANIFEST.json from the table below:  /venv/bin/python -m mc.manifest_gen"""
from __future__ import annotations

import json
import os
import subprocess

VERIF = os.path.dirname(os.path.dirname(os.path.abspath(__file__)))

TRUST = ("CPython 3.12, the stdlib (asyncio, ssl/OpenSSL, zlib, bz2, json) are executed, not modelled; "
         "the harness owns clock, selector, sockets and every scheduling decision; bounds as stated in the evidence")

CHECKS: dict[str, dict] = {
    "C01": dict(
        cat="model_checking", ref="DESIGN.md §3 C01, §2 E5", engine="E5 chunkmc",
        technique="explicit-state model checking of the real stream consumers: exhaustive search over all chunkings, states merged on canonical consumer heap, merge validated against pure path enumeration",
        text="Every packet sequence up to the tier's length over each serializer's alphabet, every partition of the produced byte stream into reads, both receive paths, every buffer-size hint: the real consumer must return exactly the packets and hold nothing afterwards. The whole chunking space is covered (not sampled) through state merging; where merging is impossible (compressor output partitions) the evidence names the cut bound.",
    ),
    "C02": dict(
        cat="model_checking", ref="DESIGN.md §3 C02, §2 E5", engine="E5 chunkmc",
        technique="explicit-state model checking of the real stream consumers against an independent reference frame decoder (NFA match with latitude exactly where the statement leaves it)",
        text="All streams of valid/undecodable/largest-safe/at-limit/over-limit frames in every order (bounded length), all chunkings, both paths, separator lengths 1-3, several limits: output must equal frame-by-frame reference decoding for safe frames and resume intact after the terminator of a size-rejected frame.",
    ),
    "C06": dict(
        cat="exploration", ref="DESIGN.md §3 C06", engine="E5 drivers + input enumeration",
        technique="bounded exhaustive input enumeration on the real code (all strings over structural alphabets up to length L, complete edit neighbourhoods, complete depth/length ladders up to the configured limit)",
        text="Every enumerated input, through one-shot, datagram, copying and buffer-filling paths of every shipped serializer importable here, must end as packet, parse error or still-waiting; any other exception type, a hang, or an error that consumes no byte is a violation. Complete within the stated alphabets/lengths; says nothing about bytes outside the alphabets.",
    ),
    "C07": dict(
        cat="model_checking", ref="DESIGN.md §3 C07, §2 E5", engine="E5 chunkmc",
        technique="explicit-state model checking of the real stream consumers: invariant (held bytes <= limit+read+separator) checked in every reachable state under all chunkings with reads <= r; safe frames under all chunkings",
        text="For limits, separator lengths and read sizes in the stated sets every chunking of an unterminated payload keeps held bytes within limit+read+separator (a limit error is raised before), and frames safely under the limit are never rejected for size, on both receive paths.",
    ),
    "C04": dict(
        cat="model_checking", ref="DESIGN.md §3 C04, §2 E1/E3/E2", engine="E1 world + E3 vblock + E2 vloop",
        technique="explicit-state exploration of the real send loops on a fake socket: every answer sequence of send()/sendmsg() (all partial sizes, EAGAIN, EINTR, reset) and every unblock delay, states merged on (offered buffers, wire, clock, fault budget), livelock = state repeated without an environment choice; asyncio adapter by deviation-bounded schedule enumeration; blocking TLS socket (props/c04_tls.py): deviation-bounded enumeration of the peer's read behaviour at every wait for writability over a real socketpair with the minimum send buffer",
        text="For all chunk sequences up to the bound (empty chunks everywhere) and all socket answer sequences (no deviation bound on the blocking paths) the bytes on the wire equal the concatenation on success and a prefix of it on TimeoutError/OSError, the call never spins or blocks forever and never exceeds its budget; five blocking send paths plus the asyncio adapter. Blocking TLS socket: one packet of 40000-300000 bytes reaches the stdlib-ssl peer exactly once or TimeoutError is raised within the budget with a prefix sent.",
    ),
    "C10": dict(
        cat="exploration", ref="DESIGN.md §3 C10, §2 E2", engine="E2 vloop + mc/envsched.py",
        technique="stateless schedule enumeration on the real asyncio loop: every peer write and the cancel request placed at every loop-iteration boundary (same-iteration races as bounded deviations, explicit coincidence with the scope deadline); blocking endpoint by complete enumeration of arrival instants; TLS over the real socket adapter (props/c10_tls.py): cancel offered at every select() while receive #1 is pending, ciphertext delivered whole / fragmented / held",
        text="For every receive layer (transport recv/recv_into, both endpoint receive paths, blocking endpoint) and every canceller (task.cancel, canceller task, move_on_after, timeout) all relative orders of {read callback, cancel request, task wake-up} within the stated deviation bound: the data returned by the receives that completed is exactly the peer's stream. Same for AsyncTLSStreamTransport.recv/recv_into over the socket adapter against a stdlib-ssl peer (lost ciphertext would surface as a record error, a hang or missing plaintext).",
    ),
    "C20": dict(
        cat="model_checking", ref="DESIGN.md §3 C20", engine="E2 vloop + BFS over the real WriteFlowControl",
        technique="explicit-state BFS to a fixpoint over the real WriteFlowControl object (state rebuilt by replaying the event history, canonical state hashing) plus deviation-bounded schedule enumeration of the real asyncio stream/datagram adapters on fake sockets",
        text="Every reachable WriteFlowControl state (<= 3 waiters) satisfies: no waiter pending once resumed or lost, no leak in the waiter queue, suspended drains stay suspended while paused; on the real adapters a send returns only when its bytes/datagram left user space, suspended senders resume when the peer reads, fail on loss, and cancelling one does not strand the others.",
    ),
    "C19": dict(
        cat="exploration", ref="DESIGN.md §3 C19", engine="E2 vloop + mc/envsched.py",
        technique="stateless schedule and fault enumeration on the real asyncio loop: completion of every connect attempt and one external cancel placed at every loop-iteration boundary and relative to the stagger timer (incl. exact coincidence), socket()/bind() faults per attempt",
        text="All address lists up to the bound, all outcome vectors (connects / refused / hangs / socket() fails / bind() fails), all completion orders within the deviation bound: exactly one open socket is returned on success, every other created socket is closed, failure carries one error per attempt, cancellation closes everything including an already chosen winner, no attempt task survives.",
    ),
    "C03": dict(
        cat="model_checking", ref="DESIGN.md §3 C03", engine="E1 world + E3 vblock + E2 vloop + E5 canon",
        technique="explicit-state exploration of the real blocking endpoint/client on a fake socket (every chunking x every close offset x every call history, states merged on delivered bytes, calls, results and canonical receiver heap) against a list reference model; async endpoint/client by schedule enumeration",
        text="For every stream up to 3 packets (+ partial trailing frame), every byte offset of the peer's close, every chunking and every history of recv_packet / iter_received_packets calls with timeouts in {None, >0, 0}: each complete packet exactly once in order, end-of-stream only after all of them, never a partial frame, and end-of-stream is sticky without blocking. Packets whose value is None / 0 / False are delivered like any other (also when served from the buffer).",
    ),
    "C11": dict(
        cat="exploration", ref="DESIGN.md §3 C11, §2 E3", engine="E1 world + E3 vblock (+E2 for the async iterator, E4 vthreads for lock contention, E7 tlsrig for the real TLS transport)",
        technique="complete enumeration of arrival schedules (cuts x delay tuples) x timeouts x retry intervals on a virtual clock, spurious readiness as bounded deviations; oracle = exact virtual elapsed time against the reference 'return at A iff A < T else TimeoutError at T'",
        text="For every enumerated arrival schedule the blocking call returns the packet at the instant its last byte arrived iff that is before the deadline, else raises TimeoutError exactly T after it started (never earlier, never later), T=0 never waits, iterators share one budget across packets. Ties with the deadline are excluded and counted. One known finding (TLS-like short reads with T=0) is keyed separately. Blocking send paths keep the budget across partial writes and retry-interval wake-ups (a wait ended early by readiness is still deducted).",
    ),
    "C05": dict(
        cat="model_checking", ref="DESIGN.md §3 C05", engine="zoo + E1/E2/E3",
        technique="exhaustive enumeration of datagram sequences (valid, truncated at every offset, extra byte, concatenated, empty) over the real DatagramProtocol and four real endpoint/client implementations on fake datagram sockets, each datagram compared with a fresh-object reference decode",
        text="Every serializer importable here (plus pickle with a restricted unpickler): packets round-trip through one datagram; for all datagram sequences up to the bound each datagram yields exactly one result that depends on that datagram alone; k sends produce exactly k datagrams equal to make_datagram(p); nothing is carried over between receives, on blocking and asynchronous endpoints and UDP clients. Datagrams of 1000..65527 bytes are received and sent intact through the four implementations (size band).",
    ),
    "C12": dict(
        cat="exploration", ref="DESIGN.md §3 C12", engine="E2 vloop + mc/envsched.py + BFS over the real FairLock + E4 vthreads (props/c12_threads.py)",
        technique="stateless schedule enumeration of N concurrent senders on the real asyncio client over a tiny fake pipe (peer drain steps placed at loop-iteration boundaries, deviation-bounded) plus explicit-state BFS to a fixpoint over the real FairLock, plus preemption-bounded scheduling of two real threads on the blocking TCP/UDP clients (baton scheduler, partial writes)",
        text="Every explored interleaving of 2-3 concurrent send_packet calls (three chunks per packet, transport suspending at arbitrary points) leaves a wire that parses into exactly the multiset of sent packets, each contiguous, per-sender order kept, every call succeeding; on the raw endpoint the loser gets BusyResourceError and the wire stays intact; every reachable FairLock state satisfies mutual exclusion, FIFO hand-off and no lost wake-up. The server-side client object of a running AsyncTCPNetworkServer is driven the same way (send_packet from tasks other than the handler's).",
    ),
    "C14": dict(
        cat="fault_enumeration", ref="DESIGN.md §3 C14", engine="E2 vloop + mc/envsched.py + mc/memtransport.py + E7 tlsrig (props/c14_tls.py)",
        technique="crash-point enumeration on the real asyncio loop: task.cancel() of the closing task and a second aclose() injected at every loop-iteration boundary of every close path, crossed with leaf-transport faults (raise / slow / block forever) and peer behaviours (reads later / never); TLS: aclose with a peer that answers close_notify or stays silent (shutdown timeout), wrap() with the handshake cut at several offsets or stalled (handshake timeout)",
        text="For every close path and every injected cancellation point and leaf fault: when the closing task has finished (returned, raised, cancelled) every leaf transport / socket is closed, is_closing() is true, a concurrent second close returns no later than 3 iterations after the first, a later close returns at once; both halves of a stapled pair are closed even if closing the first fails. Also the server-side client object's aclose() and the tear-down of its task by server.shutdown(), clean and with unsent data.",
    ),
    "C08": dict(
        cat="exploration", ref="DESIGN.md §3 C08, §2 E7", engine="E7 tlsrig + E2 vloop (+ E3 for the blocking transport)",
        technique="stateless schedule enumeration of the real TLS transports against an independent stdlib SSLObject peer through a byte-level ciphertext relay: every write-script pair, deviation-bounded partial deliveries at every relay step, uniform fragmentations, both directions concurrently; full duplex under back-pressure (props/c08_duplex.py): writers blocked in the leaf's send_all until the reader drained the peer, task start orders and gaps enumerated",
        text="Plaintext read by each side equals the concatenation of the other side's writes for every explored fragmentation/delay pattern with both directions active; handshake and transfers finish; a marker placed in every plaintext write never reaches the wrapped transport. Complete within the stated deviation bounds and uniform fragmentations (the full product is exponential and is not claimed). With the library's writer(s) blocked by a peer that reads only after its own write went through, the reader still drains the peer and every task finishes.",
    ),
    "C09": dict(
        cat="fault_enumeration", ref="DESIGN.md §3 C09, §2 E7", engine="E7 tlsrig",
        technique="fault enumeration: raw EOF injected at every byte offset (thorough) / every structural offset (quick) of the peer-to-library ciphertext stream of a fixed session, x standard_compatible x TLS 1.2/1.3 x client/server x async (in-memory leaf, real asyncio adapter) and blocking transports, plus cuts of the peer's answer to our close_notify",
        text="In standard-compatible mode a cut before the end of the peer's close_notify is never reported as a clean end-of-stream (transport and endpoint level), plaintext of fully delivered records is still readable first, a cut inside the handshake makes wrap() raise with the wrapped transport closed; without standard-compatible mode an abrupt end is end-of-stream; closing sends close_notify. The real TCPNetworkClient / AsyncTCPNetworkClient with ssl=True (their own default context, also when create_default_context() returns it with OP_IGNORE_UNEXPECTED_EOF set) carry the TLS error in the exception chain of the ConnectionAbortedError for every truncation and none for a clean close. With a reader parked in recv() while another task closes the transport: the reader reports a clean end-of-stream only if the peer answered with close_notify, and a close that returns has sent the library's close_notify.",
    ),
    "C15": dict(
        cat="exploration", ref="DESIGN.md §3 C15", engine="mc/srvrig.py on E2 vloop",
        technique="stateless schedule enumeration of the real AsyncTCPNetworkServer / AsyncStreamServer on fake listener sockets against a lock-step reference model: all chunkings (<= 3 cuts + uniform), chunk/disconnect placement at loop-iteration boundaries, timed arrivals kept away from deadlines, enumerated handler shapes",
        text="For every explored request stream, chunking, arrival schedule and handler shape each request reaches the handler exactly once and in order across generator restarts, a malformed frame is thrown at its position and later frames still arrive, TimeoutError only when no complete frame arrived in time, the active generator is closed exactly once and the connection is closed on disconnect/close.",
    ),
    "C16": dict(
        cat="exploration", ref="DESIGN.md §3 C16", engine="mc/srvrig.py on E2 vloop",
        technique="stateless schedule enumeration of the real AsyncUDPNetworkServer / AsyncDatagramServer on a fake datagram socket against a per-address FIFO single-server reference: every arrival sequence over two addresses, free placement at loop-iteration boundaries, enumerated handler shapes",
        text="Per address datagrams are handled exactly once in arrival order, at most one handler generator is alive per address, everything queued is eventually handled (by the running or a fresh generator), a slow handler of one address does not delay the other, for all explored interleavings within the stated bounds. Queued datagrams survive a handler generator that ends with CancelledError, and datagrams read before serve() is awaited are all delivered in order.",
    ),
    "C17": dict(
        cat="fault_enumeration", ref="DESIGN.md §3 C17", engine="mc/srvrig.py on E2 vloop",
        technique="fault enumeration on the real TCP/UDP servers: 9 exception classes x 9 hook positions x connection set-up faults, with 1-2 healthy clients whose exchanges are interleaved with the faulty client's; TLS listener (props/c17_tls.py): 20 handshake faults (garbage, EOF, reset, stalled at several offsets, corrupted or missing second flight, ragged end after the handshake, refused version) x TLS 1.2/1.3 next to healthy stdlib-ssl clients",
        text="After every injected failure the server keeps serving, every healthy client gets every response, the faulty TCP client's socket is closed and its disconnection hook runs iff documented, a later datagram from the faulty UDP address gets a fresh handler, and no socket leaks. For the TLS listener: a failed, stalled (closed at the handshake timeout, not earlier) or cut handshake never stops the server, never delays a healthy TLS client by more than 0.25 virtual seconds per step and never reaches on_connection.",
    ),
    "C13": dict(
        cat="exploration", ref="DESIGN.md §3 C13, §2 E6", engine="E6 progmc on E2 vloop",
        technique="exhaustive enumeration of all small programs of a cancel-scope grammar (bounded node count and nesting) run on the real backend over the virtual loop, external task.cancel() injected at every reference midpoint and at every loop-iteration index, compared with a reference interpreter (trace equality / clause form); ties skipped and counted",
        text="For every enumerated program and injection: bodies of cancelled scopes are abandoned at the next unshielded checkpoint, a scope that was not cancelled never swallows a cancellation, timeout() raises iff its scope caught, no leftover cancellation request after scope exit, shielded sections run to completion with the pending cancellation delivered afterwards. Three genuine defects (F5, G1, G2) are recorded as known findings with their specific keys.",
    ),
    "C18": dict(
        cat="exploration", ref="DESIGN.md §3 C18, §2 E4", engine="E2 vloop (async servers) + E4 vthreads (standalone servers)",
        technique="stateless enumeration of lifecycle call sequences: async servers with every call started at every loop-iteration boundary (complete for sequences of <= 4 calls, thorough 5); standalone servers as real threads under a baton scheduler with preemption-bounded schedules (bound 2, thorough 3) over all synchronisation points; oracle = reference lifecycle state machine",
        text="For all explored orders and interleavings of serve_forever / shutdown / server_close / client activity: shutdown returns only when no serve is in progress and never blocks forever, a stopped server can serve again unless closed, a closed server refuses with ServerClosedError, an overlapping serve_forever is refused with ServerAlreadyRunning, listeners are closed after server_close, nothing deadlocks. One transient known finding (standalone server_close during portal exit) is keyed separately. Threads: a serve_forever() that had passed its state checks before shutdown() was called does not come up after that shutdown() returned.",
    ),
}

NOT_YET: dict[str, str] = {}


def main() -> None:
    props = [json.loads(l)["id"] for l in open(os.path.join(VERIF, "properties.jsonl"))]
    checks = []
    for pid in props:
        if pid not in CHECKS:
            continue
        c = CHECKS[pid]
        checks.append({
            "property_id": pid,
            "quick_cmd": f"./check {pid} --tier quick",
            "thorough_cmd": f"./check {pid} --tier thorough",
            "evidence_file": f"/verif/evidence/{pid}.json",
            "replay_cmd_template": f"./check {pid} --replay {{path}}",
            "engine": c["engine"],
            "level_claimed": {"category": c["cat"], "text": c["text"], "design_ref": c["ref"]},
            "level_note": c.get("note", TRUST),
            "technique": c["technique"],
        })
    na = [{"property_id": pid, "reason": NOT_YET.get(pid, "check not built yet (work in progress, see DESIGN.md §9); model checking does apply")}
          for pid in props if pid not in CHECKS]
    try:
        commits = subprocess.run(["git", "-C", "/repo", "log", "--format=%H %s", "--grep=^verif-hook:"], capture_output=True, text=True).stdout.split("\n")
        commits = [c.split()[0] for c in commits if c.strip()]
    except Exception:
        commits = []
    doc = {
        "version": 1,
        "setup_cmd": "./setup.sh",
        "hooks": {
            "guard": "EASYNETWORK_VERIF",
            "enable": "no source hook is needed: every seam is a public constructor argument, a subclass of a public ABC or a harness-process monkeypatch of a module name (DESIGN.md §7); ./check exports EASYNETWORK_VERIF=1 for the contract's sake",
            "baseline_off_cmd": "cd /repo && /venv/bin/python -m pytest -ra -q -p no:cacheprovider --timeout=900 --continue-on-collection-errors",
            "source_commits": commits,
            "add_only": True,
        },
        "engines": [
            {"name": "E0 core", "path": "mc/core.py", "serves_properties": props, "kind_free_text": "choice-point explorer (deviation-bounded DFS by re-execution), job runner, evidence/replay/known-findings plumbing"},
            {"name": "E1 world", "path": "mc/world.py", "serves_properties": ["C03", "C04", "C05", "C10", "C11", "C12", "C14", "C15", "C16", "C17", "C18", "C19", "C20"], "kind_free_text": "virtual clock, pipes, FakeSocket (socket.socket subclass, in-memory I/O whose answers the explorer chooses), VSelector"},
            {"name": "E2 vloop", "path": "mc/vloop.py", "serves_properties": ["C04", "C10", "C12", "C13", "C14", "C15", "C16", "C17", "C18", "C19", "C20"], "kind_free_text": "the stock asyncio SelectorEventLoop driven by the virtual world"},
            {"name": "E7 tlsrig", "path": "mc/tlsrig.py", "serves_properties": ["C04", "C08", "C09", "C10", "C11", "C12", "C14", "C17"], "kind_free_text": "Ed25519 test certificate, independent stdlib SSLObject peer, byte-level ciphertext relay (fragment / cut / hold), in-memory leaf transport, blocking variant over a socketpair"},
            {"name": "srvrig", "path": "mc/srvrig.py", "serves_properties": ["C12", "C14", "C15", "C16", "C17"], "kind_free_text": "real EasyNetwork servers on fake listener / datagram sockets, scripted peers placed at loop-iteration boundaries, handler recorder"},
            {"name": "E6 progmc", "path": "mc/progmc.py", "serves_properties": ["C13"], "kind_free_text": "program enumerator for the cancel-scope grammar, reference interpreter, real interpreter on the virtual loop, trace diff"},
            {"name": "E4 vthreads", "path": "mc/vthreads.py", "serves_properties": ["C11", "C12", "C18"], "kind_free_text": "baton-passing scheduler of real threads: controlled Lock/RLock/Event/Condition/Thread swapped into the library's modules, cooperating event loop, preemption-bounded choices, virtual deadlines, deadlock detection"},
            {"name": "E5 chunkmc", "path": "mc/chunkmc.py", "serves_properties": ["C01", "C02", "C03", "C05", "C06", "C07"], "kind_free_text": "explicit-state search over the real stream consumers with canonical heap fingerprints"},
        ],
        "checks": checks,
        "not_applicable": na,
        "notes": "All checks explore the real implementation (no separate model): traces_validated_against_impl == evaluations. VERIF_SEED only rotates the work list. Exit 3 + INTERNAL = harness fault, never a violation (an uncaught exception raised by library code is reported as a crash/<type> violation instead). Known findings: known_findings.json (KNOWN-FINDING lines, exit 0). Independently written breaking changes and what caught them: seeded/ and DESIGN.md 10.5.",
    }
    with open(os.path.join(VERIF, "MANIFEST.json"), "w") as f:
        json.dump(doc, f, indent=1)
        f.write("\n")
    print("MANIFEST.json:", len(checks), "checks,", len(na), "not yet claimed")


if __name__ == "__main__":
    main()
