"""Shared rig of the server checks (C15, C16, C17): the real high-level / low-level servers of EasyNetwork on the
virtual loop (E2), fake listener sockets (E1), and a scripted environment whose events are placed by the explorer.

Pieces
* ``RigBackend``   - ``AsyncIOBackend`` whose ``create_tcp_listeners`` / ``create_udp_listeners`` hand out the REAL
                     ``ListenerSocketAdapter`` / ``DatagramListenerSocketAdapter`` over FakeSockets of the world.
* ``Script``       - the environment: ordered *lanes* of events (one lane per peer).  An event is either *timed* (fires
                     ``delay`` seconds after the previous event of its lane) or *untimed* (placed by the explorer at an
                     iteration boundary: ``ctx.choose`` at every ``select``).  Ties with timers of the code under test are
                     excluded by construction (see ``Script.env``).
* ``Recorder``     - what request handlers observe (values / exceptions at every ``yield``, generator life cycle).
* ``quiet_logger`` - a logger that swallows everything (error logs of the servers are not an observable of C15-C17).
"""
from __future__ import annotations

import asyncio
import collections
import functools
import logging
from typing import Any, Callable

from easynetwork.lowlevel.api_async.backend._asyncio.backend import AsyncIOBackend
from easynetwork.lowlevel.api_async.backend._asyncio.datagram.listener import DatagramListenerProtocol, DatagramListenerSocketAdapter
from easynetwork.lowlevel.api_async.backend._asyncio.stream.listener import AcceptedSocketFactory, ListenerSocketAdapter

from .core import Ctx
from .world import FakeSocket, World

TIE_GUARD = 0.010  # no untimed event is applied while a live timer of the loop is due within 10 ms (DESIGN 6, rule 2)


# ---------------------------------------------------------------------------------------------------------
# logging


class _Null(logging.Handler):
    def emit(self, record: logging.LogRecord) -> None:  # pragma: no cover
        pass


_QUIET: logging.Logger | None = None


def quiet_logger() -> logging.Logger:
    global _QUIET
    if _QUIET is None:
        lg = logging.getLogger("verif.srvrig.quiet")
        lg.propagate = False
        lg.handlers[:] = [_Null()]
        lg.setLevel(logging.CRITICAL + 10)
        _QUIET = lg
        # the listeners log through their module loggers ("Error in client task", ...): silence those too
        for name in ("easynetwork", "asyncio"):
            l2 = logging.getLogger(name)
            l2.propagate = False
            l2.handlers[:] = [_Null()]
            l2.setLevel(logging.CRITICAL + 10)
    return _QUIET


# ---------------------------------------------------------------------------------------------------------
# backend


class RigBackend(AsyncIOBackend):
    """The asyncio backend, unmodified, except that listeners are built on fake sockets of the world."""

    __slots__ = ("world", "tcp_listener_socks", "udp_listener_socks")

    def __init__(self, world: World) -> None:
        super().__init__()
        self.world = world
        self.tcp_listener_socks: list[FakeSocket] = []
        self.udp_listener_socks: list[FakeSocket] = []

    async def create_tcp_listeners(self, host: Any, port: int, backlog: int, *, reuse_port: bool = False) -> Any:
        lsock = self.world.listener_socket()
        lsock.tag = "listener"
        self.tcp_listener_socks.append(lsock)
        return [ListenerSocketAdapter(self, lsock, AcceptedSocketFactory())]

    async def create_udp_listeners(self, host: Any, port: int, *, reuse_port: bool = False) -> Any:
        sock = self.world.dgram_socket(peer=None)
        sock.tag = "udp-listener"
        self.udp_listener_socks.append(sock)
        loop = asyncio.get_running_loop()
        transport, protocol = await loop.create_datagram_endpoint(functools.partial(DatagramListenerProtocol, loop=loop), sock=sock)
        return [DatagramListenerSocketAdapter(self, transport, protocol)]


# ---------------------------------------------------------------------------------------------------------
# scripted environment


def _noop() -> None:
    return None


class Ev:
    __slots__ = ("label", "apply", "delay", "gate")

    def __init__(self, label: str, apply: Callable[[], Any], delay: float | None = None, gate: Callable[[], bool] | None = None) -> None:
        self.label = label
        self.apply = apply
        self.delay = delay  # None: untimed (placed by the explorer); float: fires `delay` after the previous event of its lane
        self.gate = gate  # untimed events only: not offered before gate() is true (e.g. "the response to my request arrived")


class Script:
    """The environment of one execution.

    Placement of untimed events (``place`` choice, at every select with a pending untimed lane head):
      * loop busy (``select(0)``): alternatives ``[hold, apply head of lane i ...]``; default = hold.
      * loop idle, no timer/timed event ahead: the head MUST be applied (``idle-lane`` chooses the lane if several;
        default = first lane, or with ``idle_rr`` the lane after the one served last).
      * loop idle, a timer or a timed event ahead: ``[apply now, ..., let the time pass]`` (``idle-wait``; at most
        ``max_waits`` times per execution).
    Exclusion of ties (DESIGN 6 rule 2): nothing is applied while ``hold`` is raised (a handler is inside a zero-delay
    timeout) or while a live loop timer is due within TIE_GUARD; timed events are given instants by the harnesses that
    stay >= 30 ms away from every deadline of the code under test.
    """

    def __init__(self, world: World, ctx: Ctx, *, place_costed: bool = True, place: bool = True, max_waits: int = 1,
                 lane_costed: bool = True, idle_rr: bool = False) -> None:
        self.world = world
        self.ctx = ctx
        self.place = place
        self.place_costed = place_costed
        self.lane_costed = lane_costed
        self.max_waits = max_waits
        self.waits = 0
        self.idle_rr = idle_rr  # when the loop idles, the default lane is the one after the lane served last (round robin)
        self.last_lane = -1
        self.lanes: list[collections.deque[Ev]] = []
        self.armed: list[bool] = []
        self.last_t: list[float] = []
        self.active = False
        self.hold = 0
        self.loop: Any = None
        self.waiter: asyncio.Future | None = None
        self.applied: list[tuple[str, float, int]] = []  # (label, virtual time, number of selects so far)
        self.seq = 0  # number of events applied so far (logical clock of the environment)
        self.placed_busy = 0
        world.env = self.env

    # -- building -------------------------------------------------------------------------------------
    def lane(self, events: list[Ev]) -> int:
        self.lanes.append(collections.deque(events))
        self.armed.append(False)
        self.last_t.append(self.world.clock)
        if self.active:
            self._arm(len(self.lanes) - 1)
        return len(self.lanes) - 1

    def start(self, loop: Any) -> None:
        self.loop = loop
        self.active = True
        for i in range(len(self.lanes)):
            self.last_t[i] = self.world.clock
            self._arm(i)

    def pending(self) -> bool:
        return any(self.lanes)

    # -- mechanics ------------------------------------------------------------------------------------
    def _arm(self, i: int) -> None:
        lane = self.lanes[i]
        if lane and lane[0].delay is not None and not self.armed[i]:
            self.armed[i] = True
            self.world.at(self.last_t[i] + lane[0].delay, functools.partial(self._fire, i))

    def _fire(self, i: int) -> None:
        # runs inside World.select (the loop is idle).  If the event has no effect on the loop (bytes for a socket that
        # the server closed meanwhile) the select would go on sleeping without consulting env() again: force one more
        # (empty) loop iteration so that untimed events / the quiescence test get their turn.
        self.armed[i] = False
        self._apply(i)
        if self.loop is not None and not self.world.runnable():
            self.loop.call_soon(_noop)

    def _apply(self, i: int) -> None:
        ev = self.lanes[i].popleft()
        self.seq += 1
        self.applied.append((ev.label, self.world.clock, self.world.selects))
        self.last_t[i] = self.world.clock
        self.last_lane = i
        ev.apply()
        self._arm(i)

    def _timer_close(self) -> bool:
        nt = self.world.next_timer()
        return nt is not None and nt <= self.world.clock + TIE_GUARD

    def env(self, world: World, sel: Any, timeout: float | None) -> None:
        if not self.active:
            return
        while True:
            cands = [i for i, lane in enumerate(self.lanes) if lane and lane[0].delay is None and (lane[0].gate is None or lane[0].gate())]
            busy = timeout == 0 or world.runnable() or bool(world._ready(sel))
            if not cands:
                break
            if self.idle_rr and len(cands) > 1:
                nl = len(self.lanes)
                cands.sort(key=lambda i: (i - self.last_lane - 1) % nl)
            if self.hold or self._timer_close():
                return  # tie exclusion: let the zero-delay cancellation / the imminent timer happen first
            if busy:
                if not self.place:
                    return
                c = self.ctx.choose(1 + len(cands), "place", costed=self.place_costed)
                if c:
                    self.placed_busy += 1
                    self._apply(cands[c - 1])
                return
            ahead = timeout is not None or bool(world.timed)
            if ahead and self.waits < self.max_waits:
                c = self.ctx.choose(len(cands) + 1, "idle-wait", costed=self.lane_costed)
                if c == len(cands):
                    self.waits += 1
                    return
            elif len(cands) > 1:
                c = self.ctx.choose(len(cands), "idle-lane", costed=self.lane_costed)
            else:
                c = 0
            self._apply(cands[c])
            # an event without any effect on the loop (e.g. bytes for a socket the server already closed): go on
        if busy or timeout is not None or world.timed or self.pending():
            return
        # quiescence: nothing can run, no timer, nothing left to happen
        w = self.waiter
        if w is not None and not w.done():
            self.waiter = None
            self.loop.call_soon(w.set_result, None)

    async def quiescent(self) -> None:
        """Returns once every scripted event was applied and the loop has nothing left to do (no callback, no timer)."""
        fut = self.loop.create_future()
        self.waiter = fut
        await fut


# ---------------------------------------------------------------------------------------------------------
# what handlers observe


class Recorder:
    """Log of what request-handler generators observe.  No time, id() or address enters ``log`` (digests are taken of it);
    times and logical clocks are kept aside in ``yields``."""

    def __init__(self, world: World, script: Script) -> None:
        self.world = world
        self.script = script
        self.log: list[tuple] = []
        self.alive: dict[int, str] = {}  # generator number -> kind
        self.ngen = 0
        self.max_alive = 0
        self.exits: dict[int, int] = {}
        self.finals: dict[int, int] = {}
        self.yields: list[dict] = []
        self.overlap: list[tuple] = []
        self.items = 0

    def add(self, *entry: Any) -> None:
        self.log.append(tuple(entry))

    def gen_start(self, kind: str, group: Any = None) -> int:
        self.ngen += 1
        g = self.ngen
        same = [k for k in self.alive.values() if k == (kind, group)]
        if same:
            self.overlap.append((kind, group, len(same) + 1))
        self.alive[g] = (kind, group)
        self.max_alive = max(self.max_alive, len(self.alive))
        self.exits[g] = 0
        self.finals[g] = 0
        return g

    def gen_exit(self, g: int) -> None:
        self.exits[g] += 1

    def gen_final(self, g: int) -> None:
        self.finals[g] += 1
        self.alive.pop(g, None)

    def yield_begin(self, g: int, tau: float | None) -> dict:
        y = {"gen": g, "tau": tau, "t": self.world.clock, "seq": self.script.seq, "outcome": None, "t_resume": None, "seq_resume": None}
        self.yields.append(y)
        return y

    def yield_end(self, y: dict, outcome: str) -> None:
        y["outcome"] = outcome
        y["t_resume"] = self.world.clock
        y["seq_resume"] = self.script.seq


async def wait_until(pred: Callable[[], bool], limit: int = 200) -> bool:
    for _ in range(limit):
        if pred():
            return True
        await asyncio.sleep(0)
    return pred()
