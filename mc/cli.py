"""./check <Cxx> [--tier quick|thorough] [--replay path] [--only substr] [--procs N] [--list]"""
from __future__ import annotations

import argparse
import importlib
import json
import os
import sys
import time

from . import core


def main(argv: list[str] | None = None) -> int:
    ap = argparse.ArgumentParser(prog="check")
    ap.add_argument("prop")
    ap.add_argument("--tier", default=os.environ.get("VERIF_TIER", "quick"), choices=["quick", "thorough"])
    ap.add_argument("--replay")
    ap.add_argument("--only", help="run only jobs whose repr contains this substring (debugging; evidence marked partial)")
    ap.add_argument("--procs", type=int, default=int(os.environ.get("VERIF_PROCS", "0")) or (os.cpu_count() or 4))
    ap.add_argument("--list", action="store_true")
    ap.add_argument("--no-evidence", action="store_true")
    args = ap.parse_args(argv)
    prop = args.prop.upper()
    modname = f"mc.props.{prop.lower()}"
    try:
        mod = importlib.import_module(modname)
    except ModuleNotFoundError as exc:
        print(f"INTERNAL no check module for {prop}: {exc}")
        return 3
    seed = int(os.environ.get("VERIF_SEED", "0") or 0)

    if args.replay:
        with open(args.replay) as f:
            doc = json.load(f)
        if isinstance(doc.get("replay"), dict) and "crash_job" in doc["replay"]:
            _job, r, err = core._run_one((modname, doc["replay"]["crash_job"]))
            crashed = r is not None and any(v.key.startswith("crash/") for v in r.violations)
            still, text = crashed, (r.violations[0].message if crashed else f"job {doc['replay']['crash_job']!r} ran without a library exception" + (f"\n{err}" if err else ""))
        else:
            still, text = mod.replay(doc)
        print(text)
        print("REPLAY: violation reproduced" if still else "REPLAY: no violation on this tree")
        return 1 if still else 0

    t0 = time.perf_counter()
    jobs = mod.jobs(args.tier)
    if args.only:
        jobs = [j for j in jobs if args.only in repr(j)]
    if args.list:
        for j in jobs:
            print(j)
        print(len(jobs), "jobs")
        return 0
    if not jobs:
        print("INTERNAL empty work list")
        return 3
    # the seed only rotates the work list: coverage is seed-independent because nothing is sampled
    k = seed % len(jobs)
    jobs = jobs[k:] + jobs[:k]
    res, errors = core.run_jobs(modname, jobs, args.procs)
    wall = time.perf_counter() - t0

    known, _fixed = core.load_known_findings()
    known_hits: dict[str, int] = {}
    new: dict[str, list[core.Violation]] = {}
    for v in res.violations:
        if (prop, v.key) in known:
            known_hits[v.key] = known_hits.get(v.key, 0) + 1
        else:
            new.setdefault(v.key, []).append(v)
    rc = 0
    for key in sorted(known_hits):
        print(f"KNOWN-FINDING: property={prop} {key}: {known[(prop, key)]} [{known_hits[key]} counterexamples this run]")
    for key in sorted(new):
        vs = new[key]
        # simplest counterexample first: fewest choices / shortest replay
        vs.sort(key=lambda v: len(json.dumps(v.replay, default=core._json_default)))
        path = core.save_replay(prop, vs[0])
        print(f"VIOLATION property={prop} replay={path}")
        print(f"  key={key} ({len(vs)} counterexamples) {vs[0].message}")
        rc = 1
    if errors or res.internal:
        for e in errors[:5]:
            print("INTERNAL", e)
        for e in res.internal[:5]:
            print("INTERNAL", e)
        rc = rc or 3
    vac = getattr(mod, "MIN_DISTINCT", 2)
    if not args.only and len(res.nontrivial) < vac:
        print(f"INTERNAL vacuous exploration: only {len(res.nontrivial)} distinct non-trivial observations")
        rc = rc or 3
    extra = {"jobs": len(jobs), "tier_bounds": getattr(mod, "BOUNDS", {}).get(args.tier, "")}
    if args.only:
        extra["partial_only_filter"] = args.only
    if not args.no_evidence:
        core.write_evidence(prop, args.tier, seed, mod.LEVEL, res, wall, mod.RULE, list(mod.ASSUMPTIONS),
                            sum(len(v) for v in new.values()), sorted(known_hits), extra)
    print(f"{prop} tier={args.tier} seed={seed} jobs={len(jobs)} evaluations={res.evaluations} states={res.states} "
          f"transitions={res.transitions} distinct_nontrivial={len(res.nontrivial)} caps={res.caps} "
          f"violations={sum(len(v) for v in new.values())} known={sum(known_hits.values())} wall={wall:.1f}s")
    print("outcomes:", dict(sorted(res.outcomes.items())))
    return rc


if __name__ == "__main__":
    sys.exit(main())
