"""E0 - explorer core, job runner, evidence / replay / known-findings plumbing.

A *property module* (mc/props/cXX.py) exposes

    PROPERTY = "C04"
    LEVEL    = "model_checking" | "exploration" | "fault_enumeration"
    RULE     = "<how cases are enumerated, what counts as distinct / non-trivial>"
    ASSUMPTIONS = [...]
    def jobs(tier) -> list[dict]          # picklable job descriptors (the work list)
    def run_job(job) -> JobResult          # explores ONE job exhaustively within its bound
    def replay(doc) -> (ok: bool, text)    # re-executes one recorded counterexample, no search

Nothing here samples: VERIF_SEED only rotates the order of the work list.
"""
from __future__ import annotations

import hashlib
import json
import os
import sys
import time
import traceback
from dataclasses import dataclass, field
from typing import Any, Callable

VERIF = os.path.dirname(os.path.dirname(os.path.abspath(__file__)))

# --------------------------------------------------------------------------------------
# results


def digest(obj: Any) -> str:
    return hashlib.sha1(repr(obj).encode("utf-8", "backslashreplace")).hexdigest()[:16]


@dataclass
class Violation:
    key: str  # stable finding key: "<harness>/<config-class>/<symptom>" (matched against known_findings.json)
    message: str
    replay: dict  # everything needed to re-execute: {"job":..., "choices":..., ...}

    def to_doc(self, prop: str) -> dict:
        return {"property": prop, "key": self.key, "message": self.message, "replay": self.replay}


@dataclass
class JobResult:
    evaluations: int = 0  # executions of real code
    states: int = 0  # distinct canonical states (explicit-state harnesses)
    transitions: int = 0  # choice steps / state transitions executed
    nontrivial: set = field(default_factory=set)  # digests of distinct non-trivial observations
    outcomes: dict = field(default_factory=dict)  # outcome class -> count (vacuity reading)
    violations: list = field(default_factory=list)
    samples: list = field(default_factory=list)
    caps: list = field(default_factory=list)  # caps hit (=> not exhaustive)
    counters: dict = field(default_factory=dict)  # free-form measured counters
    exhaustive: bool = True
    internal: list = field(default_factory=list)  # harness faults (never violations)

    def merge(self, other: "JobResult") -> None:
        self.evaluations += other.evaluations
        self.states += other.states
        self.transitions += other.transitions
        self.nontrivial |= other.nontrivial
        for k, v in other.outcomes.items():
            self.outcomes[k] = self.outcomes.get(k, 0) + v
        self.violations.extend(other.violations)
        if len(self.samples) < 6:
            self.samples.extend(other.samples[: 6 - len(self.samples)])
        self.caps.extend(c for c in other.caps if c not in self.caps)
        for k, v in other.counters.items():
            if isinstance(v, (int, float)):
                self.counters[k] = self.counters.get(k, 0) + v
            else:
                self.counters[k] = v
        self.exhaustive = self.exhaustive and other.exhaustive
        self.internal.extend(other.internal)

    def outcome(self, name: str, n: int = 1) -> None:
        self.outcomes[name] = self.outcomes.get(name, 0) + n

    def count(self, name: str, n: int = 1) -> None:
        self.counters[name] = self.counters.get(name, 0) + n


# --------------------------------------------------------------------------------------
# stateless explorer: choice points, deviation-bounded DFS by re-execution


class DivergenceError(BaseException):
    """A recorded choice prefix could not be replayed (harness nondeterminism) - internal error."""


class Pruned(BaseException):
    """Raised by Ctx.state() when an already expanded canonical state is reached."""


class HorizonHit(BaseException):
    """The harness' step horizon was exceeded."""


class Deadlock(BaseException):
    """Nothing can run and nothing is pending."""


class Ctx:
    """One execution. ``choose`` is the only source of nondeterminism in a harness."""

    __slots__ = ("prefix", "points", "choices", "seen_states", "pruned_at", "notes", "bound", "cost")

    def __init__(self, prefix: list[int] | tuple[int, ...] = (), seen_states: dict | None = None, bound: int = 10**9):
        self.prefix = list(prefix)
        self.points: list[tuple[int, str, bool]] = []  # (n alternatives, label, costed)
        self.choices: list[int] = []
        self.seen_states = seen_states
        self.bound = bound
        self.cost = 0
        self.pruned_at: int | None = None
        self.notes: list[Any] = []

    def choose(self, n: int, label: str, costed: bool = True) -> int:
        """Pick one of ``n`` alternatives (0 = default/simplest). ``costed``: a non-zero pick counts as a deviation."""
        if n <= 0:
            raise DivergenceError(f"choice point {label!r} with {n} alternatives")
        i = len(self.choices)
        if i < len(self.prefix):
            c = self.prefix[i]
            if not (0 <= c < n):
                raise DivergenceError(f"replay diverged at point {i} ({label!r}): choice {c} not in range({n})")
        else:
            c = 0
        self.points.append((n, label, costed))
        self.choices.append(c)
        if c and costed:
            self.cost += 1
        return c

    def state(self, key: Any) -> None:
        """Explicit-state pruning: equal keys must have equal futures (argued per harness)."""
        if self.seen_states is None:
            return
        if len(self.choices) < len(self.prefix):
            return  # still replaying the prefix
        # a state expanded with >= remaining budget covers this one
        prev = self.seen_states.get(key)
        left = self.bound - self.cost
        if prev is not None and prev >= left:
            self.pruned_at = len(self.choices)
            raise Pruned()
        self.seen_states[key] = left

    def note(self, x: Any) -> None:
        self.notes.append(x)


def explore(
    run: Callable[[Ctx], Any],
    *,
    bound: int,
    check: Callable[[Ctx, Any], None],
    max_runs: int | None = None,
    use_states: bool = False,
    first_prefixes: list[list[int]] | None = None,
    violation_budget: int | None = None,
) -> dict:
    """Deviation-bounded DFS by re-execution (guidance idiom).

    ``run(ctx)`` executes the harness once under ctx.prefix (default choice 0 afterwards) and returns an
    observation; ``check(ctx, obs)`` is the oracle for that one execution. Returns statistics.
    ``violation_budget``: once check() has returned True (a violation was recorded) at most that many further executions are
    run (a broken library can make every execution long and the tree huge; the violation is already in hand). Never set by
    harnesses whose subject has known findings.
    """
    stats = {"runs": 0, "points": 0, "pruned": 0, "cap_hit": False, "max_depth": 0, "states": 0}
    seen: dict | None = {} if use_states else None
    stack: list[list[int]] = list(reversed(first_prefixes)) if first_prefixes else [[]]
    stop_at: int | None = None
    violation_seen = False  # check() returned True at least once
    while stack:
        prefix = stack.pop()
        if max_runs is not None and stats["runs"] >= max_runs:
            stats["cap_hit"] = True
            break
        if stop_at is not None and stats["runs"] >= stop_at:
            stats["stopped_after_violation"] = True
            break
        ctx = Ctx(prefix, seen, bound)
        try:
            obs = run(ctx)
            pruned = False
        except Pruned:
            obs = None
            pruned = True
            stats["pruned"] += 1
        except DivergenceError:
            # A library that already violated the property (e.g. a server whose task group died: asyncio then cancels the sibling tasks
            # in an order that is not reproducible) may not replay deterministically: the violation in hand stands, the exploration
            # of this configuration stops.  Without a violation a divergence is a harness fault (INTERNAL).
            if violation_seen:
                stats["diverged_after_violation"] = True
                break
            raise
        stats["runs"] += 1
        if len(ctx.choices) < len(prefix):
            if violation_seen:
                stats["diverged_after_violation"] = True
                break
            raise DivergenceError(f"execution ended after {len(ctx.choices)} points, prefix has {len(prefix)}")
        stats["points"] += len(ctx.choices) - len(prefix) + (1 if prefix else 0)
        stats["max_depth"] = max(stats["max_depth"], len(ctx.choices))
        if not pruned:
            if check(ctx, obs) is True:
                violation_seen = True
                if violation_budget is not None and stop_at is None:
                    stop_at = stats["runs"] + violation_budget
        # expand alternatives at points after the prefix (those before were expanded by the parent)
        cost = 0
        for i, c in enumerate(ctx.choices):
            n, _label, costed = ctx.points[i]
            if i >= len(prefix):
                c_cost = cost + (1 if costed else 0)
                if c_cost <= bound:
                    for alt in range(n - 1, 0, -1):
                        stack.append(ctx.choices[:i] + [alt])
            if c and costed:
                cost += 1
    if seen is not None:
        stats["states"] = len(seen)
    return stats


# --------------------------------------------------------------------------------------
# known findings


def load_known_findings() -> tuple[dict[tuple[str, str], str], list[dict]]:
    path = os.path.join(VERIF, "known_findings.json")
    if not os.path.exists(path):
        return {}, []
    with open(path) as f:
        doc = json.load(f)
    known = {(e["property"], e["key"]): e["what"] for e in doc.get("known", [])}
    return known, doc.get("fixed", [])


# --------------------------------------------------------------------------------------
# evidence


def write_evidence(prop: str, tier: str, seed: int, level: str, res: JobResult, wall: float, rule: str,
                   assumptions: list[str], nviol: int, known_hits: list[str], extra: dict | None = None) -> str:
    cov: dict[str, Any] = {
        "evaluations": res.evaluations,
        "distinct_nontrivial": len(res.nontrivial),
        "rule": rule,
        "samples": res.samples[:6] or ["<none>"],
        "exhaustive": bool(res.exhaustive and not res.caps),
        "caps_hit": res.caps,
        "outcomes": dict(sorted(res.outcomes.items())),
        "counters": dict(sorted(res.counters.items())),
        "known_findings_reported": known_hits,
    }
    if level == "model_checking":
        cov["states"] = res.states
        cov["transitions"] = res.transitions
        # every explored trace is executed on the real implementation (there is no separate model)
        cov["traces_validated_against_impl"] = res.evaluations
    else:
        if res.states:
            cov["states"] = res.states
        cov["transitions"] = res.transitions
    if extra:
        cov.update(extra)
    doc = {
        "property_id": prop,
        "tier": tier,
        "seed": seed,
        "level": level,
        "coverage": cov,
        "assumptions": assumptions,
        "wall_s": round(wall, 3),
        "violations": nviol,
    }
    os.makedirs(os.path.join(VERIF, "evidence"), exist_ok=True)
    path = os.path.join(VERIF, "evidence", f"{prop}.json")
    tmp = path + ".tmp"
    with open(tmp, "w") as f:
        json.dump(doc, f, indent=1, default=_json_default)
        f.write("\n")
    os.replace(tmp, path)
    return path


def _json_default(o: Any) -> Any:
    if isinstance(o, (bytes, bytearray, memoryview)):
        return bytes(o).decode("latin-1")
    if isinstance(o, (set, frozenset)):
        return sorted(map(repr, o))
    if isinstance(o, tuple):
        return list(o)
    return repr(o)


def save_replay(prop: str, v: Violation) -> str:
    d = os.path.join(VERIF, "replays", prop)
    os.makedirs(d, exist_ok=True)
    doc = v.to_doc(prop)
    body = json.dumps(doc, indent=1, default=_json_default, sort_keys=True)
    name = hashlib.sha1(body.encode()).hexdigest()[:12] + ".json"
    path = os.path.join(d, name)
    with open(path, "w") as f:
        f.write(body + "\n")
    return path


# --------------------------------------------------------------------------------------
# job runner


def _run_one(args: tuple[str, dict]) -> tuple[dict, JobResult | None, str | None]:
    modname, job = args
    # coroutines of abandoned executions (deadlock / horizon runs) are finalised without a loop: not our subject
    sys.unraisablehook = lambda _u: None
    try:
        import importlib

        mod = importlib.import_module(modname)
        t0 = time.perf_counter()
        r = mod.run_job(job)
        r.counters["job_wall_s"] = time.perf_counter() - t0
        return job, r, None
    except BaseException as exc:
        tb_text = traceback.format_exc()
        # A harness fault is INTERNAL (exit 3, never a verdict).  But an exception that was RAISED BY LIBRARY CODE (innermost frame inside
        # the easynetwork package) and that no harness expected is the library failing an operation the harness drives as a healthy
        # one: it is reported as a violation (key crash/<exception type>) with the traceback, replayable by re-running the job.
        try:
            frames = traceback.extract_tb(exc.__traceback__)
            inner = frames[-1].filename.replace(os.sep, "/") if frames else ""
            src = os.environ.get("VERIF_SRC", "/repo/src").rstrip("/")
            if isinstance(exc, Exception) and (inner.startswith(src + "/easynetwork/") or "/easynetwork/" in inner and "/verif/" not in inner):
                r = JobResult()
                r.evaluations = 1
                r.outcome("VIOLATION:crash")
                r.violations.append(Violation(f"crash/{type(exc).__name__}", f"job {job!r}: library code raised {type(exc).__name__}: {exc} (uncaught by the harness)\n" + tb_text[-1500:],
                                              {"crash_job": job}))
                return job, r, None
        except Exception:  # noqa: BLE001 - fall through to INTERNAL
            pass
        return job, None, tb_text


def run_jobs(modname: str, jobs: list[dict], nproc: int) -> tuple[JobResult, list[str]]:
    total = JobResult()
    errors: list[str] = []
    if nproc <= 1 or len(jobs) <= 1:
        it = map(_run_one, [(modname, j) for j in jobs])
        for job, r, err in it:
            if err:
                errors.append(f"job {job!r}:\n{err}")
            else:
                total.merge(r)
        return total, errors
    import multiprocessing as mp

    ctx = mp.get_context("fork")
    with ctx.Pool(min(nproc, len(jobs)), maxtasksperchild=None) as pool:
        for job, r, err in pool.imap_unordered(_run_one, [(modname, j) for j in jobs], chunksize=1):
            if err:
                errors.append(f"job {job!r}:\n{err}")
            else:
                if os.environ.get("VERIF_VERBOSE"):
                    print(f"  job {r.counters.get('job_wall_s', 0):7.2f}s ev={r.evaluations} st={r.states} viol={len(r.violations)} {job}", file=sys.stderr, flush=True)
                total.merge(r)
    return total, errors
