"""E6 - progmc: enumeration of small cancel-scope programs, a reference semantics, and the real interpreter (C13).

A *program* is a tuple of statements (trees of tuples, JSON-able through to_json/from_json):

    ("sleep", d) | ("yield",) | ("syield",) | ("mark",) | ("cancel", k) | ("resched", k, D)
    ("moa", D, body) | ("timeout", D, body) | ("scope", D, body) | ("shield", body) | ("group", child, body) | ("catch", body)

`moa/timeout` take a delay relative to the instant of entry, `scope` an absolute deadline, `resched(k, D)` moves the
deadline of the k-th lexically enclosing scope (0 = innermost, counted across a group boundary) to now + D, `cancel(k)`
cancels it.  `group{child || body}` opens a task group, starts `child` with start_soon and runs `body` in the parent.
`catch{body}` runs body and swallows a CancelledError coming out of it (plain `except asyncio.CancelledError: pass`, no
uncancel()) - cleanup code that intercepts a cancellation and carries on; it makes the level-triggered re-delivery of a
cancelled scope observable (the next unshielded checkpoint inside the still-cancelled scope raises again).

Three parts:
  * enumerate_programs(): every program of the grammar up to a node count, deterministic order, no sampling;
  * Ref: the reference semantics (level-triggered scopes, discrete-event simulation, ~120 lines) -> expected per-task
    traces, every timer instant (tie detection), cross-task same-instant races;
  * Real: runs the program on the real AsyncIOBackend over the virtual loop and records the observed per-task traces.
"""
from __future__ import annotations

import asyncio
import math
from typing import Any, Iterator

from .core import Ctx
from .world import World

INF = math.inf
TOL = 1e-3  # time comparison tolerance (loop iterations cost microseconds of virtual time)
TIE = 0.010  # two instants closer than this are a tie (unspecified order) -> skipped and counted

SCOPES = ("moa", "timeout", "scope")
CONTAINERS = SCOPES + ("shield", "group", "catch")

# --------------------------------------------------------------------------------------------------------------------
# grammar helpers


def _num(x: float) -> str:
    return "inf" if x == INF else (f"{x:g}")


def fmt(prog: tuple) -> str:
    out = []
    for s in prog:
        op = s[0]
        if op == "sleep":
            out.append(f"sleep({_num(s[1])})")
        elif op == "yield":
            out.append("yield_")
        elif op == "syield":
            out.append("shielded_yield")
        elif op == "mark":
            out.append("mark")
        elif op == "cancel":
            out.append(f"cancel({s[1]})")
        elif op == "resched":
            out.append(f"reschedule({s[1]}, now+{_num(s[2])})")
        elif op in SCOPES:
            name = {"moa": "move_on_after", "timeout": "timeout", "scope": "scope@"}[op]
            out.append(f"{name}({_num(s[1])}){{{fmt(s[2])}}}")
        elif op == "shield":
            out.append(f"shield{{{fmt(s[1])}}}")
        elif op == "group":
            out.append(f"group{{{fmt(s[1])} || {fmt(s[2])}}}")
        elif op == "catch":
            out.append(f"catch{{{fmt(s[1])}}}")
        else:
            raise ValueError(s)
    return "; ".join(out)


def to_json(prog: tuple) -> list:
    def conv(x: Any) -> Any:
        if isinstance(x, tuple):
            return [conv(y) for y in x]
        if x == INF:
            return "inf"
        return x

    return conv(prog)


def from_json(doc: Any) -> tuple:
    def conv(x: Any) -> Any:
        if isinstance(x, (list, tuple)):
            return tuple(conv(y) for y in x)
        if x == "inf":
            return INF
        return x

    return conv(doc)


def size(prog: tuple) -> int:
    n = 0
    for s in prog:
        n += 1
        for part in s[1:]:
            if isinstance(part, tuple):
                n += size(part)
    return n


def skeleton(prog: tuple) -> str:
    """Program shape with the constants erased (used for the vacuity digests)."""
    out = []
    for s in prog:
        op = s[0]
        if op in SCOPES:
            out.append(f"{op}{{{skeleton(s[2])}}}")
        elif op in ("shield", "catch"):
            out.append(f"{op}{{{skeleton(s[1])}}}")
        elif op == "group":
            out.append(f"group{{{skeleton(s[1])}|{skeleton(s[2])}}}")
        else:
            out.append(op)
    return ";".join(out)


def shape(prog: tuple) -> str:
    """Coarse program shape: the nesting of the containers plus the set of leaf statements used anywhere."""
    leaves: set[str] = set()

    def conts(p: tuple) -> str:
        out = []
        for s in p:
            op = s[0]
            if op in SCOPES:
                out.append(f"{op}{{{conts(s[2])}}}")
            elif op in ("shield", "catch"):
                out.append(f"{op}{{{conts(s[1])}}}")
            elif op == "group":
                out.append(f"group{{{conts(s[1])}|{conts(s[2])}}}")
            else:
                leaves.add(op)
        return ";".join(out)

    c = conts(prog)
    return c + " / " + ",".join(sorted(leaves))


def has_op(prog: tuple, ops: tuple[str, ...]) -> bool:
    for s in prog:
        if s[0] in ops:
            return True
        for part in s[1:]:
            if isinstance(part, tuple) and has_op(part, ops):
                return True
    return False


# --------------------------------------------------------------------------------------------------------------------
# enumeration (deterministic, exhaustive within the alphabet; see props/c13.py RULE for the reductions and why they are safe)


class Alphabet:
    def __init__(self, *, sleeps: tuple, moa: tuple, timeout: tuple, scope: tuple, resched: tuple, ks: tuple = (0, 1),
                 yields: tuple = ("yield", "syield"), mark: bool = False, max_depth: int = 3, catch: bool = False, group: bool = True) -> None:
        self.sleeps, self.moa, self.timeout, self.scope, self.resched, self.ks = sleeps, moa, timeout, scope, resched, ks
        self.yields, self.mark, self.max_depth, self.catch, self.group = yields, mark, max_depth, catch, group
        self._cache: dict = {}

    def leaves(self, nsc: int) -> tuple:
        out: list[tuple] = [("sleep", d) for d in self.sleeps] + [(y,) for y in self.yields]
        if self.mark:
            out.append(("mark",))
        for k in self.ks:
            if k < nsc:
                out.append(("cancel", k))
                out += [("resched", k, D) for D in self.resched]
        return tuple(out)

    def stmts(self, n: int, depth: int, nsc: int, ingroup: bool) -> Iterator[tuple]:
        """Every single statement with exactly n nodes. depth = container nesting still allowed."""
        if n == 1:
            yield from self.leaves(nsc)
        if depth <= 0:
            return
        nsc1 = min(nsc + 1, 2)
        for body in self.blocks(n - 1, depth - 1, nsc1, ingroup):
            for D in self.moa:
                yield ("moa", D, body)
            for D in self.scope:
                yield ("scope", D, body)
            if not ingroup:  # bound: no timeout() lexically inside a task group (TimeoutError of a child = TaskGroup error path)
                for D in self.timeout:
                    yield ("timeout", D, body)
        if n >= 2:
            for body in self.blocks(n - 1, depth - 1, nsc, ingroup):
                yield ("shield", body)  # n-1 >= 1: an empty shield is a no-op (fast path returns at once)
                if self.catch:
                    yield ("catch", body)  # (an empty catch is a no-op as well)
            for a in range(1, n - 1 + 1 if self.group else 0):
                for child in self.blocks(a, depth - 1, nsc, True):
                    for body in self.blocks(n - 1 - a, depth - 1, nsc, True):
                        yield ("group", child, body)

    def blocks(self, n: int, depth: int, nsc: int, ingroup: bool) -> Iterator[tuple]:
        """Every statement sequence with exactly n nodes (memoised for small n)."""
        if n == 0:
            yield ()
            return
        key = (n, depth, nsc, ingroup)
        if n <= 3:
            got = self._cache.get(key)
            if got is None:
                got = self._cache[key] = tuple(self._blocks(n, depth, nsc, ingroup))
            yield from got
        else:
            yield from self._blocks(n, depth, nsc, ingroup)

    def _blocks(self, n: int, depth: int, nsc: int, ingroup: bool) -> Iterator[tuple]:
        for k in range(1, n + 1):
            for s in self.stmts(k, depth, nsc, ingroup):
                for rest in self.blocks(n - k, depth, nsc, ingroup):
                    if s[0] == "mark" and rest and rest[0][0] == "mark":
                        continue  # mark;mark == mark
                    yield (s,) + rest

    def contains(self, prog: tuple) -> bool:
        """Is prog a program of this alphabet (constants only; the structure rules are the same for every alphabet)."""
        for s in prog:
            op = s[0]
            if op == "sleep":
                ok = s[1] in self.sleeps
            elif op in ("yield", "syield"):
                ok = op in self.yields
            elif op == "mark":
                ok = self.mark
            elif op == "cancel":
                ok = s[1] in self.ks
            elif op == "resched":
                ok = s[1] in self.ks and s[2] in self.resched
            elif op in SCOPES:
                ok = s[1] in getattr(self, op) and self.contains(s[2])
            elif op == "shield":
                ok = self.contains(s[1])
            elif op == "catch":
                ok = self.catch and self.contains(s[1])
            else:
                ok = self.group and self.contains(s[1]) and self.contains(s[2])
            if not ok:
                return False
        return True

    def programs(self, max_nodes: int) -> Iterator[tuple]:
        """All programs with 1..max_nodes nodes whose first statement is a container."""
        for n in range(1, max_nodes + 1):
            for k in range(1, n + 1):
                for s in self.stmts(k, self.max_depth, 0, False):
                    if s[0] not in CONTAINERS:
                        continue  # a leading sleep/yield only shifts the time origin (see RULE)
                    for rest in self.blocks(n - k, self.max_depth, 0, False):
                        yield (s,) + rest


# --------------------------------------------------------------------------------------------------------------------
# reference semantics
#
#  * A scope is *cancelled* from the instant its deadline is reached or cancel() is called, for as long as it is active.
#  * A task has a *pending cancellation* iff it is not inside a shield and (an external cancel was requested for it, or one
#    of the scopes it is inside of - in this task - is cancelled).  Level-triggered: every checkpoint (sleep, yield_, the
#    wait for the children at the end of a group) of a task with a pending cancellation raises; a wait in progress is
#    interrupted at the instant the cancellation becomes pending.
#  * A shield runs its body to completion: nothing raises inside (also not for scopes entered inside the shield - the
#    statement only speaks about *unshielded* blocking operations, see props/c13.py ASSUMPTIONS).
#  * At its exit a cancelled scope catches the cancellation if nothing is pending any more once it is left; it does not catch
#    when an external cancel is pending.  When only an *enclosing cancelled scope* is pending the statement allows both
#    ("either reports that it caught the cancellation or lets it propagate to an enclosing scope that was itself cancelled"):
#    this is a choice point (`bits`), the default is to propagate (trio), and either way the enclosing scope's cancellation
#    stays pending for the next checkpoint.  timeout() raises TimeoutError iff it caught.
#  * catch{P} swallows a cancellation raised inside P and goes on; nothing else changes: whatever made the cancellation
#    pending (a cancelled scope around the catch) is still there, so the next unshielded checkpoint raises again.
#  * Task group = asyncio.TaskGroup contract: a child is a task of its own (no scope of the parent applies to it
#    directly); when the cancellation reaches the parent inside the group, every unfinished child gets a cancel request
#    (external from the child's point of view), the group waits for the children (not interruptible any more) and the
#    cancellation then continues in the parent.  A child cancelled before its first step never runs.
#  * Scheduling inside one instant goes in rounds (one step per runnable task, FIFO); the wake-up of a task whose wait is
#    interrupted by a cancellation arrives `lat` rounds late, before (`front`) or after the tasks that were already
#    runnable.  The statement does not fix this latency: a (program, injection) whose reference trace depends on
#    (lat, front, donelat = rounds until a group notices that a child has finished, eager = a checkpoint entered with a
#    cancellation pending raises without suspending, rev = order of the runnable tasks inside a round) is a same-instant
#    race between tasks and is judged by the order-independent clauses only.


class _Cancelled(Exception):
    pass


class _Timeout(Exception):
    pass


_SHIELD = "shield"


class _RScope:
    __slots__ = ("deadline", "cancelled", "host", "timer", "active")


class _RTask:
    def __init__(self, label: str) -> None:
        self.label, self.ext, self.frames, self.events = label, 0, [], []
        self.state, self.wake, self.gen, self.throw, self.intr, self.group, self.outcome = "new", INF, None, False, False, None, None
        self.sched = False  # an interrupting wake-up is on its way
        self.visible = False  # finished and the parent's group knows


class Ref:
    def __init__(self, prog: tuple, inject_at: float | None = None, lat: int = 0, bits: tuple = (), front: bool = False, donelat: int = 0,
                 eager: bool = True, rev: bool = False) -> None:
        self.prog, self.inject_at, self.now, self.lat, self.bits, self.npicks, self.front = prog, inject_at, 0.0, lat, bits, 0, front
        self.donelat = donelat
        self.eager = eager and lat == 0  # a checkpoint entered with a cancellation pending raises without suspending
        self.rev = rev  # run the runnable tasks of a round in reverse order
        self.notify: list[tuple[int, _RTask]] = []  # (round, finished child): when its parent gets to know
        self.tasks: list[_RTask] = []
        self.ready: list[_RTask] = []  # runnable in the next round
        self.delayed: list[tuple[int, _RTask]] = []  # (round, task): interrupting wake-ups under way
        self.round = 0
        self.scopes: list[_RScope] = []
        self.timers: list[list[float]] = []  # [when, disarmed_at]
        self.causes: dict[str, list[tuple[float, str]]] = {}  # task label -> (instant, origin) of every cancellation cause
        self.injected = inject_at is None
        if inject_at is not None:
            self.timers.append([inject_at, INF])

    # -- helpers
    def pending(self, T: _RTask) -> bool:
        if _SHIELD in T.frames:
            return False
        return T.ext > 0 or any(f.cancelled for f in T.frames)

    def pick(self) -> int:
        i, self.npicks = self.npicks, self.npicks + 1
        return self.bits[i] if i < len(self.bits) else 0

    def ev(self, T: _RTask, *e: Any) -> None:
        T.events.append(e + (self.now,))

    def arm(self, when: float) -> list[float]:
        rec = [when, INF]
        self.timers.append(rec)
        return rec

    def cause(self, T: _RTask, origin: str) -> None:
        self.causes.setdefault(T.label, []).append((self.now, origin))

    def cancel_scope(self, S: _RScope, origin: str) -> None:
        if not S.cancelled:
            S.cancelled = True
            if S.timer is not None:
                S.timer[1] = min(S.timer[1], self.now)
            self.cause(S.host, origin)

    def spawn(self, label: str, body: tuple, path: str, lex: list) -> _RTask:
        T = _RTask(label)
        T.gen = self.task_main(T, body, path, lex)
        self.tasks.append(T)
        self.ready.append(T)
        return T

    # -- the program as generators: yield ("sleep", when) | ("yield", shielded) | ("join", interruptible)
    def task_main(self, T: _RTask, body: tuple, path: str, lex: list):
        try:
            yield from self.blk(T, body, path, lex)
            T.outcome = "ok"
        except _Cancelled:
            T.outcome = "cancelled"
        except _Timeout:
            T.outcome = "TimeoutError"
        self.ev(T, "end", T.outcome)

    def blk(self, T: _RTask, P: tuple, path: str, lex: list):
        for i, s in enumerate(P):
            yield from self.stmt(T, s, f"{path}{i}", lex)

    def stmt(self, T: _RTask, s: tuple, p: str, lex: list):
        op = s[0]
        if op in ("sleep", "yield", "syield"):
            d = s[1] if op == "sleep" else 0
            if op != "syield" and self.eager and self.pending(T):
                raise _Cancelled
            if d > 0:
                tm = self.arm(self.now + d)
                try:
                    yield ("sleep", self.now + d)
                finally:
                    tm[1] = min(tm[1], self.now)
            else:
                yield ("yield", op == "syield")
            self.ev(T, "done", p)
        elif op == "mark":
            self.ev(T, "done", p)
        elif op == "cancel":
            self.cancel_scope(lex[s[1]], T.label)
            self.ev(T, "done", p)
        elif op == "resched":
            S = lex[s[1]]
            if not S.cancelled:
                if S.timer is not None:
                    S.timer[1] = min(S.timer[1], self.now)
                S.deadline, S.timer = self.now + s[2], None
                if S.deadline <= self.now:
                    self.cancel_scope(S, T.label)
                elif S.deadline != INF:
                    S.timer = self.arm(S.deadline)
            self.ev(T, "done", p)
        elif op in SCOPES:
            S = _RScope()
            S.deadline = s[1] if op == "scope" else self.now + s[1]
            S.host, S.cancelled, S.timer, S.active = T, False, None, True
            self.scopes.append(S)
            if S.deadline <= self.now:
                self.cancel_scope(S, T.label)
            elif S.deadline != INF:
                S.timer = self.arm(S.deadline)
            T.frames.append(S)
            exc: BaseException | None = None
            try:
                yield from self.blk(T, s[2], p + ".", [S] + lex)
            except (_Cancelled, _Timeout) as e:
                exc = e
            T.frames.pop()
            S.active = False
            if S.timer is not None:
                S.timer[1] = min(S.timer[1], self.now)
            caught = False
            if isinstance(exc, _Cancelled) and S.cancelled:
                if not self.pending(T):
                    caught = True
                elif T.ext == 0:  # only an enclosing cancelled scope is pending: the statement allows either
                    caught = bool(self.pick())
            out = None if (exc is None or caught) else exc
            if caught and op == "timeout":
                out = _Timeout()
            self.ev(T, "exit", p, S.cancelled, caught, _ref_exc_name(out))
            if out is not None:
                raise out
        elif op == "shield":
            T.frames.append(_SHIELD)
            try:
                yield from self.blk(T, s[1], p + ".", lex)
            finally:
                T.frames.pop()
            self.ev(T, "done", p)
        elif op == "catch":
            try:
                yield from self.blk(T, s[1], p + ".", lex)
            except _Cancelled:
                pass
            self.ev(T, "done", p)
        elif op == "group":
            child = self.spawn(f"{T.label}/{p}", s[1], p + ".c", lex)
            aborted = False
            exc = None
            try:
                yield from self.blk(T, s[2], p + ".b", lex)
            except _Cancelled as e:
                exc = e
            while True:
                if exc is not None and not aborted:
                    aborted = True
                    if child.state != "done":
                        child.ext += 1
                        self.cause(child, T.label)
                if child.visible:
                    break
                try:
                    T.group = child
                    yield ("join", not aborted)
                except _Cancelled as e:
                    exc = e
            self.ev(T, "gexit", p, _ref_exc_name(exc))
            if exc is not None:
                raise exc
        else:
            raise ValueError(s)

    # -- scheduler
    def step(self, T: _RTask) -> None:
        try:
            if T.state == "new" and T.ext > 0:
                T.gen.close()
                raise StopIteration  # cancelled before the first step: the coroutine never runs
            throw = T.throw or (T.intr and self.pending(T))  # a cancellation that arrived before the resumption wins
            T.throw, T.state, T.intr, T.sched = False, "run", False, False
            req = T.gen.throw(_Cancelled()) if throw else next(T.gen)
        except StopIteration:
            T.state = "done"
            if self.donelat == 0:
                self.seen_done(T)
            else:
                self.notify.append((self.round + self.donelat, T))
            return
        if req[0] == "sleep":
            T.state, T.wake, T.intr = "sleep", req[1], True
        elif req[0] == "yield":
            T.state, T.intr = "yield", not req[1]
            self.ready.append(T)
        else:
            T.state, T.intr = "join", req[1]

    def seen_done(self, T: _RTask) -> None:
        T.visible = True
        for P in self.tasks:
            if P.state == "join" and P.group is T:
                P.state = "woken"
                self.ready.append(P)

    def rescan(self) -> None:
        for T in self.tasks:
            if T.state in ("sleep", "join") and T.intr and not T.sched and self.pending(T):
                T.sched = True
                self.delayed.append((self.round + 1 + self.lat, T))

    def drain(self) -> None:
        """Run everything that can run at the current instant, in rounds."""
        self.rescan()
        while self.ready or self.delayed or self.notify:
            self.round += 1
            for r, T in self.notify:
                if r <= self.round:
                    self.seen_done(T)
            self.notify = [(r, T) for r, T in self.notify if r > self.round]
            cur, self.ready = self.ready, []
            due = []
            for r, T in self.delayed:
                if r <= self.round and T.state in ("sleep", "join"):  # (not resumed by something else meanwhile)
                    T.throw = True
                    due.append(T)
            cur = due + [T for T in cur if T not in due] if self.front else cur + [T for T in due if T not in cur]
            self.delayed = [(r, T) for r, T in self.delayed if r > self.round]
            for T in (reversed(cur) if self.rev else cur):
                if T.state != "done":
                    self.step(T)
                    self.rescan()

    def run(self) -> "Ref":
        root = self.spawn("R", self.prog, "", [])
        for _ in range(10000):
            self.drain()
            if all(T.state == "done" for T in self.tasks):
                break
            cands = [T.wake for T in self.tasks if T.state == "sleep"]
            cands += [S.deadline for S in self.scopes if S.active and not S.cancelled and S.deadline != INF]
            if not self.injected:
                cands.append(self.inject_at)
            if not cands:
                raise RuntimeError("reference interpreter: deadlock in " + fmt(self.prog))
            self.now = min(cands)
            if not self.injected and self.inject_at <= self.now:
                self.injected = True
                if root.state != "done":
                    root.ext += 1
                    self.cause(root, "env")
            for S in self.scopes:
                if S.active and not S.cancelled and S.deadline <= self.now:
                    self.cancel_scope(S, "timer")
            for T in self.tasks:
                if T.state == "sleep" and T.wake <= self.now:
                    T.state = "woken"
                    self.ready.append(T)
        else:
            raise RuntimeError("reference interpreter: no termination for " + fmt(self.prog))
        self.root = root
        return self

    # -- results
    def traces(self) -> dict[str, list[tuple]]:
        return {T.label: T.events for T in self.tasks if T.events}

    def timer_tie(self) -> bool:
        """Two timers due within TIE of each other while both still armed (asyncio does not specify their order)."""
        ts = sorted(self.timers)
        for i, a in enumerate(ts):
            for b in ts[i + 1:]:
                if b[0] - a[0] >= TIE:
                    break
                if a[1] >= a[0] - TIE and b[1] >= a[0] - TIE:
                    return True
        return False

    def cause_race(self) -> bool:
        """Two cancellation causes for one task within TIE of each other, one of them raised by another task: which one
        the task sees first depends on the order of two callbacks of one loop iteration (unspecified)."""
        for label, cs in self.causes.items():
            for i, (t1, o1) in enumerate(cs):
                for t2, o2 in cs[i + 1:]:
                    if abs(t1 - t2) < TIE and any(o not in (label, "timer", "env") for o in (o1, o2)):
                        return True
        return False

    def instants(self) -> list[float]:
        ts = sorted({e[-1] for T in self.tasks for e in T.events} | {0.0})
        out = [ts[0]]
        for t in ts[1:]:
            if t - out[-1] > TOL:
                out.append(t)
        return out


def _ref_exc_name(exc: BaseException | None) -> str | None:
    if exc is None:
        return None
    return "CancelledError" if isinstance(exc, _Cancelled) else "TimeoutError"


# scheduling policies compared with the default (lat 0, back, donelat 0, eager) to recognise same-instant races between tasks
POLICIES = tuple(
    [(lat, front, dl, True, False) for lat, front, dl in ((0, True, 0), (1, False, 0), (1, True, 0), (2, False, 0), (2, True, 0), (3, False, 0), (0, False, 1),
                                                          (0, False, 2), (1, False, 1), (1, True, 1), (2, True, 2), (0, True, 2), (0, False, 3), (0, False, 4))]
    + [(0, front, dl, False, False) for front, dl in ((False, 0), (True, 0), (False, 1), (True, 1), (True, 2), (True, 4), (False, 6))]
    + [(lat, False, dl, eager, True) for lat, dl, eager in ((0, 0, True), (0, 1, True), (0, 2, True), (0, 2, False), (1, 1, True), (0, 0, False))]
)  # (lat, front, donelat, eager, rev)


class RefSet:
    """Everything the reference allows for one (program, timed injection): the default trace plus the traces of every
    resolution of the catch-or-propagate latitude; tie / race classification."""

    def __init__(self, prog: tuple, inject_at: float | None = None) -> None:
        self.main = Ref(prog, inject_at).run()
        self.tie = self.main.timer_tie()
        self.variants: list[Ref] = [self.main]
        self.race = False
        if self.tie:
            return
        todo: list[tuple] = []
        self._expand(self.main, 0, todo)
        while todo:
            bits = todo.pop()
            r = Ref(prog, inject_at, 0, bits).run()
            if r.timer_tie():
                self.tie = True  # one allowed continuation has an unspecified timer order: the whole pair is skipped
                return
            self.variants.append(r)
            self._expand(r, len(bits), todo)
        self.race = self.main.cause_race()
        if not self.race and len(self.main.tasks) > 1:
            t0 = self.main.traces()
            for lat, front, dl, eager, rev in POLICIES:
                if diff_traces(t0, Ref(prog, inject_at, lat, (), front, dl, eager, rev).run().traces(), observed=False) is not None:
                    self.race = True
                    break

    @staticmethod
    def _expand(r: Ref, fixed: int, todo: list) -> None:
        used = tuple(r.bits) + (0,) * (r.npicks - len(r.bits))
        for i in range(fixed, r.npicks):
            todo.append(used[:i] + (1,))

    def match(self, obs: dict[str, list[tuple]]) -> list | None:
        """None if the observation equals one allowed trace, else the differences (one per task) with the default one."""
        for r in self.variants:
            if diff_traces(r.traces(), obs) is None:
                return None
        return diff_traces(self.main.traces(), obs, every=True)


# --------------------------------------------------------------------------------------------------------------------
# the virtual world used for C13


class ProgWorld(World):
    """World with a busy-iteration policy suited to cancel-scope spins.

    While a cancelled scope waits for a shielded section CancelScope re-arms itself with call_soon on every iteration, so
    the loop never idles.  (1) a busy iteration costs 1 us; after 8 busy iterations in a row *without progress of the
    program* (the interpreter resets busy_streak at every trace event) the cost doubles per iteration, capped at the next
    timer / timed event, and the streak restarts when that instant is reached - so a spin reaches its timer in ~30
    iterations and iterations that do real work always cost ~1 us; (2) timed events (world.at) that become due during a
    busy streak are applied (World.select only applies them when the loop would idle, which never happens in a spin).
    Every timing produced this way is realisable on a real loop (iteration durations are arbitrary positive reals)."""

    def _busy_tick(self) -> None:
        self.busy_streak += 1
        eps = 1e-6
        ahead = self.next_timer()
        if self.timed:
            ahead = self.timed[0][0] if ahead is None else min(ahead, self.timed[0][0])
        if ahead is not None and ahead > self.clock:
            if self.busy_streak > 8:
                eps = 1e-6 * (2 ** min(self.busy_streak - 8, 40))
            if eps >= ahead - self.clock or self.clock + eps == self.clock:
                self.clock = ahead
                self.busy_streak = 0
            else:
                self.clock += eps
        else:
            self.clock += eps
        while self.timed and self.timed[0][0] <= self.clock:
            _when, _seq, action = self.timed.pop(0)
            action()


# --------------------------------------------------------------------------------------------------------------------
# the real interpreter


class _ScopeRec:
    __slots__ = ("scope", "path", "kind", "deadline", "explicit", "task")

    def cancel_time(self) -> float:
        return min(self.deadline, self.explicit)


class _TaskRec:
    def __init__(self, label: str, task: asyncio.Task, atg: Any) -> None:
        self.label, self.task, self.atg = label, task, atg
        self.events: list[tuple] = []
        self.scopes: list[_ScopeRec] = []  # active scopes of this task, outermost first
        self.sdepth = 0  # shield nesting of this task
        self.in_ckpt: tuple | None = None  # (path, unshielded) while a checkpoint is in progress
        self.outcome: str | None = None
        self.leaked = 0  # cancel requests already reported as left over by a scope exit of this task
        self.abort_info: dict | None = None  # child task: its situation when its TaskGroup cancelled it
        self.ncancelled_exits = 0  # scopes of this task that were left with cancel_called() == True


class Real:
    """One execution of a program on AsyncIOBackend over the virtual loop. inject = None | ("t", instant) | ("i", select index)."""

    def __init__(self, prog: tuple, inject: tuple | None = None, horizon: int = 4000) -> None:
        self.prog, self.inject = prog, inject
        self.world = ProgWorld(Ctx(), horizon=horizon)
        self.tasks: list[_TaskRec] = []
        self.problems: list[tuple[str, str]] = []  # (clause key, text) found while running (bookkeeping clauses)
        self.injected = 0
        self.swallowed = 0  # CancelledErrors swallowed by catch{} statements
        self.inj: dict | None = None
        self.root: _TaskRec | None = None
        self.prog_task: asyncio.Task | None = None
        self.sel_end = 0  # select() count when the program's task had finished
        self.status = ""
        self.value: Any = None
        self.end_checks: dict = {}

    # -- recording
    def ev(self, T: _TaskRec, *e: Any) -> None:
        w = self.world
        w.busy_streak = 0
        T.events.append(e + (w.selects, w.clock))

    def ext_seen(self, T: _TaskRec) -> int:
        """Cancel requests this task received from outside the cancel scopes: injections (root) / TaskGroup abort (child)."""
        if T.atg is None:
            return self.injected
        return 1 if T.atg._aborting else 0

    def do_inject(self) -> None:
        t = self.prog_task
        if t is None or t.done() or self.inj is not None:
            return
        R = self.root
        self.inj = {
            "select": self.world.selects, "time": self.world.clock, "cancelling_before": t.cancelling(),
            "started": R is not None,
            # inside ignore_cancellation(...) or inside cancel_shielded_coro_yield()
            "shielded": bool(R and (R.sdepth or (R.in_ckpt is not None and not R.in_ckpt[1]))), "in_ckpt": R.in_ckpt if R else None,
            "scopes_cancel_called": [r.path for r in (R.scopes if R else []) if r.scope.cancel_called()],
        }
        self.injected += 1
        t.cancel()

    # -- program
    async def blk(self, T: _TaskRec, P: tuple, path: str, lex: list) -> None:
        for i, s in enumerate(P):
            await self.stmt(T, s, f"{path}{i}", lex)

    async def stmt(self, T: _TaskRec, s: tuple, p: str, lex: list) -> None:
        op = s[0]
        b = self.backend
        if op in ("sleep", "yield", "syield"):
            unshielded = T.sdepth == 0 and op != "syield"
            T.in_ckpt = (p, unshielded)
            self.ev(T, "start", p, unshielded)
            try:
                if op == "sleep":
                    await b.sleep(s[1])
                elif op == "yield":
                    await b.coro_yield()
                else:
                    await b.cancel_shielded_coro_yield()
            finally:
                T.in_ckpt = None
            if op == "sleep" and s[1] > 0 and T.sdepth == 0:
                # statement, first sentence: once a scope is cancelled no unshielded blocking operation inside it completes
                for r in T.scopes:
                    if r.scope.cancel_called() and r.cancel_time() <= self.world.clock - TIE:
                        self.problems.append(("sleep-completed-in-cancelled-scope", f"sleep at {p} completed at t={self.world.clock:.4f} inside scope {r.path} cancelled at t={r.cancel_time():.4f}"))
            self.ev(T, "done", p, unshielded)
        elif op == "mark":
            self.ev(T, "done", p, False)
        elif op == "cancel":
            r = lex[s[1]]
            if not r.scope.cancel_called():
                r.explicit = self.world.clock
            r.scope.cancel()
            self.ev(T, "done", p, False)
        elif op == "resched":
            r = lex[s[1]]
            when = b.current_time() + s[2]
            if not r.scope.cancel_called():
                r.deadline = when
            r.scope.reschedule(when)
            self.ev(T, "done", p, False)
        elif op in SCOPES:
            await self.scope_stmt(T, s, p, lex)
        elif op == "shield":
            T.sdepth += 1
            try:
                await b.ignore_cancellation(self.blk(T, s[1], p + ".", lex))
            finally:
                T.sdepth -= 1
            self.ev(T, "done", p, False)
        elif op == "catch":
            try:
                await self.blk(T, s[1], p + ".", lex)
            except asyncio.CancelledError:
                self.swallowed += 1  # plain `except CancelledError: pass` (no uncancel())
            self.ev(T, "done", p, False)
        elif op == "group":
            await self.group_stmt(T, s, p, lex)
        else:
            raise ValueError(s)

    async def scope_stmt(self, T: _TaskRec, s: tuple, p: str, lex: list) -> None:
        op, b, task = s[0], self.backend, T.task
        now = self.world.clock
        if op == "moa":
            cm: Any = b.move_on_after(s[1])
        elif op == "timeout":
            cm = b.timeout(s[1])
        else:
            cm = b.open_cancel_scope(deadline=s[1])
        c0, x0, l0, n0 = task.cancelling(), self.ext_seen(T), T.leaked, T.ncancelled_exits
        scope = cm.__enter__()
        r = _ScopeRec()
        r.scope, r.path, r.kind, r.task = scope, p, op, T
        r.deadline = s[1] if op == "scope" else now + s[1]
        r.explicit = INF
        T.scopes.append(r)
        exc: BaseException | None = None
        try:
            await self.blk(T, s[2], p + ".", [r] + lex)
        except GeneratorExit:
            raise
        except BaseException as e:  # noqa: BLE001 - mirrors the with statement
            exc = e
        T.scopes.pop()
        out: BaseException | None
        ret = None
        try:
            if exc is None:
                ret = cm.__exit__(None, None, None)
            else:
                ret = cm.__exit__(type(exc), exc, exc.__traceback__)
        except BaseException as e2:  # noqa: BLE001 - TimeoutError of _timeout_scope
            out = e2
        else:
            out = None if (exc is None or ret) else exc
        called, caught = scope.cancel_called(), scope.cancelled_caught()
        outname = type(out).__name__ if out is not None else None
        self.ev(T, "exit", p, called, caught, outname)
        # clause (iii): a scope that was not cancelled never swallows
        if (caught or (ret and exc is not None)) and not called:
            self.problems.append(("uncancelled-scope-swallowed", f"scope {p} swallowed {type(exc).__name__} with cancel_called()==False"))
        if bool(ret) != caught and op != "timeout":
            self.problems.append(("exit-return-differs-from-cancelled-caught", f"scope {p}: __exit__ returned {ret!r}, cancelled_caught()={caught}"))
        # clause (iv): timeout raises TimeoutError <=> its scope caught
        if op == "timeout" and ((isinstance(out, TimeoutError) and out is not exc) != caught):
            self.problems.append(("timeout-error-iff-caught", f"timeout {p}: left with {outname}, cancelled_caught()={caught}"))
        # bookkeeping: no leftover cancellation request (unless an enclosing scope of this task has requests of its own)
        inner_cancelled = T.ncancelled_exits > n0
        if called:
            T.ncancelled_exits += 1
        if not any(o.scope.cancel_called() for o in T.scopes):
            c1, x1 = task.cancelling(), self.ext_seen(T)
            if c1 != c0 + (x1 - x0) + (T.leaked - l0):  # (leaks of inner scopes were reported at their own exit)
                if exc is None:
                    how = "body-completed-normally"
                elif caught:
                    how = "caught-own-cancellation"
                elif isinstance(exc, asyncio.CancelledError):
                    how = "cancellation-propagated"
                else:
                    how = "other-exception-at-exit"
                if inner_cancelled:
                    how += "/after-inner-cancelled-scope"  # (whose own exit was not judged: this scope was cancelled too)
                T.leaked += c1 - (c0 + (x1 - x0) + (T.leaked - l0))
                self.problems.append((f"leftover-cancelling/{how}", f"scope {p}: task.cancelling() was {c0} at entry, {c1} after exit, external cancel requests meanwhile: {x1 - x0}"))
        exc = None
        if out is not None:
            try:
                raise out
            finally:
                out = None

    async def group_stmt(self, T: _TaskRec, s: tuple, p: str, lex: list) -> None:
        tg = self.backend.create_task_group()
        atg = tg._TaskGroup__asyncio_tg
        await tg.__aenter__()
        exc: BaseException | None = None
        try:
            tg.start_soon(self.child_main, f"{T.label}/{p}", s[1], p + ".c", lex, atg)
            await self.blk(T, s[2], p + ".b", lex)
        except GeneratorExit:
            raise
        except BaseException as e:  # noqa: BLE001 - mirrors async with
            exc = e
        pending = bool(atg._tasks)
        self.ev(T, "join", p, pending and T.sdepth == 0)
        T.in_ckpt = (p, T.sdepth == 0) if pending else None
        out: BaseException | None = None
        try:
            if exc is None:
                await tg.__aexit__(None, None, None)
            elif not await tg.__aexit__(type(exc), exc, exc.__traceback__):
                out = exc
        except BaseException as e2:  # noqa: BLE001
            out = e2
        finally:
            T.in_ckpt = None
        self.ev(T, "gexit", p, type(out).__name__ if out is not None else None)
        exc = None
        if out is not None:
            try:
                raise out
            finally:
                out = None

    async def child_main(self, label: str, body: tuple, path: str, lex: list, atg: Any) -> None:
        T = _TaskRec(label, asyncio.current_task(), atg)
        self.tasks.append(T)
        await self.task_body(T, body, path, lex)

    async def task_body(self, T: _TaskRec, body: tuple, path: str, lex: list) -> None:
        try:
            await self.blk(T, body, path, lex)
            T.outcome = "ok"
        except asyncio.CancelledError:
            T.outcome = "cancelled"
            raise
        except BaseException as e:  # noqa: BLE001
            T.outcome = type(e).__name__
            raise
        finally:
            c, x = T.task.cancelling(), self.ext_seen(T)
            self.ev(T, "end", T.outcome)
            if T.atg is None:
                self.sel_end = self.world.selects
            if c != x + T.leaked:
                self.problems.append(("task-end-leftover-cancelling", f"task {T.label} ended {T.outcome} with cancelling()=={c}, external cancel requests: {x}"))

    async def root_main(self) -> None:
        T = self.root = _TaskRec("R", asyncio.current_task(), None)
        self.tasks.append(T)
        await self.task_body(T, self.prog, "", [])

    async def main(self, loop: Any) -> None:
        from easynetwork.lowlevel.api_async.backend._asyncio.backend import AsyncIOBackend
        from easynetwork.lowlevel.api_async.backend._asyncio.tasks import CancelScope

        self.backend = AsyncIOBackend()
        self.prog_task = t = loop.create_task(self.root_main())
        await asyncio.wait([t])
        if not t.cancelled() and t.exception() is not None:
            pass  # retrieved
        for _ in range(3):  # let done callbacks and the delayed-cancel clean-up callbacks run
            await asyncio.sleep(0)
        d1 = CancelScope._CancelScope__current_task_scope_dict
        d2 = CancelScope._CancelScope__delayed_task_cancel_dict
        all_tasks = [T.task for T in self.tasks] + [t]
        left1 = sum(1 for x in all_tasks if x in d1)
        left2 = sum(1 for x in all_tasks if x in d2)
        handles = [h for h in list(loop._scheduled) + list(loop._ready) if not h._cancelled and isinstance(getattr(h._callback, "__self__", None), CancelScope)]
        timers = [h for h in loop._scheduled if not h._cancelled]
        self.end_checks = {"scope_dict": left1, "delayed_dict": left2, "scope_handles": len(handles), "timers": len(timers),
                           "loop_errors": [u.get("message", "") + ":" + str(u.get("exception", "")) for u in loop.unhandled]}
        if left1 or left2:
            self.problems.append(("registry-entry-left", f"CancelScope per-task dictionaries still hold finished tasks: scopes={left1} delayed={left2}"))
        if handles or timers:
            self.problems.append(("handle-left-in-loop", f"{len(handles)} CancelScope handle(s), {len(timers)} live timer(s) left after the program ended"))
        if loop.unhandled:
            self.problems.append(("loop-callback-error", f"event loop reported: {self.end_checks['loop_errors'][:2]}"))

    def on_abort(self, atg: Any) -> None:
        """Observation hook (harness-process patch of asyncio.TaskGroup._abort, which stays in charge): where each child
        of the group is at the moment the group cancels it."""
        for T in self.tasks:
            if T.atg is atg and T.abort_info is None and not T.task.done():
                T.abort_info = {"started": True, "shielded": bool(T.sdepth or (T.in_ckpt is not None and not T.in_ckpt[1])), "cancelling_before": T.task.cancelling(),
                                "scopes_cancel_called": [r.path for r in T.scopes if r.scope.cancel_called()]}

    def run(self) -> "Real":
        import asyncio.taskgroups as _tgmod

        from . import vloop

        orig_abort = _tgmod.TaskGroup._abort
        me = self

        def _abort(tg: Any) -> None:
            me.on_abort(tg)
            orig_abort(tg)

        _tgmod.TaskGroup._abort = _abort
        try:
            return self._run(vloop)
        finally:
            _tgmod.TaskGroup._abort = orig_abort

    def _run(self, vloop: Any) -> "Real":
        w = self.world
        if self.inject is not None:
            kind, x = self.inject
            if kind == "t":
                w.at(x, self.do_inject)
            else:
                def env(_w: World, _sel: Any, _timeout: float | None) -> None:
                    if _w.selects == x:
                        self.do_inject()

                w.env = env
        self.status, self.value, _loop = vloop.run(w, self.main)
        return self

    def traces(self) -> dict[str, list[tuple]]:
        return {T.label: T.events for T in self.tasks if T.events}


# --------------------------------------------------------------------------------------------------------------------
# comparison of an observed run with the reference


def comparable(events: list[tuple], observed: bool) -> list[tuple]:
    """Events compared between reference and observation: statement completions, scope exits, group exits, task end."""
    out = []
    for e in events:
        k = e[0]
        if observed:
            t = e[-1]
            if k == "done":
                out.append(("done", e[1], t))
            elif k == "exit":
                out.append(("exit", e[1], e[2], e[3], e[4], t))
            elif k == "gexit":
                out.append(("gexit", e[1], e[2], t))
            elif k == "end":
                out.append(("end", e[1], t))
        else:
            out.append(e)
    return out


def diff_traces(ref: dict[str, list[tuple]], obs: dict[str, list[tuple]], observed: bool = True, every: bool = False) -> Any:
    """None if equal (times within TOL), else (symptom class, text, task label, expected task outcome, observed task outcome)
    of the first task that differs (every=True: the list of these for all tasks that differ)."""
    out = []
    for label in sorted(set(ref) | set(obs)):
        r = comparable(ref.get(label, []), False)
        o = comparable(obs.get(label, []), observed)
        for i in range(max(len(r), len(o))):
            a = r[i] if i < len(r) else None
            c = o[i] if i < len(o) else None
            if a is not None and c is not None and a[:-1] == c[:-1] and abs(a[-1] - c[-1]) <= TOL:
                continue
            if a is not None and c is not None and a[:-1] == c[:-1]:
                sym = "time-differs"
            elif a is not None and c is not None and a[0] == c[0] == "exit" and a[1] == c[1]:
                if a[2] != c[2]:
                    sym = "scope-cancel-called-differs"
                elif a[3] != c[3]:
                    sym = "scope-caught-unexpectedly" if c[3] else "scope-did-not-catch"
                else:
                    sym = "scope-exit-exception-differs"
            elif c is not None and c[0] == "done" and (a is None or a[0] != "done" or a[1] != c[1]):
                sym = "statement-completed-unexpectedly"
            elif a is not None and a[0] == "done" and (c is None or c[0] != "done"):
                sym = "statement-interrupted-unexpectedly"
            elif a is not None and c is not None and a[0] == c[0] == "end":
                sym = "task-outcome-differs"
            else:
                sym = "trace-differs"
            end_r = next((e[1] for e in r if e[0] == "end"), None)
            end_o = next((e[1] for e in o if e[0] == "end"), None)
            d = (sym, f"task {label} event #{i}: expected {_fmt_ev(a)} observed {_fmt_ev(c)}", label, end_r, end_o)
            if not every:
                return d
            out.append(d)
            break
    return out or None


def _fmt_ev(e: tuple | None) -> str:
    if e is None:
        return "<nothing>"
    return "(" + ", ".join(f"{x:.4f}" if isinstance(x, float) else str(x) for x in e) + ")"


def fmt_traces(tr: dict[str, list[tuple]], observed: bool) -> str:
    lines = []
    for label in sorted(tr):
        lines.append(f"  task {label}:")
        for e in comparable(tr[label], observed):
            lines.append("    " + _fmt_ev(e))
    return "\n".join(lines)
