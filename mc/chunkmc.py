"""E5 - explicit-state search over the real stream consumers.

A *state* is the real consumer object after a prefix of reads; a *transition* feeds the next k bytes of a fixed
byte stream.  States are merged on  (pos, digest(outputs so far), canon(consumer))  where canon() is an injective
walk of the heap reachable from the consumer (see DESIGN.md E5 for the soundness argument); unknown types raise
Opaque and the search falls back to the path itself as key (no merging).
"""
from __future__ import annotations

import collections
import io
import types
from typing import Any, Callable, Iterable

from easynetwork.exceptions import StreamProtocolParseError
from easynetwork.lowlevel._stream import BufferedStreamDataConsumer, StreamDataConsumer

from .core import digest


class Opaque(Exception):
    pass


# ---------------------------------------------------------------------------------------------------------
# recording proxies for zlib / bz2 decompressors: their state is a function of the bytes fed (zlib/bz2 are
# deterministic), so recording the input makes canon() exact without looking inside the C object.


class RecordingDecompressor:
    __slots__ = ("_d", "fed")

    def __init__(self, d: Any) -> None:
        self._d = d
        self.fed = b""

    def decompress(self, data: Any, *a: Any) -> bytes:
        self.fed += bytes(data)
        return self._d.decompress(data, *a)

    @property
    def eof(self) -> bool:
        return self._d.eof

    @property
    def unused_data(self) -> bytes:
        return self._d.unused_data

    @property
    def needs_input(self) -> bool:
        return self._d.needs_input


def recording(factory: Callable[..., Any]) -> Callable[..., Any]:
    def make(*a: Any, **kw: Any) -> RecordingDecompressor:
        return RecordingDecompressor(factory(*a, **kw))

    return make


def patch_compressor_serializer(ser: Any) -> Any:
    """Replace the private decompressor factory of a Zlib/BZ2 serializer instance by a recording one."""
    for cls in type(ser).__mro__:
        name = f"_{cls.__name__}__decompressor_factory"
        try:
            f = getattr(ser, name)
        except AttributeError:
            continue
        setattr(ser, name, recording(f))
        return ser
    raise Opaque("no decompressor factory found")


# ---------------------------------------------------------------------------------------------------------
# canon

_ATOMS = (bytes, int, bool, float, str, type(None))
_CONFIG_DEPTH = 3


def canon(obj: Any, _depth: int = 0, _seen: frozenset = frozenset()) -> Any:
    t = type(obj)
    if t in _ATOMS:
        return obj
    if t is bytearray:
        return ("ba", bytes(obj))
    if t is memoryview:
        try:
            return ("mv", obj.tobytes(), obj.readonly)
        except ValueError:
            return ("mv-released",)
    if t in (tuple, list):
        return (t.__name__, tuple(canon(x, _depth, _seen) for x in obj))
    if t is collections.deque:
        return ("deque", tuple(canon(x, _depth, _seen) for x in obj))
    if t in (dict, collections.Counter):
        return (t.__name__, tuple(sorted(((canon(k, _depth, _seen), canon(v, _depth, _seen)) for k, v in obj.items()), key=repr)))
    if t in (set, frozenset):
        return (t.__name__, tuple(sorted((canon(x, _depth, _seen) for x in obj), key=repr)))
    if t is io.BytesIO:
        if obj.closed:
            return ("BytesIO-closed",)
        return ("BytesIO", obj.getvalue(), obj.tell())
    if t is types.GeneratorType:
        return canon_gen(obj, _depth, _seen)
    if t is RecordingDecompressor:
        return ("decomp", obj.fed, obj.eof, obj.unused_data)
    if isinstance(obj, BaseException):
        return ("exc", t.__name__)
    if isinstance(obj, (types.FunctionType, types.BuiltinFunctionType, types.MethodType, type, types.ModuleType)):
        return ("callable", getattr(obj, "__qualname__", repr(t)))
    mod = getattr(t, "__module__", "")
    if t.__name__ == "GeneratorStreamReader":
        return ("GSR", obj._GeneratorStreamReader__buffer)
    if mod.startswith(("easynetwork.", "mc.")) or getattr(t, "_mc_config_", False):
        # configuration-like object (serializer, protocol, converter): walk its slots/dict a few levels so that a
        # scratch buffer hoisted onto the instance is part of the state; deeper levels are identity-free names.
        if id(obj) in _seen or _depth >= _CONFIG_DEPTH:
            return ("obj", t.__qualname__)
        seen2 = _seen | {id(obj)}
        fields = []
        for name in _all_fields(obj):
            try:
                v = getattr(obj, name)
            except AttributeError:
                continue
            try:
                fields.append((name, canon(v, _depth + 1, seen2)))
            except Opaque:
                fields.append((name, ("opaque", type(v).__name__)))
        return ("obj", t.__qualname__, tuple(fields))
    if mod in ("json.decoder", "json.encoder", "_struct", "re", "_json", "struct", "codecs", "functools", "_hashlib",
               "_thread", "weakref", "abc", "typing"):
        return ("lib", t.__qualname__)
    raise Opaque(f"{mod}.{t.__qualname__}")


def _all_fields(obj: Any) -> Iterable[str]:
    names: list[str] = []
    for cls in type(obj).__mro__:
        for s in getattr(cls, "__slots__", ()) or ():
            if s in ("__weakref__", "__dict__"):
                continue
            if s.startswith("__") and not s.endswith("__"):
                s = f"_{cls.__name__.lstrip('_')}{s}"
            names.append(s)
    d = getattr(obj, "__dict__", None)
    if d:
        names.extend(sorted(d))
    return names


def canon_gen(gen: Any, _depth: int = 0, _seen: frozenset = frozenset()) -> Any:
    frames = []
    g = gen
    while g is not None:
        if type(g) is not types.GeneratorType:
            raise Opaque(f"yield-from target {type(g).__name__}")
        fr = g.gi_frame
        if fr is None:
            frames.append(("finished", g.__qualname__))
            break
        loc = tuple((k, canon(v, _depth, _seen)) for k, v in sorted(fr.f_locals.items()))
        frames.append((g.gi_code.co_qualname, fr.f_lasti, loc))
        g = g.gi_yieldfrom
    return ("gen", tuple(frames))


# ---------------------------------------------------------------------------------------------------------
# drivers: the way the real endpoints use the consumers (next(None) first / drain until StopIteration)


def _err_obs(exc: StreamProtocolParseError) -> tuple:
    return ("E", type(exc.error).__name__)


class CopyDriver:
    """StreamDataConsumer (copying path): feed(chunk) == one successful transport.recv()."""

    kind = "copy"

    def __init__(self, protocol: Any, max_recv: int = 1 << 30) -> None:
        self.c = StreamDataConsumer(protocol)
        self.max_recv = max_recv
        self.progress_failures: list[str] = []
        self.pending = 0

    def max_feed(self) -> int:
        return self.max_recv

    def held(self) -> int:
        return len(self.c.get_buffer())

    def feed(self, chunk: bytes) -> list[tuple]:
        outs: list[tuple] = []
        arg: bytes | None = bytes(chunk)
        guard = 0
        self.pending += len(chunk)  # bytes received and not yet turned into a packet / an error
        while True:
            before = self.pending
            try:
                p = self.c.next(arg)
            except StopIteration:
                break
            except StreamProtocolParseError as exc:
                outs.append(_err_obs(exc))
                rem = len(bytes(exc.remaining_data))
                self.pending = rem
                if rem >= before:
                    self.progress_failures.append(f"parse error consumed no byte (held {before}, remaining {rem})")
                    outs.append(("X", "NoProgress"))
                    break
            else:
                outs.append(("P", repr(p)))
                self.pending = self.held()
            arg = None
            guard += 1
            if guard > 10000:
                outs.append(("X", "DrainHorizon"))
                break
        return outs

    def canon(self) -> Any:
        c = self.c
        return ("copy", c._StreamDataConsumer__buffer, canon(c._StreamDataConsumer__consumer) if c._StreamDataConsumer__consumer is not None else None)

    def leftover(self) -> tuple:
        """(bytes held, generator has consumed something)"""
        c = self.c
        g = c._StreamDataConsumer__consumer
        return (bytes(c._StreamDataConsumer__buffer), g is not None)


class BufDriver:
    """BufferedStreamDataConsumer (buffer-filling path): feed(chunk) == one successful transport.recv_into(view)."""

    kind = "buf"

    def __init__(self, protocol: Any, hint: int) -> None:
        self.c = BufferedStreamDataConsumer(protocol, hint)
        self.hint = hint
        self.progress_failures: list[str] = []
        self.pending = 0
        self.max_buffer_size = 0

    def max_feed(self) -> int:
        with memoryview(self.c.get_write_buffer()) as v:
            return v.nbytes

    def held(self) -> int:
        c = self.c
        return c._BufferedStreamDataConsumer__already_written + (
            c._BufferedStreamDataConsumer__buffer_start if c._BufferedStreamDataConsumer__consumer is not None else 0
        )

    def feed(self, chunk: bytes) -> list[tuple]:
        outs: list[tuple] = []
        with memoryview(self.c.get_write_buffer()) as v:
            n = len(chunk)
            if n > v.nbytes:
                raise AssertionError("harness fed more than the offered view")
            v[:n] = chunk
        self.max_buffer_size = max(self.max_buffer_size, self.c.buffer_size)
        arg: int | None = n
        guard = 0
        self.pending += n
        while True:
            before = self.pending
            try:
                p = self.c.next(arg)
            except StopIteration:
                break
            except StreamProtocolParseError as exc:
                outs.append(_err_obs(exc))
                rem = len(bytes(exc.remaining_data))
                self.pending = rem
                if rem >= before:
                    self.progress_failures.append(f"parse error consumed no byte (held {before}, remaining {rem})")
                    outs.append(("X", "NoProgress"))
                    break
            else:
                outs.append(("P", repr(p)))
                self.pending = self.c._BufferedStreamDataConsumer__already_written
            arg = None
            guard += 1
            if guard > 10000:
                outs.append(("X", "DrainHorizon"))
                break
        return outs

    def _held_before(self, arg: int | None) -> int:
        c = self.c
        start = c._BufferedStreamDataConsumer__buffer_start
        if start < 0:
            start = 0
        return start + c._BufferedStreamDataConsumer__already_written + (arg or 0)

    exact = True  # False: bytes beyond the valid region of the buffer are dropped from the key (see search())

    def canon(self) -> Any:
        c = self.c
        P = "_BufferedStreamDataConsumer__"
        buf = getattr(c, P + "buffer")
        g = getattr(c, P + "consumer")
        if buf is not None and not self.exact:
            start = getattr(c, P + "buffer_start")
            if start >= 0:
                buf = bytes(memoryview(buf).cast("B")[: start + getattr(c, P + "already_written")])
        return (
            "buf",
            None if buf is None else bytes(buf),
            getattr(c, P + "buffer_start"),
            getattr(c, P + "already_written"),
            getattr(c, P + "exported_write_buffer_view") is not None,
            canon(g) if g is not None else None,
        )

    def leftover(self) -> tuple:
        c = self.c
        P = "_BufferedStreamDataConsumer__"
        aw = getattr(c, P + "already_written")
        start = getattr(c, P + "buffer_start")
        g = getattr(c, P + "consumer")
        return (aw, start if g is not None else 0)


# ---------------------------------------------------------------------------------------------------------
# the search


class StateCap(Exception):
    pass


class SearchResult:
    __slots__ = ("terminals", "states", "transitions", "evaluations", "opaque", "crashes", "paths")

    def __init__(self) -> None:
        self.terminals: dict[tuple, tuple] = {}  # terminal observation -> example path
        self.states = 0
        self.transitions = 0
        self.evaluations = 0  # driver executions (replays from scratch)
        self.opaque = False
        self.crashes: list[tuple] = []
        self.paths = 0  # number of complete chunkings represented (path mode only)


def _replay(factory: Callable[[], Any], stream: bytes, path: tuple[int, ...]) -> tuple[Any, list, int, str | None]:
    drv = factory()
    outs: list = []
    pos = 0
    for k in path:
        try:
            outs.extend(drv.feed(stream[pos : pos + k]))
        except Exception as exc:  # anything else than parse errors escaping the consumer
            outs.append(("X", type(exc).__name__, type(exc.__cause__).__name__ if exc.__cause__ else ""))
            return drv, outs, pos + k, "crash"
        pos += k
        if outs and outs[-1][0] == "X":
            return drv, outs, pos, "crash"
    return drv, outs, pos, None


def search(
    factory: Callable[[], Any],
    stream: bytes,
    *,
    max_chunk: int = 1 << 30,
    merge: bool = True,
    terminal: Callable[[Any, list, tuple], Any] | None = None,
    step: Callable[[Any, list, int, tuple], None] | None = None,
    max_states: int = 2_000_000,
    chunk_sizes: tuple[int, ...] | None = None,
    abstract: bool = False,
) -> SearchResult:
    """Explore every chunking of ``stream`` (chunk sizes 1..max_chunk, capped by what the consumer offers).

    ``terminal(drv, outs, path)`` may return extra terminal data; ``step(drv, outs, pos, path)`` is called in every
    state (invariants).  The set of distinct terminal observations is returned.
    """
    res = SearchResult()
    n = len(stream)
    seen: set = set()
    stack: list[tuple[int, ...]] = [()]
    while stack:
        path = stack.pop()
        drv, outs, pos, crash = _replay(factory, stream, path)
        res.evaluations += 1
        if crash:
            t = (tuple(outs), "crash")
            res.terminals.setdefault(t, path)
            continue
        if abstract:
            drv.exact = False
        if step is not None:
            step(drv, outs, pos, path)
        if merge:
            try:
                key: Any = (pos, digest(outs), digest(drv.canon()))
            except Opaque:
                res.opaque = True
                key = ("path", path)
        else:
            key = ("path", path)
        if key in seen:
            continue
        seen.add(key)
        res.states += 1
        if res.states > max_states:
            raise StateCap()
        if pos >= n:
            extra = terminal(drv, outs, path) if terminal is not None else drv.leftover()
            t = (tuple(outs), extra)
            res.terminals.setdefault(t, path)
            res.paths += 1
            continue
        try:
            offered = drv.max_feed()
        except Exception as exc:
            t = (tuple(outs) + (("X", type(exc).__name__, "max_feed"),), "crash")
            res.terminals.setdefault(t, path)
            continue
        top = min(n - pos, max_chunk, offered)
        ks = range(top, 0, -1) if chunk_sizes is None else [k for k in sorted(set(chunk_sizes), reverse=True) if k <= top] or [top]
        for k in ks:
            res.transitions += 1
            stack.append(path + (k,))
    return res


def all_chunkings(n: int, max_chunk: int = 1 << 30) -> Iterable[tuple[int, ...]]:
    """Every composition of n with parts <= max_chunk (2**(n-1) of them when unbounded)."""
    if n == 0:
        yield ()
        return
    for k in range(1, min(n, max_chunk) + 1):
        for rest in all_chunkings(n - k, max_chunk):
            yield (k,) + rest


def few_cuts(
    factory: Callable[[], Any],
    stream: bytes,
    max_cuts: int,
    terminal: Callable[[Any, list, tuple], Any] | None = None,
    uniform: bool = False,
) -> SearchResult:
    """Pure path enumeration of every chunking with at most ``max_cuts`` cuts (a chunk larger than the view the
    consumer offers is delivered in pieces that fill the view, as recv_into would)."""
    import itertools

    res = SearchResult()
    n = len(stream)
    cutsets: list[tuple[int, ...]] = []
    for c in range(0, max_cuts + 1):
        cutsets.extend(itertools.combinations(range(1, n), c))
    if uniform:
        seen_sets = set(cutsets)
        for k in range(1, n):
            u = tuple(range(k, n, k))
            if u not in seen_sets:
                cutsets.append(u)
    if True:
        for cuts in cutsets:
            bounds = (0,) + cuts + (n,)
            drv = factory()
            outs: list = []
            path: list[int] = []
            crash = None
            try:
                for a, b in zip(bounds, bounds[1:]):
                    pos = a
                    while pos < b:
                        k = min(b - pos, drv.max_feed())
                        path.append(k)
                        outs.extend(drv.feed(stream[pos : pos + k]))
                        pos += k
                        res.transitions += 1
                        if outs and outs[-1][0] == "X":
                            raise _Crash()
            except _Crash:
                crash = "crash"
            except Exception as exc:
                outs.append(("X", type(exc).__name__, type(exc.__cause__).__name__ if exc.__cause__ else ""))
                crash = "crash"
            res.evaluations += 1
            res.paths += 1
            if crash:
                t = (tuple(outs), "crash")
            else:
                t = (tuple(outs), terminal(drv, outs, tuple(path)) if terminal is not None else drv.leftover())
            res.terminals.setdefault(t, tuple(path))
    return res


class _Crash(Exception):
    pass
