"""E1 - the virtual world: clock, pipes, fake sockets (real socket.socket subclass, in-memory I/O), fake selector.

The harness owns every source of nondeterminism: the clock only moves inside VSelector.select(); every I/O call on a
FakeSocket may consult the explorer (world.policy) for its answer; the environment acts inside select() (world.env).
"""
from __future__ import annotations

import collections
import errno
import select as _select
import selectors
import socket
import time
from typing import Any, Callable

from .core import Ctx, Deadlock, HorizonHit

_REAL_PERF = time.perf_counter
_REAL_MONO = time.monotonic


class Pipe:
    """One direction of a byte stream."""

    __slots__ = ("q", "capacity", "eof", "error", "total", "sticky_error")

    def __init__(self, capacity: int | None = None) -> None:
        self.q = bytearray()
        self.capacity = capacity  # None = unbounded
        self.eof = False
        self.error: OSError | None = None
        self.sticky_error = False  # the error is reported by every read once the queue is empty (a reset connection)
        self.total = bytearray()  # everything ever written (oracle side)

    def free(self) -> int:
        if self.capacity is None:
            return 1 << 30
        return max(0, self.capacity - len(self.q))

    def put(self, data: bytes) -> None:
        self.q += data
        self.total += data


class World:
    def __init__(self, ctx: Ctx | None = None, horizon: int = 5000) -> None:
        self.ctx = ctx if ctx is not None else Ctx()
        self.clock = 0.0
        self.sockets: list[FakeSocket] = []
        self.by_fd: dict[int, FakeSocket] = {}
        self.selects = 0
        self.horizon = horizon
        self.env: Callable[[World, "VSelector", float | None], None] | None = None  # untimed events, called at every select
        self.timed: list[tuple[float, int, Callable[[], None]]] = []  # (when, seq, action)
        self._seq = 0
        self.env_pending: Callable[[], bool] = lambda: False  # the environment still has untimed events to apply
        self.runnable: Callable[[], bool] = lambda: False  # vloop: loop has ready callbacks
        self.next_timer: Callable[[], float | None] = lambda: None  # vloop: next scheduled timer
        self.busy_streak = 0
        self.log: list[Any] = []
        self.max_positive_wait = 0.0
        self.waits: list[float | None] = []
        # I/O answer policies (default: simplest behaviour)
        self.send_policy: Callable[[FakeSocket, int], int | BaseException] | None = None
        self.recv_policy: Callable[[FakeSocket, int, int], int | BaseException] | None = None

    # -- time ------------------------------------------------------------------------------------
    def now(self) -> float:
        return self.clock

    def install_clock(self) -> None:
        time.perf_counter = self.now  # type: ignore[assignment]
        time.monotonic = self.now  # type: ignore[assignment]

    @staticmethod
    def restore_clock() -> None:
        time.perf_counter = _REAL_PERF
        time.monotonic = _REAL_MONO

    def advance(self, dt: float) -> None:
        """Let virtual time pass outside of select() (a caller that polls with a zero timeout)."""
        end = self.clock + dt
        while self.timed and self.timed[0][0] <= end:
            when, _seq, action = self.timed.pop(0)
            self.clock = max(self.clock, when)
            action()
        self.clock = end

    def at(self, when: float, action: Callable[[], None]) -> None:
        self._seq += 1
        self.timed.append((when, self._seq, action))
        self.timed.sort(key=lambda t: (t[0], t[1]))

    # -- sockets ---------------------------------------------------------------------------------
    def stream_socket(self, rx_cap: int | None = None, tx_cap: int | None = None, family: int = socket.AF_INET,
                      peer: tuple = ("127.0.0.1", 40000), local: tuple = ("127.0.0.1", 50000)) -> "FakeSocket":
        s = FakeSocket(self, family, socket.SOCK_STREAM)
        s.rx = Pipe(rx_cap)
        s.tx = Pipe(tx_cap)
        s.peername = peer
        s.sockname = local
        s.connected = True
        return s

    def dgram_socket(self, peer: tuple | None = ("127.0.0.1", 40000), local: tuple = ("127.0.0.1", 50000), family: int = socket.AF_INET) -> "FakeSocket":
        s = FakeSocket(self, family, socket.SOCK_DGRAM)
        s.rxd = collections.deque()
        s.txd = []
        s.peername = peer
        s.sockname = local
        s.connected = peer is not None
        return s

    def listener_socket(self, local: tuple = ("127.0.0.1", 50000), family: int = socket.AF_INET) -> "FakeSocket":
        s = FakeSocket(self, family, socket.SOCK_STREAM)
        s.accept_q = collections.deque()
        s.sockname = local
        s.listening = True
        return s

    def open_sockets(self) -> list["FakeSocket"]:
        return [s for s in self.sockets if not s.closed_flag]

    def close_all(self) -> None:
        for s in self.sockets:
            try:
                socket.socket.close(s)
            except OSError:
                pass
        self.sockets.clear()
        self.by_fd.clear()

    # -- select ----------------------------------------------------------------------------------
    def _ready(self, sel: "VSelector") -> list[tuple[selectors.SelectorKey, int]]:
        out = []
        real_r = []
        for key in list(sel.get_map().values()):
            fs = self.by_fd.get(key.fd)
            if fs is None or fs.closed_flag:
                if fs is None:
                    real_r.append(key)
                continue
            mask = 0
            if key.events & selectors.EVENT_READ and fs.readable():
                mask |= selectors.EVENT_READ
            if key.events & selectors.EVENT_WRITE and fs.writable():
                mask |= selectors.EVENT_WRITE
            if mask:
                out.append((key, mask))
        if real_r:
            rs = [k.fd for k in real_r if k.events & selectors.EVENT_READ]
            ws = [k.fd for k in real_r if k.events & selectors.EVENT_WRITE]
            try:
                r, w, _ = _select.select(rs, ws, [], 0)
            except (OSError, ValueError):
                r, w = [], []
            for k in real_r:
                mask = (selectors.EVENT_READ if k.fd in r else 0) | (selectors.EVENT_WRITE if k.fd in w else 0)
                if mask:
                    out.append((k, mask))
        return out

    def select(self, sel: "VSelector", timeout: float | None) -> list[tuple[selectors.SelectorKey, int]]:
        self.selects += 1
        if self.selects > self.horizon:
            raise HorizonHit(f"more than {self.horizon} select() calls")
        self.waits.append(timeout)
        if timeout is not None and timeout < 0:
            timeout = 0
        if self.env is not None:
            self.env(self, sel, timeout)
        while True:
            ready = self._ready(sel)
            if ready or self.runnable():
                if timeout == 0:
                    self._busy_tick()
                else:
                    self.busy_streak = 0
                return ready
            if timeout == 0:
                self._busy_tick()
                return ready
            self.busy_streak = 0
            deadline = self.clock + timeout if timeout is not None else None
            nxt = self.timed[0][0] if self.timed else None
            if nxt is not None and (deadline is None or nxt <= deadline):
                when, _seq, action = self.timed.pop(0)
                if when > self.clock:
                    self.max_positive_wait = max(self.max_positive_wait, when - self.clock)
                    self.clock = when
                action()
                if deadline is not None and self.clock >= deadline:
                    # an event exactly at the deadline: report what is ready now
                    return self._ready(sel)
                timeout = None if deadline is None else deadline - self.clock
                continue
            if deadline is None:
                if self.env is not None and self.env_pending():
                    # the events applied so far did not wake anything up: the environment goes on
                    self.env(self, sel, timeout)
                    continue
                raise Deadlock("select(None): nothing ready, nothing pending")
            self.max_positive_wait = max(self.max_positive_wait, deadline - self.clock)
            self.clock = deadline
            return []

    def _busy_tick(self) -> None:
        self.busy_streak += 1
        eps = 1e-6
        ahead = self.next_timer()
        if self.timed:
            ahead = self.timed[0][0] if ahead is None else min(ahead, self.timed[0][0])
        if ahead is not None and ahead > self.clock:
            eps = min(1e-6 * (2 ** (self.busy_streak // 4)), ahead - self.clock)
            # never overshoot and never stall on float rounding
            if self.clock + eps == self.clock:
                eps = ahead - self.clock
        self.clock += eps


class VSelector(selectors._BaseSelectorImpl):  # type: ignore[name-defined]
    def __init__(self, world: World) -> None:
        super().__init__()
        self.world = world

    def select(self, timeout: float | None = None) -> list[tuple[selectors.SelectorKey, int]]:
        return self.world.select(self, timeout)


class FakeSocket(socket.socket):
    """A real socket.socket (valid fd, isinstance checks pass) whose I/O goes to in-memory pipes owned by the world."""

    def __init__(self, world: World, family: int, type_: int) -> None:
        super().__init__(family, type_)
        super().setblocking(False)
        self.world = world
        self.rx: Pipe | None = None
        self.tx: Pipe | None = None
        self.rxd: collections.deque | None = None  # datagrams to receive: (payload, addr)
        self.txd: list | None = None  # datagrams sent: (payload, addr)
        self.accept_q: collections.deque | None = None
        self.peername: tuple | None = None
        self.sockname: tuple | None = None
        self.connected = False
        self.listening = False
        self.closed_flag = False
        self.shut_wr = False
        self.shut_rd = False
        self.so_error = 0
        self.getpeername_error: OSError | None = None
        self.calls: list[tuple] = []  # trace of I/O calls
        self.spurious_read = False  # report readable once although nothing can be read (the read then answers EAGAIN)
        self.tx_blocked = False  # set by a harness policy after answering EAGAIN: not writable until the env unblocks
        self.last_offered: Any = None
        self.dgram_send_policy: Callable[[FakeSocket, bytes], BaseException | None] | None = None
        self.tag = ""
        world.sockets.append(self)
        world.by_fd[super().fileno()] = self

    # -- readiness -------------------------------------------------------------------------------
    def readable(self) -> bool:
        if self.accept_q is not None:
            return bool(self.accept_q)
        if self.rxd is not None:
            return bool(self.rxd) or self.so_error != 0
        assert self.rx is not None
        return bool(self.rx.q) or self.rx.eof or self.rx.error is not None or self.spurious_read

    def writable(self) -> bool:
        if self.tx_blocked:
            return False
        if self.txd is not None:
            return True
        if self.tx is None:
            return False
        return self.tx.free() > 0 or self.tx.error is not None or self.tx.eof

    # -- stream I/O ------------------------------------------------------------------------------
    def _check_open(self) -> None:
        if self.closed_flag:
            raise OSError(errno.EBADF, "Bad file descriptor")

    def recv(self, bufsize: int, flags: int = 0) -> bytes:
        self._check_open()
        if self.rxd is not None:
            return self._recv_dgram(bufsize)[0]
        rx = self.rx
        assert rx is not None
        self.spurious_read = False
        if not rx.q:
            if rx.error is not None:
                err = rx.error
                if not getattr(rx, "sticky_error", False):
                    rx.error = None
                self.calls.append(("recv", "error", type(err).__name__))
                raise err
            if rx.eof:
                self.calls.append(("recv", 0))
                return b""
            self.calls.append(("recv", "EAGAIN"))
            raise BlockingIOError(errno.EAGAIN, "would block")
        avail = min(len(rx.q), bufsize)
        n = avail
        if self.world.recv_policy is not None:
            ans = self.world.recv_policy(self, avail, bufsize)
            if isinstance(ans, BaseException):
                self.calls.append(("recv", type(ans).__name__))
                raise ans
            n = ans
        data = bytes(rx.q[:n])
        del rx.q[:n]
        self.calls.append(("recv", n))
        return data

    def recv_into(self, buffer: Any, nbytes: int = 0, flags: int = 0) -> int:
        with memoryview(buffer) as mv:
            mv = mv.cast("B") if mv.itemsize != 1 or mv.ndim != 1 else mv
            size = nbytes or mv.nbytes
            data = self.recv(size)
            mv[: len(data)] = data
            return len(data)

    def send(self, data: Any, flags: int = 0) -> int:
        self._check_open()
        if self.txd is not None:
            return self._send_dgram(bytes(data), self.peername)
        tx = self.tx
        assert tx is not None
        data = bytes(data)
        if self.last_offered is None or not isinstance(self.last_offered, tuple):
            self.last_offered = data
        if self.shut_wr:
            raise BrokenPipeError(errno.EPIPE, "Broken pipe")
        if tx.error is not None:
            self.calls.append(("send", "error", type(tx.error).__name__))
            raise tx.error
        if self.world.send_policy is not None:
            ans = self.world.send_policy(self, len(data))
            if isinstance(ans, BaseException):
                self.calls.append(("send", len(data), type(ans).__name__))
                raise ans
            n = ans
        else:
            n = min(len(data), tx.free())
            if n == 0 and data:
                self.calls.append(("send", len(data), "EAGAIN"))
                raise BlockingIOError(errno.EAGAIN, "would block")
        tx.put(data[:n])
        self.calls.append(("send", len(data), n))
        self.last_offered = None
        return n

    def sendall(self, data: Any, flags: int = 0) -> None:
        raise AssertionError("sendall() must not be used on a non-blocking socket")

    def sendmsg(self, buffers: Any, ancdata: Any = (), flags: int = 0, address: Any = None) -> int:
        bufs = [bytes(b) for b in buffers]
        self.calls.append(("sendmsg", [len(b) for b in bufs]))
        self.last_offered = tuple(bufs)
        try:
            return self.send(b"".join(bufs))
        finally:
            self.last_offered = None

    # -- datagram I/O ----------------------------------------------------------------------------
    def _recv_dgram(self, bufsize: int) -> tuple[bytes, Any]:
        assert self.rxd is not None
        if self.so_error:
            e, self.so_error = self.so_error, 0
            raise OSError(e, "socket error")
        if not self.rxd:
            raise BlockingIOError(errno.EAGAIN, "would block")
        payload, addr = self.rxd.popleft()
        if isinstance(payload, BaseException):
            raise payload
        self.calls.append(("recvfrom", len(payload)))
        return payload[:bufsize], addr

    def recvfrom(self, bufsize: int, flags: int = 0) -> tuple[bytes, Any]:
        self._check_open()
        return self._recv_dgram(bufsize)

    def _send_dgram(self, data: bytes, addr: Any) -> int:
        assert self.txd is not None
        if self.dgram_send_policy is not None:
            ans = self.dgram_send_policy(self, data)
            if ans is not None:
                self.calls.append(("sendto", len(data), type(ans).__name__))
                raise ans
        self.txd.append((data, addr))
        self.calls.append(("sendto", len(data)))
        return len(data)

    def sendto(self, data: Any, *args: Any) -> int:
        self._check_open()
        addr = args[-1]
        return self._send_dgram(bytes(data), addr)

    # -- listener --------------------------------------------------------------------------------
    def accept(self) -> tuple[socket.socket, Any]:
        self._check_open()
        assert self.accept_q is not None
        if not self.accept_q:
            raise BlockingIOError(errno.EAGAIN, "would block")
        item = self.accept_q.popleft()
        if isinstance(item, BaseException):
            raise item
        return item, item.peername

    def listen(self, backlog: int = 0) -> None:
        self.listening = True

    def bind(self, address: Any) -> None:
        self.sockname = address

    # -- misc ------------------------------------------------------------------------------------
    def getpeername(self) -> Any:
        self._check_open()
        if self.getpeername_error is not None:
            raise self.getpeername_error
        if not self.connected or self.peername is None:
            raise OSError(errno.ENOTCONN, "Transport endpoint is not connected")
        return self.peername

    def getsockname(self) -> Any:
        self._check_open()
        return self.sockname

    def getsockopt(self, level: int, optname: int, *a: Any) -> Any:
        if level == socket.SOL_SOCKET and optname == socket.SO_ERROR:
            e, self.so_error = self.so_error, 0
            return e
        return super().getsockopt(level, optname, *a)

    def shutdown(self, how: int) -> None:
        self._check_open()
        if not self.connected and self.txd is None:
            raise OSError(errno.ENOTCONN, "Transport endpoint is not connected")
        if how in (socket.SHUT_WR, socket.SHUT_RDWR):
            self.shut_wr = True
            if self.tx is not None:
                self.tx.eof = True
        if how in (socket.SHUT_RD, socket.SHUT_RDWR):
            self.shut_rd = True
        self.calls.append(("shutdown", how))

    def close(self) -> None:
        if not self.closed_flag:
            self.closed_flag = True
            self.calls.append(("close",))
            if self.tx is not None:
                self.tx.eof = True
            self.world.by_fd.pop(super().fileno(), None)
        super().close()

    def detach(self) -> int:
        raise AssertionError("detach() on a FakeSocket")

    def __repr__(self) -> str:
        return f"<FakeSocket {self.tag or ''} fd={super().fileno()} closed={self.closed_flag}>"
