"""E7 - TLS rig: in-memory leaf transport, stdlib-ssl peer, ciphertext relay (async and blocking variants).

Layout of every TLS harness::

    library code under test                      harness
    -----------------------                      -------------------------------------------------------------
    AsyncTLSStreamTransport  --send_all-->  MemTransport --+                        +--> Peer (ssl.SSLObject over
                             <--recv_into--               |      Relay              |          two ssl.MemoryBIO)
    SSLStreamTransport  <--real socketpair-->  BlockingLink +-- to_peer / to_lib ---+

* ``MemTransport`` is a harness-side implementation of the PUBLIC ``AsyncStreamTransport`` ABC (contract in DESIGN.md E2):
  ``aclose()`` marks closed first and then passes k checkpoints, ``send_all`` logs the buffer after k checkpoints and hands
  it to the relay, ``recv_into`` waits on a future until the harness feeds bytes / EOF.  It records every byte handed to it.
* ``Peer`` is an independent stdlib endpoint (never EasyNetwork code) with scripted actions.
* ``Relay`` owns both ciphertext directions as byte queues.  It is stepped from ``world.env`` (= at every ``select()`` of
  the loop / of the blocking transport) and there decides, through a *policy* (default: deliver everything available), how
  many bytes go on; it can fragment, hold back, and cut the peer->library stream at a byte offset (raw EOF).
* ``FakeSocketLink``: the same relay under the REAL asyncio socket adapter on a ``world.FakeSocket`` (second configuration).
* The blocking ``SSLStreamTransport`` needs a real fd: the library gets one end of a real ``socket.socketpair()``; the relay
  holds the other end non-blocking and is pumped inside ``VSelector.select()`` (single thread); readiness of the library's
  fd is then polled for real by ``World._ready`` (``select.select(..., 0)``).

Ciphertext CONTENTS are random per run and are never compared; ciphertext LENGTHS are deterministic with the Ed25519
certificate (``determinism_guard`` re-checks it at the start of every job), so offset-addressed schedules replay exactly.
"""
from __future__ import annotations

import asyncio
import errno
import fcntl
import gc
import os
import selectors
import socket
import ssl
import subprocess
from typing import Any, Callable

from easynetwork.lowlevel.api_async.transports.abc import AsyncStreamTransport

from .core import Ctx, Deadlock, HorizonHit

CERT_DIR = os.path.join(os.path.dirname(os.path.abspath(__file__)), "certs")
CERT = os.path.join(CERT_DIR, "cert.pem")
KEY = os.path.join(CERT_DIR, "key.pem")
HOSTNAME = "localhost"
VERSIONS = ("1.2", "1.3")
ROLES = ("client", "server")  # role of the LIBRARY


class RigError(Exception):
    """A fault of the rig itself (reported as INTERNAL, never as a violation)."""


# ---------------------------------------------------------------------------------------------------------
# certificate and contexts


def ensure_cert() -> tuple[str, str]:
    """The Ed25519 self-signed certificate of /verif/setup.sh; created lazily with the same command if absent.
    (Ed25519 is not cosmetic: ECDSA signature lengths vary and would break offset-addressed replays.)"""
    if os.path.isfile(CERT) and os.path.getsize(CERT) > 0 and os.path.isfile(KEY) and os.path.getsize(KEY) > 0:
        return CERT, KEY
    os.makedirs(CERT_DIR, exist_ok=True)
    with open(os.path.join(CERT_DIR, ".lock"), "w") as lock:
        fcntl.flock(lock, fcntl.LOCK_EX)
        try:
            if not (os.path.isfile(CERT) and os.path.getsize(CERT) > 0 and os.path.isfile(KEY) and os.path.getsize(KEY) > 0):
                subprocess.run(
                    ["openssl", "req", "-x509", "-newkey", "ed25519", "-nodes", "-keyout", KEY, "-out", CERT, "-days", "36500",
                     "-subj", "/CN=localhost", "-addext", "subjectAltName=DNS:localhost"],
                    check=True, stdout=subprocess.DEVNULL, stderr=subprocess.DEVNULL, timeout=60,
                )
        finally:
            fcntl.flock(lock, fcntl.LOCK_UN)
    return CERT, KEY


_CTX_CACHE: dict[tuple, ssl.SSLContext] = {}
_GC_TICK = [0]


def gc_tick(every: int = 32) -> None:
    """Call once per execution.  ``vloop.collect_unhandled`` runs ``gc.collect(1)`` after every execution, which resets the
    allocation counters, so the interpreter's automatic FULL collection never triggers in a worker; the abandoned loop /
    task / transport cycles of each execution (each AsyncTLSStreamTransport owns a 256 KiB read buffer) are promoted to
    the oldest generation and pile up - measured 100 kB per execution, 6 GB per worker after 45 minutes.  A full
    collection every ``every`` executions keeps a worker at ~25 MB for 0.1 ms per execution."""
    _GC_TICK[0] += 1
    if _GC_TICK[0] % every == 0:
        gc.collect()


def _pin(ctx: ssl.SSLContext, version: str | None) -> None:
    if version is not None:
        v = {"1.2": ssl.TLSVersion.TLSv1_2, "1.3": ssl.TLSVersion.TLSv1_3}[version]
        ctx.minimum_version = v
        ctx.maximum_version = v
    # the property is about what EasyNetwork does with OpenSSL's report of a missing close_notify (DESIGN.md C09)
    ctx.options &= ~ssl.OP_IGNORE_UNEXPECTED_EOF


def context(side: str, version: str | None, kind: str = "pinned") -> ssl.SSLContext:
    """``side`` in client|server.  Contexts are cached per process (1.3 ms to build, an execution costs 3 ms): a context
    keeps no state that influences a NEW full handshake (no ``session=`` is ever passed, so nothing is resumed) - the
    length-trace guard would expose it otherwise.
    kind 'default' (client only): ``ssl.create_default_context()`` with SSL_CERT_FILE pointing at the rig certificate,
    prepared exactly as the clients do for ``ssl=True`` (OP_IGNORE_UNEXPECTED_EOF cleared); the version is then pinned
    by the peer's context only."""
    key = (side, version, kind)
    ctx = _CTX_CACHE.get(key)
    if ctx is not None:
        return ctx
    ensure_cert()
    if side == "client":
        if kind == "default":
            saved = os.environ.get("SSL_CERT_FILE")
            os.environ["SSL_CERT_FILE"] = CERT
            try:
                ctx = ssl.create_default_context()
            finally:
                if saved is None:
                    os.environ.pop("SSL_CERT_FILE", None)
                else:
                    os.environ["SSL_CERT_FILE"] = saved
            if not ctx.cert_store_stats().get("x509"):
                raise RigError("SSL_CERT_FILE did not make the default context trust the rig certificate")
            ctx.options &= ~ssl.OP_IGNORE_UNEXPECTED_EOF
        else:
            ctx = ssl.SSLContext(ssl.PROTOCOL_TLS_CLIENT)
            ctx.load_verify_locations(CERT)
            _pin(ctx, version)
    else:
        ctx = ssl.SSLContext(ssl.PROTOCOL_TLS_SERVER)
        ctx.load_cert_chain(CERT, KEY)
        _pin(ctx, version)
    _CTX_CACHE[key] = ctx
    return ctx


# ---------------------------------------------------------------------------------------------------------
# MemTransport


def _closed_error() -> OSError:
    return OSError(errno.EBADF, "MemTransport is closed")


class MemTransport(AsyncStreamTransport):
    """In-memory leaf transport (public ABC).  Everything the library hands to it is recorded:

    ``sent``: list of the buffers passed to send_all (copied), ``recv_sizes``: bytes returned by each recv_into,
    ``calls``: ordered trace of ("send", n) / ("recv", n) / ("aclose",) / ("send_eof",)."""

    def __init__(self, backend: Any, *, close_checkpoints: int = 1, send_checkpoints: int = 0, recv_checkpoints: int = 0,
                 close_error: BaseException | None = None) -> None:
        super().__init__()
        self._backend = backend
        self.close_checkpoints = close_checkpoints
        self.send_checkpoints = send_checkpoints
        self.recv_checkpoints = recv_checkpoints
        self.close_error = close_error
        self.send_error: BaseException | None = None  # when set: send_all raises it (connection gone for writing)
        self._rx = bytearray()
        self._rx_eof = False
        self._waiter: asyncio.Future | None = None
        self._closing = False
        self.close_completed = False
        self.eof_sent = False
        self.sent: list[bytes] = []
        self.recv_sizes: list[int] = []
        self.calls: list[tuple] = []
        self.fed_total = 0
        self.busy_recv = 0  # concurrent recv attempts (the library must serialise its reads)
        self.on_send: Callable[[bytes], None] | None = None
        self.on_close: Callable[[], None] | None = None

    # -- harness side ----------------------------------------------------------------------------
    @property
    def parked(self) -> bool:
        """A library task is suspended in recv/recv_into waiting for bytes."""
        return self._waiter is not None and not self._waiter.done()

    def _wake(self) -> None:
        w = self._waiter
        if w is not None and not w.done():
            w.set_result(None)

    def feed(self, data: bytes) -> None:
        if self._rx_eof:
            raise RigError("feed() after feed_eof()")
        self._rx += data
        self.fed_total += len(data)
        self._wake()

    def feed_eof(self) -> None:
        self._rx_eof = True
        self._wake()

    # -- AsyncStreamTransport --------------------------------------------------------------------
    def is_closing(self) -> bool:
        return self._closing

    def backend(self) -> Any:
        return self._backend

    @property
    def extra_attributes(self) -> dict:
        return {}

    async def aclose(self) -> None:
        first = not self._closing
        self._closing = True  # marked closed FIRST (contract)
        self.calls.append(("aclose",))
        if first:
            if self.on_close is not None:
                self.on_close()
            w = self._waiter
            if w is not None and not w.done():
                w.set_exception(OSError(errno.ECONNABORTED, "MemTransport closed while receiving"))
        for _ in range(self.close_checkpoints):
            await asyncio.sleep(0)
        if self.close_error is not None:
            raise self.close_error
        self.close_completed = True

    async def send_all(self, data: bytes | bytearray | memoryview) -> None:
        if self._closing:
            raise _closed_error()
        for _ in range(self.send_checkpoints):
            await asyncio.sleep(0)
        if self.send_error is not None:
            self.calls.append(("send-error", len(data)))
            raise self.send_error
        b = bytes(data)
        self.sent.append(b)
        self.calls.append(("send", len(b)))
        if self.on_send is not None:
            self.on_send(b)

    async def send_eof(self) -> None:
        if self._closing:
            raise _closed_error()
        self.eof_sent = True
        self.calls.append(("send_eof",))

    async def recv_into(self, buffer: Any) -> int:
        for _ in range(self.recv_checkpoints):
            await asyncio.sleep(0)
        with memoryview(buffer) as mv:
            if mv.itemsize != 1 or mv.ndim != 1:
                mv = mv.cast("B")
            while True:
                if self._closing:
                    raise _closed_error()
                if self._rx:
                    n = min(len(mv), len(self._rx))
                    mv[:n] = self._rx[:n]
                    del self._rx[:n]
                    self.recv_sizes.append(n)
                    self.calls.append(("recv", n))
                    return n
                if self._rx_eof:
                    self.recv_sizes.append(0)
                    self.calls.append(("recv", 0))
                    return 0
                if self._waiter is not None:
                    self.busy_recv += 1
                    raise OSError(errno.EBUSY, "MemTransport: another task is already receiving")
                fut = asyncio.get_running_loop().create_future()
                self._waiter = fut
                try:
                    await fut
                finally:
                    self._waiter = None


# ---------------------------------------------------------------------------------------------------------
# Peer


class Peer:
    """Independent stdlib TLS endpoint (``ssl.SSLObject`` over two ``MemoryBIO``), driven only by the harness.

    ``events``: ordered log of what it observed - ("hs-done",), ("data", n), ("close_notify",), ("raw-eof",),
    ("read-error", ExcName), ("hs-error", ExcName), ("unwrap-done",), ("unwrap-error", ExcName)."""

    def __init__(self, ctx: ssl.SSLContext, server_side: bool, auto_reply_close: bool = True) -> None:
        self.inc = ssl.MemoryBIO()
        self.out = ssl.MemoryBIO()
        self.obj = ctx.wrap_bio(self.inc, self.out, server_side=server_side, server_hostname=None if server_side else HOSTNAME)
        self.server_side = server_side
        self.handshaken = False
        self.dead = False  # fatal TLS error or shut down: no more reads
        self.received = bytearray()
        self.saw_close_notify = False
        self.raw_eof = False
        self.close_notify_before_raw_eof = False
        self.unwrap_state: str | None = None  # None | pending | done | error
        self.auto_reply_close = auto_reply_close
        self.events: list[tuple] = []
        self.written = 0

    def start(self) -> None:
        self.pump()

    def feed(self, data: bytes) -> None:
        self.inc.write(data)
        self.pump()

    def feed_eof(self) -> None:
        if self.raw_eof:
            return
        self.raw_eof = True
        self.close_notify_before_raw_eof = self.saw_close_notify
        self.events.append(("raw-eof",))
        self.inc.write_eof()
        self.pump()

    def pump(self) -> None:
        if self.dead:
            return
        if not self.handshaken:
            try:
                self.obj.do_handshake()
            except ssl.SSLWantReadError:
                return
            except (ssl.SSLError, OSError) as exc:
                self.dead = True
                self.events.append(("hs-error", type(exc).__name__))
                return
            self.handshaken = True
            self.events.append(("hs-done",))
        while not self.saw_close_notify and self.unwrap_state != "done":
            try:
                d = self.obj.read(1 << 16)
            except ssl.SSLWantReadError:
                break
            except ssl.SSLZeroReturnError:
                d = b""
            except (ssl.SSLError, OSError) as exc:
                self.dead = True
                self.events.append(("read-error", type(exc).__name__))
                return
            if d == b"":
                # CPython returns b"" (not SSLZeroReturnError) on a clean close_notify
                self.saw_close_notify = True
                self.events.append(("close_notify",))
                if self.auto_reply_close and self.unwrap_state is None:
                    self.unwrap_state = "pending"
                break
            self.received += d
            self.events.append(("data", len(d)))
        if self.unwrap_state == "pending":
            self._try_unwrap()

    def write(self, data: bytes) -> None:
        if not self.handshaken or self.dead:
            raise RigError("Peer.write before the handshake completed")
        view = memoryview(data)
        while view:
            n = self.obj.write(view)  # MemoryBIO is unbounded: never WANT_WRITE
            view = view[n:]
        self.written += len(data)

    def unwrap(self) -> None:
        """Send close_notify (and complete the closing handshake when the other side's arrives)."""
        if self.unwrap_state is None:
            self.unwrap_state = "pending"
            self._try_unwrap()

    def _try_unwrap(self) -> None:
        try:
            self.obj.unwrap()
        except ssl.SSLWantReadError:
            return
        except (ssl.SSLError, OSError) as exc:
            self.unwrap_state = "error"
            self.dead = True
            self.events.append(("unwrap-error", type(exc).__name__))
            return
        self.unwrap_state = "done"
        if not self.saw_close_notify:
            # SSL_shutdown completed: the other side's close_notify was consumed by unwrap() itself
            self.saw_close_notify = True
            self.events.append(("close_notify",))
        self.events.append(("unwrap-done",))


# ---------------------------------------------------------------------------------------------------------
# delivery policies


class DeliverAll:
    """Default environment: every step delivers everything that is available, in both directions."""

    def decide(self, direction: str, avail: int, rem: int | None, can_hold: bool) -> int:
        return avail


class Uniform:
    """Whole-run fragmentation: at most ``n`` bytes per delivery (per step and direction)."""

    def __init__(self, n: int, directions: tuple[str, ...] = ("to_lib", "to_peer")) -> None:
        self.n = n
        self.directions = directions

    def decide(self, direction: str, avail: int, rem: int | None, can_hold: bool) -> int:
        return min(self.n, avail) if direction in self.directions else avail


class Explore:
    """The explorer picks the delivery at every relay step.  peer->library: everything (0, default) | only k bytes now for
    k in {1, 4, 5 (= record header), rem-1, rem, rem+1} where rem = bytes up to the end of the TLS record at the head of
    the queue | hold (nothing now; only offered while the loop is busy, so that no artificial deadlock is created).
    library->peer: everything | hold (same restriction).  All alternatives are costed deviations."""

    KS = ("1", "4", "5", "rem-1", "rem", "rem+1")

    def __init__(self, ctx: Ctx, hold: bool = True, peer_hold: bool = True) -> None:
        self.ctx = ctx
        self.hold = hold
        self.peer_hold = peer_hold

    def decide(self, direction: str, avail: int, rem: int | None, can_hold: bool) -> int:
        if direction == "to_lib":
            ks: list[int] = []
            r = rem if rem is not None else avail
            for k in (1, 4, 5, r - 1, r, r + 1):
                if 0 < k < avail and k not in ks:
                    ks.append(k)
            ks.sort()
            alts: list[int] = [avail] + ks
            if can_hold and self.hold:
                alts.append(0)
            if len(alts) == 1:
                return avail
            return alts[self.ctx.choose(len(alts), "deliver-to-lib", costed=True)]
        if can_hold and self.peer_hold:
            return (avail, 0)[self.ctx.choose(2, "deliver-to-peer", costed=True)]
        return avail


# ---------------------------------------------------------------------------------------------------------
# links (how relay bytes reach the library)


class AsyncLink:
    def __init__(self, relay: "Relay", leaf: MemTransport) -> None:
        self.relay = relay
        self.leaf = leaf
        leaf.on_send = relay.lib_sent
        leaf.on_close = relay.lib_close

    def poll(self) -> None:
        pass

    def deliver(self, data: bytes) -> int:
        self.leaf.feed(data)
        return len(data)

    def deliver_eof(self, full: bool) -> None:
        self.leaf.feed_eof()
        if full:
            self.leaf.send_error = BrokenPipeError(errno.EPIPE, "Broken pipe")

    def lib_waiting(self, sel: Any) -> bool:
        return self.leaf.parked

    def close(self) -> None:
        pass


class FakeSocketLink:
    """The library's leaf is the REAL asyncio socket adapter (``backend.wrap_stream_socket``) on a ``world.FakeSocket``:
    the relay writes into the socket's rx pipe and drains its tx pipe at every step."""

    def __init__(self, relay: "Relay", sock: Any) -> None:
        self.relay = relay
        self.sock = sock

    def poll(self) -> None:
        q = self.sock.tx.q
        if q:
            self.relay.lib_sent(bytes(q))
            del q[:]
        if (self.sock.closed_flag or self.sock.shut_wr) and not self.relay.lib_closed:
            self.relay.lib_close()

    def deliver(self, data: bytes) -> int:
        if self.sock.closed_flag:
            return len(data)
        self.sock.rx.put(data)
        return len(data)

    def deliver_eof(self, full: bool) -> None:
        self.sock.rx.eof = True
        if full:
            self.sock.tx.error = BrokenPipeError(errno.EPIPE, "Broken pipe")

    def lib_waiting(self, sel: Any) -> bool:
        try:
            fd = socket.socket.fileno(self.sock)
            return any(key.fd == fd and key.events & selectors.EVENT_READ for key in sel.get_map().values())
        except Exception:
            return False

    def close(self) -> None:
        pass


class BlockingLink:
    """Real ``socket.socketpair()``: ``lib_sock`` goes to SSLStreamTransport, the relay keeps the other end non-blocking."""

    def __init__(self, relay: "Relay") -> None:
        self.relay = relay
        self.lib_sock, self.sock = socket.socketpair()
        self.sock.setblocking(False)
        self.lib_fd = self.lib_sock.fileno()  # ssl.wrap_socket() detaches lib_sock and keeps this very descriptor
        self.closed = False
        self.lib_reset = False
        self.short_sends = 0

    def poll(self) -> None:
        while not self.closed and not self.relay.lib_closed:
            try:
                d = self.sock.recv(1 << 18)
            except (BlockingIOError, InterruptedError):
                return
            except OSError:
                self.lib_reset = True
                d = b""
            if not d:
                self.relay.lib_close()
                return
            self.relay.lib_sent(d)

    def deliver(self, data: bytes) -> int:
        if self.closed:
            return len(data)
        try:
            n = self.sock.send(data)
        except (BlockingIOError, InterruptedError):
            n = 0
        except OSError:
            return len(data)  # the library already closed its end: the bytes go nowhere
        if n < len(data):
            self.short_sends += 1
        return n

    def deliver_eof(self, full: bool) -> None:
        if self.closed:
            return
        if full:
            self.poll()  # closing with unread bytes would turn the EOF into ECONNRESET
            self.closed = True
            self.sock.close()
        else:
            try:
                self.sock.shutdown(socket.SHUT_WR)
            except OSError:
                pass

    def lib_fd_closed(self) -> bool:
        """The library released its descriptor (checked directly: after a full cut the relay end is gone and cannot see
        the EOF).  Single thread, and the harness opens no descriptor between the library's close and this call, so the
        number cannot have been reused."""
        try:
            os.fstat(self.lib_fd)
        except OSError:
            return True
        return False

    def lib_waiting(self, sel: Any) -> bool:
        try:
            return any(key.events & selectors.EVENT_READ for key in sel.get_map().values())
        except Exception:
            return False

    def close(self) -> None:
        for s in (self.sock, self.lib_sock):
            try:
                s.close()
            except OSError:
                pass
        self.closed = True


# ---------------------------------------------------------------------------------------------------------
# Relay


class Relay:
    """Both ciphertext directions as byte queues between the library's leaf transport and the peer.

    ``script``: peer actions, executed in order, at most ONE output-producing action per relay step:
      ("write", bytes) - needs the peer's handshake to be complete
      ("wait_recv", n) - guard: the peer has read >= n plaintext bytes
      ("wait_close",)  - guard: the peer has seen the library's close_notify
      ("wait_until", f) - guard: the harness predicate f() is true
      ("unwrap",)      - the peer sends close_notify
    ``cut`` = offset o: the peer->library stream ends (raw EOF) after exactly o bytes, ``cut_when`` 'reached' = as soon
    as o bytes have been delivered, 'exceeded' = when the first byte beyond o would be delivered; ``cut_full``: the
    connection is also dead for writing afterwards.
    """

    def __init__(self, peer: Peer, policy: Any = None, script: list[tuple] | None = None, cut: int | None = None,
                 cut_when: str = "reached", cut_full: bool = False) -> None:
        self.peer = peer
        self.policy = policy if policy is not None else DeliverAll()
        self.script = list(script or [])
        self.script_pos = 0
        self.cut = cut
        self.cut_when = cut_when
        self.cut_full = cut_full
        self.cut_applied = False
        self.to_lib = bytearray()
        self.to_peer = bytearray()
        self.lib_out_total = bytearray()
        self.peer_out_total = bytearray()
        self.delivered_to_lib = 0
        self.delivered_to_peer = 0
        self.lib_closed = False
        self.segments: list[tuple[str, int, int]] = []  # which peer action produced which bytes of the peer->lib stream
        self.records: list[tuple[int, int, int]] = []  # (start, end, content type) of the peer->lib stream
        self._parse_pos = 0
        self._rec_cursor = 0
        self.trace: list[tuple[str, int]] = []  # ciphertext LENGTH trace (never contents)
        self.deliveries: list[tuple[str, int]] = []
        self.steps = 0
        self.holds = 0  # steps in which the policy held back available bytes
        self.mid_record_deliveries = 0  # deliveries to the library that ended strictly inside a TLS record
        self.link: Any = None
        self.started = False
        self.final = False
        self.max_steps = 2_000_000

    # -- library side ----------------------------------------------------------------------------
    def lib_sent(self, data: bytes) -> None:
        self.to_peer += data
        self.lib_out_total += data
        self.trace.append(("L", len(data)))

    def lib_close(self) -> None:
        self.lib_closed = True

    # -- peer side -------------------------------------------------------------------------------
    def _collect(self, label: str) -> None:
        d = self.peer.out.read()
        if not d:
            return
        start = len(self.peer_out_total)
        self.peer_out_total += d
        self.to_lib += d
        self.segments.append((label, start, start + len(d)))
        self.trace.append(("P:" + label, len(d)))
        tot = self.peer_out_total
        p = self._parse_pos
        while p + 5 <= len(tot):
            n = 5 + int.from_bytes(tot[p + 3:p + 5], "big")
            if p + n > len(tot):
                break
            self.records.append((p, p + n, tot[p]))
            p += n
        self._parse_pos = p

    def _head_record_remaining(self) -> int | None:
        off = self.delivered_to_lib
        i = self._rec_cursor
        recs = self.records
        while i < len(recs) and recs[i][1] <= off:
            i += 1
        self._rec_cursor = i
        if i < len(recs) and recs[i][0] <= off:
            return recs[i][1] - off
        return None

    def _run_script(self) -> None:
        peer = self.peer
        while self.script_pos < len(self.script):
            act = self.script[self.script_pos]
            kind = act[0]
            if kind == "write":
                if not peer.handshaken or peer.dead:
                    return
                peer.write(act[1])
                self.script_pos += 1
                self._collect("w%d" % sum(1 for a in self.script[: self.script_pos - 1] if a[0] == "write"))
                return  # one output-producing action per step
            if kind == "wait_recv":
                if len(peer.received) < act[1]:
                    return
                self.script_pos += 1
                continue
            if kind == "wait_close":
                if not peer.saw_close_notify:
                    return
                self.script_pos += 1
                continue
            if kind == "wait_until":
                if not act[1]():
                    return
                self.script_pos += 1
                continue
            if kind == "unwrap":
                if not peer.handshaken or peer.dead:
                    return
                peer.unwrap()
                self.script_pos += 1
                self._collect("close")
                return
            raise RigError(f"unknown peer action {act!r}")

    def _feed_peer(self, chunk: bytes) -> None:
        peer = self.peer
        was_hs = peer.handshaken
        was_cn = peer.saw_close_notify
        peer.feed(chunk)
        if not was_hs:
            label = "hs-final" if peer.handshaken else "hs"
        elif peer.saw_close_notify and not was_cn:
            label = "close-reply"
        else:
            label = "reply"
        self._collect(label)

    # -- the step --------------------------------------------------------------------------------
    def step(self, busy: bool, sel: Any = None) -> None:
        """Called from world.env at every select(); ``busy`` = the caller will poll again without waiting."""
        link = self.link
        if link is None:
            return  # the loop's first select() comes before the harness' main() has built the leaf transport
        self.steps += 1
        peer = self.peer
        policy = self.policy if not self.final else _DELIVER_ALL
        if not self.started:
            self.started = True
            peer.start()
            self._collect("hs")
        link.poll()
        # library -> peer
        if self.to_peer:
            can_hold = busy or (bool(self.to_lib) and not self.cut_applied and link.lib_waiting(sel))
            k = policy.decide("to_peer", len(self.to_peer), None, can_hold)
            if not k:
                self.holds += 1
            if k:
                chunk = bytes(self.to_peer[:k])
                del self.to_peer[:k]
                self.delivered_to_peer += k
                self.deliveries.append(("to_peer", k))
                self._feed_peer(chunk)
        if self.lib_closed and not self.to_peer and not peer.raw_eof:
            peer.feed_eof()
            self._collect("after-eof")
        # scripted peer action
        self._run_script()
        # peer -> library
        if self.cut_applied:
            self.to_lib.clear()
            return
        avail = len(self.to_lib)
        if self.cut is not None:
            avail = min(avail, self.cut - self.delivered_to_lib)
        if avail > 0:
            k = policy.decide("to_lib", avail, self._head_record_remaining(), busy)
            if not k:
                self.holds += 1
            if k:
                n = link.deliver(bytes(self.to_lib[:k]))
                del self.to_lib[:n]
                self.delivered_to_lib += n
                self.deliveries.append(("to_lib", n))
                rem = self._head_record_remaining()
                if rem is not None and any(r[0] < self.delivered_to_lib < r[1] for r in self.records[self._rec_cursor:self._rec_cursor + 1]):
                    self.mid_record_deliveries += 1
        if self.cut is not None and self.delivered_to_lib >= self.cut:
            if self.cut_when == "reached" or self.to_lib:
                self.cut_applied = True
                self.to_lib.clear()
                self.deliveries.append(("to_lib-EOF", self.delivered_to_lib))
                link.deliver_eof(self.cut_full)

    def _snapshot(self) -> tuple:
        return (len(self.to_peer), len(self.to_lib), self.delivered_to_lib, self.delivered_to_peer, self.script_pos,
                self.peer.raw_eof, self.cut_applied, len(self.peer_out_total), self.lib_closed)

    def env(self, world: Any, sel: Any, timeout: float | None) -> None:
        """``world.env`` hook.  One relay step per select(); when the caller is about to WAIT (timeout != 0) and the step
        did not wake it (e.g. only a fragment of a handshake flight reached the peer), further steps follow at once: the
        time between two relay steps is negligible against the library's 60 s / 30 s TLS timers, so the virtual clock
        must not jump to such a timer while ciphertext is still in flight."""
        busy = timeout == 0
        before = self._snapshot()
        self.step(busy, sel)
        if busy:
            if self._snapshot() != before:
                # World accelerates the virtual clock geometrically during an uninterrupted busy streak that has a timer
                # ahead (made for loops that spin on their own, C13).  A streak that is busy because the ENVIRONMENT
                # delivers a fragment at every iteration is not a spin: 100 seven-byte deliveries must not consume the
                # 60 s handshake timeout.  Each delivering step therefore restarts the streak (1 us per iteration).
                world.busy_streak = 0
            return
        while not world.runnable() and not world._ready(sel):
            before = self._snapshot()
            self.step(False, sel)
            if self._snapshot() == before:
                return
            if self.steps > self.max_steps:
                raise HorizonHit(f"more than {self.max_steps} relay steps")

    def drain(self, sel: Any = None, max_steps: int = 64) -> None:
        """After the library is done: let the peer see everything that is still in flight (default deliveries only,
        no choice point is consumed)."""
        self.final = True
        for _ in range(max_steps):
            before = (len(self.to_peer), len(self.to_lib), self.peer.raw_eof, self.script_pos, len(self.peer_out_total))
            self.step(True, sel)
            after = (len(self.to_peer), len(self.to_lib), self.peer.raw_eof, self.script_pos, len(self.peer_out_total))
            if before == after and not self.to_peer:
                return

    def length_trace(self) -> tuple:
        return tuple(self.trace)


_DELIVER_ALL = DeliverAll()


# ---------------------------------------------------------------------------------------------------------
# session builder + determinism guard


def make_peer_and_relay(version: str, lib_role: str, *, policy: Any = None, script: list[tuple] | None = None,
                        cut: int | None = None, cut_when: str = "reached", cut_full: bool = False,
                        auto_reply_close: bool = True) -> Relay:
    """The peer takes the opposite role of the library; its context is always version-pinned."""
    peer_side = "server" if lib_role == "client" else "client"
    peer = Peer(context(peer_side, version), server_side=(peer_side == "server"), auto_reply_close=auto_reply_close)
    return Relay(peer, policy, script, cut, cut_when, cut_full)


def lib_context(version: str, lib_role: str, kind: str = "pinned") -> ssl.SSLContext:
    return context(lib_role, version, kind if lib_role == "client" else "pinned")


def pattern(side: str, start: int, n: int) -> bytes:
    """Plaintext of a side = a prefix of an infinite stream of 24-byte blocks (20-byte side marker + 4-byte block number):
    position-dependent, so that loss / duplication / reordering of any byte range changes the result."""
    marker = MARKERS[side]
    first = start // 24
    last = (start + n + 23) // 24
    blob = b"".join(marker + j.to_bytes(4, "big") for j in range(first, last + 1))
    off = start - first * 24
    return blob[off:off + n]


MARKERS = {"lib": b"<<LIB-PLAINTEXT-MARK" , "peer": b">>PEER-PLAINTEXT-MRK"}
assert all(len(m) == 20 for m in MARKERS.values())


def default_session_trace(kind: str, version: str, lib_role: str) -> tuple:
    """One default session (handshake, one 300-byte record each way, peer closes, library closes); returns
    (session completed with the right plaintext, ciphertext length trace).  Used by ``determinism_guard``."""
    if kind == "async":
        return _default_async(version, lib_role)
    return _default_blocking(version, lib_role)


def determinism_guard(kind: str, version: str, lib_role: str) -> tuple:
    """The length trace of the default session must be identical in two runs (contents are random and never compared).
    A default session that FAILS is not a rig fault (the library under test may be broken - the exploration reports
    that); only differing traces are."""
    ok_a, a = default_session_trace(kind, version, lib_role)
    ok_b, b = default_session_trace(kind, version, lib_role)
    if a != b or ok_a != ok_b:
        raise RigError(f"ciphertext length trace of the default session differs between two runs ({kind}, TLS {version}, "
                       f"library as {lib_role}): {a!r} vs {b!r}")
    if ok_a and not a:
        raise RigError("empty length trace")
    return a


def _default_async(version: str, lib_role: str) -> tuple:
    from easynetwork.lowlevel.api_async.backend._asyncio.backend import AsyncIOBackend
    from easynetwork.lowlevel.api_async.transports.tls import AsyncTLSStreamTransport

    from . import vloop
    from .world import World

    world = World(Ctx(), horizon=2000)
    relay = make_peer_and_relay(version, lib_role, script=[("write", pattern("peer", 0, 300)), ("wait_recv", 300), ("unwrap",)])
    world.env = relay.env
    out: dict = {}

    async def main(loop: Any) -> None:
        leaf = MemTransport(AsyncIOBackend())
        relay.link = AsyncLink(relay, leaf)
        tls = await AsyncTLSStreamTransport.wrap(leaf, lib_context(version, lib_role), server_side=(lib_role == "server"),
                                                 server_hostname=HOSTNAME if lib_role == "client" else None)
        await tls.send_all(pattern("lib", 0, 300))
        got = bytearray()
        while True:
            d = await tls.recv(4096)
            if not d:
                break
            got += d
        await tls.aclose()
        relay.drain()
        out["ok"] = bytes(got) == pattern("peer", 0, 300) and bytes(relay.peer.received) == pattern("lib", 0, 300)

    status, value, _loop = vloop.run(world, main)
    gc_tick()
    return bool(status == "ok" and out.get("ok")), relay.length_trace()


def _default_blocking(version: str, lib_role: str) -> tuple:
    import math

    from easynetwork.lowlevel.api_sync.transports.socket import SSLStreamTransport

    from .world import VSelector, World

    world = World(Ctx(), horizon=2000)
    relay = make_peer_and_relay(version, lib_role, script=[("write", pattern("peer", 0, 300)), ("wait_recv", 300), ("unwrap",)])
    link = BlockingLink(relay)
    relay.link = link
    world.env = relay.env
    world.install_clock()
    tr = None
    try:
        tr = SSLStreamTransport(link.lib_sock, lib_context(version, lib_role), math.inf, server_side=(lib_role == "server"),
                                server_hostname=HOSTNAME if lib_role == "client" else None,
                                selector_factory=lambda: VSelector(world))
        tr.send_all(pattern("lib", 0, 300), math.inf)
        got = bytearray()
        while True:
            d = tr.recv(4096, math.inf)
            if not d:
                break
            got += d
        tr.close()
        relay.drain()
        ok = bytes(got) == pattern("peer", 0, 300) and bytes(relay.peer.received) == pattern("lib", 0, 300)
    except (Deadlock, HorizonHit, Exception):  # noqa: BLE001 - a failing default session is the exploration's business
        ok = False
    finally:
        world.restore_clock()
        if tr is not None:
            try:
                tr.close()
            except Exception:
                pass
        link.close()
    # the blocking direction library->relay is read from a kernel buffer: chunk boundaries there are the kernel's, so
    # only the per-direction TOTAL of the library side is part of the guard
    lib_total = sum(n for tag, n in relay.trace if tag == "L")
    return ok, tuple(t for t in relay.trace if t[0] != "L") + (("L-total", lib_total),)
