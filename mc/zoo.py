"""Serializer configurations shared by C01/C02/C05/C06/C07: every shipped incremental serializer importable here,
wrappers, composites, converters, plus three harness-defined subclasses exercising the public base classes."""
from __future__ import annotations

import json
import struct
from collections.abc import Generator
from dataclasses import dataclass, field
from typing import IO, Any, Callable, NamedTuple

from easynetwork.converter import AbstractPacketConverter, StapledPacketConverter
from easynetwork.exceptions import DeserializeError, PacketConversionError
from easynetwork.protocol import BufferedStreamProtocol, DatagramProtocol, StreamProtocol
from easynetwork.serializers import (
    JSONSerializer,
    NamedTupleStructSerializer,
    PickleSerializer,
    StringLineSerializer,
    StructSerializer,
)
from easynetwork.serializers.abc import AbstractIncrementalPacketSerializer, BufferedIncrementalPacketSerializer
from easynetwork.serializers.base_stream import AutoSeparatedPacketSerializer, FileBasedPacketSerializer
from easynetwork.serializers.composite import (
    StapledBufferedIncrementalPacketSerializer,
    StapledIncrementalPacketSerializer,
    StapledPacketSerializer,
)
from easynetwork.serializers.tools import GeneratorStreamReader
from easynetwork.serializers.wrapper import Base64EncoderSerializer, BZ2CompressorSerializer, ZlibCompressorSerializer

from .chunkmc import patch_compressor_serializer

# ---------------------------------------------------------------------------------------------------------
# harness-defined serializers (subclasses of the *public* base classes)


class SepSer(AutoSeparatedPacketSerializer[str, str]):
    """AutoSeparatedPacketSerializer with an arbitrary separator; payload = ascii text."""

    __slots__ = ()

    def __init__(self, separator: bytes, limit: int = 64, check: bool = True) -> None:
        super().__init__(separator, incremental_serialize_check_separator=check, limit=limit)

    def serialize(self, packet: str) -> bytes:
        return packet.encode("ascii")

    def deserialize(self, data: bytes) -> str:
        try:
            return data.decode("ascii")
        except UnicodeError as exc:
            raise DeserializeError(str(exc)) from exc


class LenFileSer(FileBasedPacketSerializer[bytes, bytes]):
    """FileBasedPacketSerializer over a 1-byte length prefixed dump/load. A payload containing 0xFF is invalid."""

    __slots__ = ()

    def __init__(self, limit: int = 64) -> None:
        super().__init__(expected_load_error=ValueError, limit=limit)

    def dump_to_file(self, packet: bytes, file: IO[bytes]) -> None:
        file.write(bytes([len(packet)]) + packet)

    def load_from_file(self, file: IO[bytes]) -> bytes:
        h = file.read(1)
        if not h:
            raise EOFError
        n = h[0]
        body = file.read(n)
        if len(body) < n:
            raise EOFError
        if b"\xff" in body:
            raise ValueError("0xFF in payload")
        return body


class GenReaderSer(AbstractIncrementalPacketSerializer[bytes, bytes]):
    """AbstractIncrementalPacketSerializer written with GeneratorStreamReader.read_exactly + read:
    frame = 2-byte big endian length, payload, 1 trailer byte '.' (read through reader.read(1))."""

    __slots__ = ()

    def incremental_serialize(self, packet: bytes) -> Generator[bytes]:
        yield struct.pack("!H", len(packet))
        yield packet  # may be empty
        yield b"."

    def incremental_deserialize(self) -> Generator[None, bytes, tuple[bytes, bytes]]:
        from easynetwork.exceptions import IncrementalDeserializeError

        reader = GeneratorStreamReader()
        header = yield from reader.read_exactly(2)
        (n,) = struct.unpack("!H", header)
        if n > 40:
            raise IncrementalDeserializeError("too long", reader.read_all())
        payload = b""
        while len(payload) < n:
            payload += yield from reader.read(n - len(payload))
        trailer = yield from reader.read(1)
        rest = reader.read_all()
        if trailer != b".":
            raise IncrementalDeserializeError("bad trailer", rest)
        return payload, rest


class IntStrConverter(AbstractPacketConverter[int, str]):
    __slots__ = ()

    def create_from_dto_packet(self, packet: str) -> int:
        try:
            return int(packet)
        except ValueError as exc:
            raise PacketConversionError(str(exc)) from exc

    def convert_to_dto_packet(self, obj: int) -> str:
        return str(obj)


class Point(NamedTuple):
    x: int
    name: str


# ---------------------------------------------------------------------------------------------------------


def _ident(p: Any) -> Any:
    return p


@dataclass
class SerCfg:
    name: str
    make: Callable[[], Any]  # fresh serializer
    packets: list
    expected: Callable[[Any], Any] = _ident
    frame_ref: Callable[[Any], bytes] | None = None  # independent reference of the bytes of one frame
    converter: Callable[[], Any] | None = None
    buffered: bool = True
    hints: tuple[int, ...] = (1, 2, 3, 5, 8, 64, 65536)
    hint_sensitive: bool = True  # create_buffer honours the size hint
    datagram_only: bool = False
    tags: tuple[str, ...] = ()

    def stream_protocol(self) -> StreamProtocol:
        return StreamProtocol(self.make(), self.converter() if self.converter else None)

    def buffered_protocol(self) -> BufferedStreamProtocol:
        return BufferedStreamProtocol(self.make(), self.converter() if self.converter else None)

    def datagram_protocol(self) -> DatagramProtocol:
        return DatagramProtocol(self.make(), self.converter() if self.converter else None)


LIMIT = 48  # small default limit so that bytearray(limit) buffers stay cheap to canonicalise

_KEY = b"MDEyMzQ1Njc4OWFiY2RlZjAxMjM0NTY3ODlhYmNkZWY="  # urlsafe b64 of 32 bytes


def _json_ref(p: Any, ensure_ascii: bool = True) -> bytes:
    return json.dumps(p, separators=(",", ":"), ensure_ascii=ensure_ascii).encode("utf-8") + b"\n"


def _json_raw_ref(p: Any) -> bytes:
    d = json.dumps(p, separators=(",", ":")).encode("utf-8")
    return d if d.startswith((b"{", b"[", b'"')) else d + b"\n"


JSON_PACKETS = [{"a": 1}, [1, [2, "]"]], 'q"\\}', 7, "é{", None, {"k": "\\\""}, [[], {}]]
LINE_ASCII = ["a", "bc", "x y", "}"]
LINE_UTF8 = ["a", "é", "€b", "\U0001f600"]
LINE_UTF16 = ["a", "éb", "\U0001f600"]


def configs() -> list[SerCfg]:
    from easynetwork.serializers.json import JSONEncoderConfig

    out: list[SerCfg] = []
    for nl, sep in (("LF", b"\n"), ("CR", b"\r"), ("CRLF", b"\r\n")):
        for keep in (False, True):
            for enc, pk in (("ascii", LINE_ASCII), ("utf-8", LINE_UTF8)):
                sep_s = sep.decode()
                out.append(SerCfg(
                    f"line/{nl}/keep={int(keep)}/{enc}",
                    (lambda nl=nl, keep=keep, enc=enc: StringLineSerializer(nl, encoding=enc, keep_end=keep, limit=LIMIT)),
                    pk,
                    expected=(lambda p, keep=keep, sep_s=sep_s: p + sep_s if keep else p),
                    frame_ref=(lambda p, enc=enc, sep=sep: p.encode(enc) + sep),
                    hint_sensitive=False, hints=(1, 64),
                    tags=("sep", "line"),
                ))
    # utf-16-le: the separator bytes may occur inside a code unit - only packets whose encoding does not contain it
    out.append(SerCfg(
        "line/CRLF/keep=0/utf-16-le",
        lambda: StringLineSerializer("CRLF", encoding="utf-16-le", limit=LIMIT),
        LINE_UTF16, frame_ref=lambda p: p.encode("utf-16-le") + b"\r\n", hint_sensitive=False, hints=(64,), tags=("sep", "line"),
    ))
    for use_lines in (True, False):
        for ea in (True, False):
            out.append(SerCfg(
                f"json/lines={int(use_lines)}/ascii={int(ea)}",
                (lambda use_lines=use_lines, ea=ea: JSONSerializer(JSONEncoderConfig(ensure_ascii=ea), use_lines=use_lines, limit=LIMIT)),
                JSON_PACKETS,
                frame_ref=((lambda p, ea=ea: _json_ref(p, ea)) if use_lines else (_json_raw_ref if ea else None)),
                buffered=False, tags=("json",),
            ))
    out.append(SerCfg("struct/!Hb", lambda: StructSerializer("!Hb"), [(1, 2), (65535, -1), (0, 0), (258, 10)],
                      frame_ref=lambda p: struct.pack("!Hb", *p), hints=(1, 2, 3, 5, 8, 64), tags=("fixed",)))
    out.append(SerCfg("namedtuple/!h3s", lambda: NamedTupleStructSerializer(Point, {"x": "h", "name": "3s"}, format_endianness="!"),
                      [Point(1, "abc"), Point(-2, "\n\r\n"), Point(0, "zzz")],
                      frame_ref=lambda p: struct.pack("!h3s", p.x, p.name.encode()), hints=(1, 5, 8, 64), tags=("fixed",)))
    for alpha in ("urlsafe", "standard"):
        for ck_name, ck in (("off", False), ("sha", True), ("key", _KEY)):
            for sep in (b"\r\n", b"\n", b"|"):
                if alpha == "standard" and (ck_name != "off" or sep != b"\r\n"):
                    continue
                out.append(SerCfg(
                    f"base64/{alpha}/ck={ck_name}/sep={sep!r}",
                    (lambda alpha=alpha, ck=ck, sep=sep: Base64EncoderSerializer(StringLineSerializer("LF", encoding="utf-8", limit=LIMIT), alphabet=alpha, checksum=ck, separator=sep, limit=96)),
                    ["a", "??>", "é"],
                    hint_sensitive=False, hints=(64,), tags=("sep", "base64"),
                ))
    out.append(SerCfg("zlib/json", lambda: patch_compressor_serializer(ZlibCompressorSerializer(JSONSerializer())),
                      [{"a": 1}, "x" * 40, [1, 2]], hints=(1, 3, 8, 64), tags=("compress",)))
    out.append(SerCfg("bz2/json", lambda: patch_compressor_serializer(BZ2CompressorSerializer(JSONSerializer())),
                      [{"a": 1}, [1, 2]], hints=(1, 8, 64), tags=("compress",)))
    for seplen, sep in ((1, b"|"), (2, b"\r\n"), (3, b"abc"[:0] + b"#~#")):
        out.append(SerCfg(f"autosep/{seplen}", (lambda sep=sep: SepSer(sep, limit=LIMIT)), ["a", "bc", "#", "~x"],
                          frame_ref=(lambda p, sep=sep: p.encode() + sep), hint_sensitive=False, hints=(64,), tags=("sep",)))
    out.append(SerCfg("filebased/len", lambda: LenFileSer(limit=LIMIT), [b"", b"a", b"bcd", b"\x01\x00"],
                      frame_ref=lambda p: bytes([len(p)]) + p, hints=(1, 2, 3, 5, 8, 64), tags=("file",)))
    out.append(SerCfg("genreader", lambda: GenReaderSer(), [b"", b"a", b"bcd", b"\x00\x01."],
                      frame_ref=lambda p: struct.pack("!H", len(p)) + p + b".", buffered=False, tags=("gen",)))
    out.append(SerCfg("stapled-inc/line+json", lambda: StapledIncrementalPacketSerializer(StringLineSerializer("LF", limit=LIMIT), StringLineSerializer("LF", limit=LIMIT, keep_end=True)),
                      ["a", "bc"], expected=lambda p: p + "\n", buffered=False, tags=("stapled",)))
    out.append(SerCfg("stapled-buf/json+line", lambda: StapledBufferedIncrementalPacketSerializer(StringLineSerializer("CRLF", limit=LIMIT), StringLineSerializer("CRLF", limit=LIMIT)),
                      ["a", "bc", "\n"], hint_sensitive=False, hints=(64,), tags=("stapled", "sep")))
    out.append(SerCfg("conv/line+int", lambda: StringLineSerializer("LF", limit=LIMIT), [0, 12, -3],
                      converter=lambda: IntStrConverter(), frame_ref=lambda p: str(p).encode() + b"\n", hint_sensitive=False, hints=(64,), tags=("conv", "sep")))
    out.append(SerCfg("conv-stapled/json", lambda: JSONSerializer(limit=LIMIT), [0, 12, -3],
                      converter=lambda: StapledPacketConverter(IntStrConverter(), IntStrConverter()), buffered=False, tags=("conv",)))
    return out


def by_name(name: str) -> SerCfg:
    for c in configs():
        if c.name == name:
            return c
    raise KeyError(name)
