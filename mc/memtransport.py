"""Harness-side in-memory implementations of the PUBLIC async transport ABCs (leaf transports for wrappers under test).

Contract (fixed, simple - DESIGN.md E2): ``aclose()`` marks the transport closed FIRST (that is what the real socket adapter
does), then passes ``close_checkpoints`` checkpoints, then optionally raises ``close_error`` or blocks forever
(``close_blocks``).  Everything handed to it is recorded.
"""
from __future__ import annotations

import asyncio
from collections.abc import Callable, Iterable, Mapping
from typing import Any

from easynetwork.lowlevel.api_async.backend.abc import AsyncBackend
from easynetwork.lowlevel.api_async.transports.abc import AsyncDatagramTransport, AsyncStreamTransport


class _LeafMixin:
    def _init_leaf(self, backend: AsyncBackend, name: str, close_checkpoints: int = 0, close_error: BaseException | None = None, close_blocks: bool = False) -> None:
        self._backend = backend
        self.name = name
        self.closed = False
        self.close_calls = 0
        self.close_checkpoints = close_checkpoints
        self.close_error = close_error
        self.close_blocks = close_blocks
        self.close_finished = 0

    async def aclose(self) -> None:
        self.close_calls += 1
        self.closed = True
        if self.close_calls > 1:
            return  # faults concern the first close only: a closed leaf closes again at once
        for _ in range(self.close_checkpoints):
            await asyncio.sleep(0)
        if self.close_blocks:
            await asyncio.get_running_loop().create_future()
        if self.close_error is not None:
            raise self.close_error
        self.close_finished += 1

    def is_closing(self) -> bool:
        return self.closed

    def backend(self) -> AsyncBackend:
        return self._backend

    @property
    def extra_attributes(self) -> Mapping[Any, Callable[[], Any]]:
        return {}


class MemStreamTransport(_LeafMixin, AsyncStreamTransport):
    def __init__(self, backend: AsyncBackend, name: str = "leaf", **kw: Any) -> None:
        super().__init__()
        self._init_leaf(backend, name, **kw)
        self.sent = bytearray()
        self.send_calls: list[bytes] = []
        self.inbox = bytearray()
        self.eof = False
        self.recv_error: BaseException | None = None
        self.send_error: BaseException | None = None
        self.send_checkpoints = 0
        self._data_event = asyncio.Event()
        self.eof_sent = False

    def feed(self, data: bytes) -> None:
        self.inbox += data
        self._data_event.set()

    def feed_eof(self) -> None:
        self.eof = True
        self._data_event.set()

    async def _wait_readable(self) -> None:
        while not self.inbox and not self.eof and self.recv_error is None:
            self._data_event.clear()
            await self._data_event.wait()
        if not self.inbox and self.recv_error is not None:
            raise self.recv_error

    async def recv(self, bufsize: int) -> bytes:
        await self._wait_readable()
        data = bytes(self.inbox[:bufsize])
        del self.inbox[:bufsize]
        return data

    async def recv_into(self, buffer: Any) -> int:
        await self._wait_readable()
        with memoryview(buffer) as mv:
            n = min(mv.nbytes, len(self.inbox))
            mv[:n] = self.inbox[:n]
        del self.inbox[:n]
        return n

    async def send_all(self, data: Any) -> None:
        for _ in range(self.send_checkpoints):
            await asyncio.sleep(0)
        if self.send_error is not None:
            raise self.send_error
        b = bytes(data)
        self.send_calls.append(b)
        self.sent += b

    async def send_all_from_iterable(self, iterable_of_data: Iterable[Any]) -> None:
        await self.send_all(b"".join(bytes(x) for x in iterable_of_data))

    async def send_eof(self) -> None:
        self.eof_sent = True


class MemDatagramTransport(_LeafMixin, AsyncDatagramTransport):
    def __init__(self, backend: AsyncBackend, name: str = "leaf", **kw: Any) -> None:
        super().__init__()
        self._init_leaf(backend, name, **kw)
        self.sent: list[bytes] = []
        self.inbox: list[bytes] = []
        self._data_event = asyncio.Event()

    async def recv(self) -> bytes:
        while not self.inbox:
            self._data_event.clear()
            await self._data_event.wait()
        return self.inbox.pop(0)

    async def send(self, data: Any) -> None:
        self.sent.append(bytes(data))
