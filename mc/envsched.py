"""Placement of environment events at event-loop iteration boundaries (used with world.env on the virtual loop).

Events are organised in *chains* (a chain is applied in order: peer writes W1, W2, ..., EOF; a second chain may hold the
cancel request).  At every select() the explorer decides which chain heads are applied before this poll:

* loop busy (select(0)):     default = nothing; applying heads now is a COSTED deviation (this is what produces same-iteration races);
* loop idle, no timer ahead: something must be applied; which non-empty subset of heads is a FREE choice (default: first chain's head);
* loop idle with a timer ahead (select(t>0)): FREE choice among: apply a subset now | let the timer fire first |
  'coincide': apply the head exactly when the timer falls due, so that _run_once queues the I/O callback and then the timer
  callback in ONE iteration (DESIGN.md E1; only offered when the harness enables it).
"""
from __future__ import annotations

import itertools
from typing import Any, Callable

from .core import Ctx
from .world import World


class Chain:
    def __init__(self, name: str, events: list[tuple[str, Callable[[], None]]]) -> None:
        self.name = name
        self.events = list(events)
        self.pos = 0
        self.hold = False  # a harness may hold a chain until some condition

    def head(self) -> tuple[str, Callable[[], None]] | None:
        if self.hold or self.pos >= len(self.events):
            return None
        return self.events[self.pos]

    def done(self) -> bool:
        return self.pos >= len(self.events)


class Placer:
    def __init__(self, ctx: Ctx, chains: list[Chain], *, coincide: bool = False, busy_costed: bool = True, idle_costed: bool = False,
                 max_busy_points: int = 10 ** 9, gate: Callable[[], bool] | None = None) -> None:
        self.ctx = ctx
        self.chains = chains
        self.coincide = coincide
        self.busy_costed = busy_costed
        self.idle_costed = idle_costed
        self.trace: list[tuple[int, str, tuple[str, ...]]] = []
        self.busy_points = 0
        self.max_busy_points = max_busy_points
        self.gate = gate  # events are only offered once gate() is true (e.g. the server is serving)
        self.coinciding: set[str] = set()

    def pending(self) -> bool:
        if self.gate is not None and not self.gate():
            return False
        return any(c.head() is not None and c.name not in self.coinciding for c in self.chains)

    def install(self, world: World) -> "Placer":
        world.env = self
        world.env_pending = self.pending
        return self

    def all_done(self) -> bool:
        return all(c.done() for c in self.chains)

    def _apply(self, world: World, chain: Chain) -> str:
        name, action = chain.events[chain.pos]
        chain.pos += 1
        action()
        world.busy_streak = 0  # busy because the environment acts: no reason to accelerate the clock
        return name

    def __call__(self, world: World, sel: Any, timeout: float | None) -> None:
        if self.gate is not None and not self.gate():
            return
        heads = [c for c in self.chains if c.head() is not None and c.name not in self.coinciding]
        if not heads:
            return
        subsets: list[tuple[Chain, ...]] = []
        for r in range(1, len(heads) + 1):
            subsets.extend(itertools.combinations(heads, r))
        busy = timeout == 0 or world.runnable() or bool(world._ready(sel))
        if busy:
            self.busy_points += 1
            if self.busy_points > self.max_busy_points:
                return
            options: list[Any] = [()] + subsets
            k = self.ctx.choose(len(options), "place-busy", costed=self.busy_costed)
        elif timeout is None and not world.timed:
            options = list(subsets)
            k = self.ctx.choose(len(options), "place-idle", costed=self.idle_costed)
        else:
            # a timer (or a timed event) is ahead
            options = list(subsets) + [()]
            if self.coincide and timeout is not None:
                options += [("coincide", c) for c in heads]
            k = self.ctx.choose(len(options), "place-timer", costed=self.idle_costed)
        opt = options[k]
        if opt and opt[0] == "coincide":
            chain = opt[1]
            when = world.clock + (timeout or 0.0)
            self.coinciding.add(chain.name)

            def fire(chain: Chain = chain) -> None:
                self.coinciding.discard(chain.name)
                nm = self._apply(world, chain)
                self.trace.append((world.selects, "coincide", (nm,)))

            world.at(when, fire)
            return
        names = tuple(self._apply(world, c) for c in opt)
        if names:
            self.trace.append((world.selects, "busy" if busy else "idle", names))
