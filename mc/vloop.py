"""E2 - the real asyncio SelectorEventLoop on the virtual world (fake selector, virtual clock, fake sockets)."""
from __future__ import annotations

import asyncio
import gc
import logging
from typing import Any, Awaitable, Callable, Coroutine

from .core import Ctx, Deadlock, HorizonHit
from .world import VSelector, World

logging.getLogger("asyncio").setLevel(logging.CRITICAL)
logging.getLogger("easynetwork").setLevel(logging.CRITICAL + 1)


class VLoop(asyncio.SelectorEventLoop):
    def __init__(self, world: World) -> None:
        self.world = world
        super().__init__(selector=VSelector(world))
        self.unhandled: list[dict] = []
        self.set_exception_handler(self._record)
        world.runnable = lambda: bool(self._ready)
        world.next_timer = self._next_timer
        self.iterations = 0

    def time(self) -> float:
        return self.world.clock

    def _next_timer(self) -> float | None:
        for h in self._scheduled:
            if not h._cancelled:
                # heap order is only guaranteed for [0]; a scan is fine (few timers)
                return min(x._when for x in self._scheduled if not x._cancelled)
        return None

    def _record(self, loop: Any, context: dict) -> None:
        self.unhandled.append({k: (type(v).__name__ if k == "exception" else str(v)[:200]) for k, v in context.items() if k in ("message", "exception")})

    def _run_once(self) -> None:
        self.iterations += 1
        super()._run_once()


def run(world: World, main: Callable[[VLoop], Coroutine[Any, Any, Any]], *, debug: bool = False) -> tuple[str, Any, VLoop]:
    """Run ``main(loop)`` to completion on a fresh VLoop. Returns (status, value, loop) where status is one of
    'ok', 'exc', 'deadlock', 'horizon'."""
    loop = VLoop(world)
    world.install_clock()
    asyncio.set_event_loop(loop)
    status, value = "ok", None
    try:
        try:
            value = loop.run_until_complete(main(loop))
        except Deadlock as exc:
            status, value = "deadlock", str(exc)
        except HorizonHit as exc:
            status, value = "horizon", str(exc)
        except BaseException as exc:  # noqa: BLE001
            from .core import DivergenceError, Pruned

            if isinstance(exc, (Pruned, DivergenceError, KeyboardInterrupt)):
                raise
            status, value = "exc", exc
    finally:
        try:
            _teardown(loop)
        finally:
            asyncio.set_event_loop(None)
            world.restore_clock()
    return status, value, loop


_EXECUTIONS = 0


def _teardown(loop: VLoop) -> None:
    # abandoned loop/task/transport cycles are promoted to the oldest generation by the per-execution gc.collect(1):
    # run a full collection now and then or a long-lived worker grows without bound
    global _EXECUTIONS
    _EXECUTIONS += 1
    if _EXECUTIONS % 64 == 0:
        gc.collect()
    # drop whatever is left without running it (pending tasks of an abandoned execution)
    try:
        for t in asyncio.all_tasks(loop):
            t._log_destroy_pending = False  # type: ignore[attr-defined]
    except Exception:
        pass
    try:
        for tr in list(loop._transports.values()):  # abandoned transports must not touch the closed loop from __del__
            tr._closing = True
    except Exception:
        pass
    loop._ready.clear()
    loop._scheduled.clear()
    try:
        loop.close()
    except Exception:
        pass
    loop.world.close_all()


def collect_unhandled(loop: VLoop) -> list[dict]:
    gc.collect(1)
    return list(loop.unhandled)
