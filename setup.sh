#!/bin/bash
# Offline setup: the framework is pure Python run from source; the only generated artefact is the TLS rig's
# self-signed Ed25519 certificate (see DESIGN.md E7).
set -e
here="$(cd "$(dirname "${BASH_SOURCE[0]}")" && pwd)"
mkdir -p "$here/mc/certs" "$here/evidence" "$here/replays"
if [ ! -s "$here/mc/certs/cert.pem" ]; then
  openssl req -x509 -newkey ed25519 -nodes -keyout "$here/mc/certs/key.pem" -out "$here/mc/certs/cert.pem" \
    -days 36500 -subj /CN=localhost -addext subjectAltName=DNS:localhost >/dev/null 2>&1
fi
/venv/bin/python -c "import sys; sys.path[:0]=['/repo/src','$here']; import easynetwork, mc.core, mc.chunkmc; print('setup ok')"
