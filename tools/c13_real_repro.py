import asyncio, sys
sys.path.insert(0, "/repo/src")
from easynetwork.lowlevel.api_async.backend._asyncio.backend import AsyncIOBackend

async def g1():
    b = AsyncIOBackend()
    with b.move_on_after(0) as s:
        await b.cancel_shielded_coro_yield()
    print("G1: cancel_called", s.cancel_called(), "caught", s.cancelled_caught(), "task.cancelling() after exit =", asyncio.current_task().cancelling())
    with b.move_on_after(0.05) as s:
        await b.ignore_cancellation(b.sleep(0.1))
    print("G1b: cancelling() after move_on_after(0.05){ignore_cancellation(sleep(0.1))} =", asyncio.current_task().cancelling())

async def g2_prog(b, log):
    with b.move_on_after(0.2) as s:
        await b.ignore_cancellation(b.sleep(0.4))
    log.append(("scope exit", s.cancel_called(), s.cancelled_caught()))
    await b.sleep(0.1)
    log.append("sleep after the scope COMPLETED")

async def g2():
    b = AsyncIOBackend(); log = []
    t = asyncio.create_task(g2_prog(b, log))
    await asyncio.sleep(0.1)
    t.cancel()          # external cancel while the task is inside ignore_cancellation, before the scope's deadline
    await asyncio.wait([t])
    print("G2:", log, "task.cancelled() =", t.cancelled(), "cancelling() =", t.cancelling())

async def g2_control():
    b = AsyncIOBackend(); log = []
    async def prog():
        await b.ignore_cancellation(b.sleep(0.4))
        log.append("shield done")
        await b.sleep(0.1)
        log.append("sleep after COMPLETED")
    t = asyncio.create_task(prog())
    await asyncio.sleep(0.1); t.cancel(); await asyncio.wait([t])
    print("control (no scope):", log, "task.cancelled() =", t.cancelled())

async def f5():
    b = AsyncIOBackend(); log = []
    async def prog():
        with b.move_on_after(0.1) as s:
            await b.sleep(1)
        log.append(("scope exit caught", s.cancelled_caught()))
        await b.sleep(0.1)
        log.append("sleep after the scope COMPLETED")
    t = asyncio.create_task(prog())
    loop = asyncio.get_running_loop()
    # cancel in the iteration right after the deadline callback ran: schedule a timer for the same instant (fires after it)
    loop.call_at(loop.time() + 0.1 + 1e-9, lambda: loop.call_soon(t.cancel))
    await asyncio.wait([t])
    print("F5 (timing-dependent on a real loop):", log, "cancelled =", t.cancelled(), "cancelling() =", t.cancelling())

asyncio.run(g1()); asyncio.run(g2()); asyncio.run(g2_control()); asyncio.run(f5())
