#!/venv/bin/python
"""seedstore.py <seed-id> <property> <patch.diff> <demo.py> <needs> <caught_by> <notes>  -> /verif/seeded/<seed-id>/"""
import json, os, shutil, sys
sid, prop, patch, demo, needs, caught, notes = sys.argv[1:8]
d = f"/verif/seeded/{sid}"
os.makedirs(d, exist_ok=True)
shutil.copy(patch, f"{d}/patch.diff")
shutil.copy(demo, f"{d}/demo.py")
meta = {
    "id": sid, "breaks_property": prop, "needs_to_manifest": needs,
    "written_by": "independent sub-agent that saw only the property text and a scratch worktree of /repo (nothing from /verif)",
    "confirmed": {
        "applies_to": "HEAD of /repo at the time (git apply --check)",
        "suite": "pinned suite with the change: 6710 passed (identical to baseline)",
        "demo": "exit 0 / PASS on the unchanged tree, exit 1 / FAIL with the change (run by the main session in the scratch worktree)",
    },
    "checks_run": caught, "notes": notes,
}
json.dump(meta, open(f"{d}/meta.json", "w"), indent=1)
print("stored", d)
