#!/bin/bash
# Runs the repository's pinned test suite (same selection as /root/.vp/BASELINE.json, parallelised) in directory $1 (default /repo)
# and prints the pass count; the baseline is 6710 passed. Failures/errors of trio/cbor/msgpack/event_loop-fixture tests are pre-existing.
dir="${1:-/repo}"
cd "$dir" && PYTHONPATH="$dir/src" timeout 3000 /venv/bin/python -m pytest -q -p no:cacheprovider --timeout=900 --continue-on-collection-errors -n 12 2>&1 | tail -1
