#!/bin/bash
# usage: seedcheck.sh <worktree> <patch.diff> <demo.py> "<checks to run, e.g. C04 C20>"
# Confirms a seeded change in a scratch worktree (applies, demo fails/passes, suite count) and runs the given checks against it.
wt="$1"; patch="$2"; demo="$3"; checks="$4"
cd "$wt" || exit 2
git checkout -q -- . ; git apply --check "$patch" || { echo "PATCH DOES NOT APPLY"; exit 2; }
echo "--- demo on unchanged tree"; PYTHONPATH="$wt/src" timeout 120 /venv/bin/python "$demo" 2>&1 | tail -2; echo "exit=${PIPESTATUS[0]}"
git apply "$patch"
echo "--- demo with the change"; PYTHONPATH="$wt/src" timeout 120 /venv/bin/python "$demo" 2>&1 | tail -2; echo "exit=${PIPESTATUS[0]}"
if [ -z "$SKIP_SUITE" ]; then echo "--- suite with the change"; /verif/tools/suite.sh "$wt"; fi
for c in $checks; do
  echo "--- check $c against the change"
  (cd /verif; VERIF_SRC="$wt/src" timeout 1500 ./check $c --tier quick --no-evidence 2>&1 | grep -v "^Unrelated" | grep "^VIOLATION\|key=\|^$c\|INTERNAL\|KNOWN" | cut -c1-330 | head -6)
done
cd "$wt"; git checkout -q -- .
