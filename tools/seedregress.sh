#!/bin/bash
# usage: seedregress.sh <procs> <seed-id>...   Re-runs the quick check of each seed's property against a private copy of /repo/src with the
# seed's patch applied (never touches /repo); prints one line per seed: id, property, exit code, first violation key.
procs="$1"; shift
for id in "$@"; do
  d=/verif/seeded/$id
  prop=$(/venv/bin/python -c "import json;print(json.load(open('$d/meta.json'))['breaks_property'])")
  rm -rf /tmp/me/reg; mkdir -p /tmp/me/reg; cp -r /repo/src /tmp/me/reg/src
  if ! (cd /tmp/me/reg && patch -p1 -s --no-backup-if-mismatch < $d/patch.diff) >/dev/null 2>&1; then echo "$id $prop PATCH-DOES-NOT-APPLY"; continue; fi
  out=$(cd /verif; VERIF_SRC=/tmp/me/reg/src timeout 3000 ./check $prop --tier quick --no-evidence --procs $procs 2>&1); rc=$?
  key=$(echo "$out" | grep -m1 "^  key=" | cut -c1-110)
  echo "$id $prop rc=$rc $key"
done
rm -rf /tmp/me/reg
